"""C06 search: oversize and malformed streams against the REAL channel, parser,
receivers and ErrorTask, driven single-threaded the way the I/O loop and one
worker would drive them with channel_request_lookahead = 0:

    loop:  run queued tasks (channel.service())      -- the worker
           handle_write() while writable()           -- the I/O thread's write side
           if readable(): received(next read)        -- the I/O thread's read side

Executable statement of C06 checked on every case:
  P1  nothing raises out of received() / service() / handle_write()
  P2  the application is called exactly for the messages before the refused
      one, never for the refused message nor for anything behind it
  P3  the refused message gets exactly one error response with the expected
      status (400/413/431/501), `Connection: close`, Content-Length equal to the
      body that follows, nothing after it, and the channel is closed
  P4  no read is accepted after the read in which the limit was crossed
  P5  carry state stays bounded on the real objects after every received():
      len(header_plus) < max_header; len(control_line)+len(trailer) <=
      body_bytes_received < max_body while the request is not completed
"""
import re

from harness import parser_h as H

ERROR_CODES = (400, 413, 431, 501)


class Srv:
    def __init__(self, adj):
        self.adj = adj
        self.active_channels = {}
        self.pending = []
        self.calls = []
        self.effective_host = "127.0.0.1"
        self.effective_port = 8080
        self.server_name = "localhost"
        self.trigger_pulled = 0

    def add_task(self, ch):
        self.pending.append(ch)

    def pull_trigger(self):
        self.trigger_pulled += 1

    def application(self, environ, start_response):
        body = environ["wsgi.input"].read()
        self.calls.append((environ["REQUEST_METHOD"], environ["PATH_INFO"], len(body)))
        start_response("200 OK", [("Content-Type", "text/plain"), ("Content-Length", "2")])
        return [b"ok"]


class _NullLogger:
    def __getattr__(self, name):
        return lambda *a, **k: None


def make(mh, mb, **kw):
    from waitress.adjustments import Adjustments
    from waitress.channel import HTTPChannel

    adj = Adjustments(max_request_header_size=mh, max_request_body_size=mb, **kw)
    sock = H._Sock()
    srv = Srv(adj)
    ch = HTTPChannel(srv, sock, ("127.0.0.1", 1234), adj, map={})
    ch.logger = _NullLogger()
    return ch, sock, srv


def carry_bounds(ch, mh, mb):
    """P5 on the request under construction"""
    from waitress.receiver import ChunkedReceiver

    r = ch.request
    if r is None or r.completed:
        return None
    if len(r.header_plus) >= mh:
        return "len(header_plus)=%d >= max_header=%d" % (len(r.header_plus), mh)
    br = r.body_rcv
    if isinstance(br, ChunkedReceiver):
        c = len(br.control_line) + len(br.trailer)
        if not (c <= r.body_bytes_received < mb):
            return "chunked carry %d, body_bytes_received %d, max_body %d" % (c, r.body_bytes_received, mb)
    elif br is not None:
        if not (r.body_bytes_received < mb):
            return "body_bytes_received %d >= max_body %d on an open request" % (r.body_bytes_received, mb)
    return None


def drive(mh, mb, reads, lazy_worker=False, **kw):
    """-> dict(raised, calls, wire, reads_accepted, closed, bound_violation, max_queued = the largest number of
    requests already queued at the moment a read was accepted)
    lazy_worker: the worker is busy elsewhere -- queued tasks are not serviced between the reads, only
    at the end (with channel_request_lookahead >= 1 the channel stays readable while tasks are queued)"""
    ch, sock, srv = make(mh, mb, **kw)
    res = {"raised": None, "reads_accepted": 0, "bound_violation": None, "reset": False}
    orig = ch.send_continue

    def send_continue(*a, **k):
        if ch.request.completed:
            res["reset"] = True
        orig(*a, **k)
    ch.send_continue = send_continue

    def pump():
        guard = 0
        while guard < 50:
            guard += 1
            if srv.pending and not (lazy_worker and not final[0]):
                c = srv.pending.pop(0)
                c.service()
                continue
            if ch.connected and ch.writable():
                before = (len(sock.sent), ch.will_close, ch.connected)
                ch.handle_write()
                if (len(sock.sent), ch.will_close, ch.connected) == before and not srv.pending:
                    break
                continue
            break

    final = [False]
    res["max_queued"] = 0
    try:
        for d in reads:
            pump()
            # a lazy worker gets round to the connection only when the I/O thread cannot read on
            guard2 = 0
            while lazy_worker and ch.connected and not ch.readable() and srv.pending and guard2 < 50:
                guard2 += 1
                srv.pending.pop(0).service()
                pump()
            if not ch.connected or not ch.readable():
                break
            res["max_queued"] = max(res["max_queued"], len(ch.requests))     # queued when the read was accepted
            ch.received(d)
            res["reads_accepted"] += 1
            if res["bound_violation"] is None:
                res["bound_violation"] = carry_bounds(ch, mh, mb)
        final[0] = True
        pump()
    except Exception as e:
        res["raised"] = "%s: %s" % (type(e).__name__, e)
    res["calls"] = list(srv.calls)
    res["wire"] = sock.sent
    res["closed"] = not ch.connected
    res["open_request"] = ch.request is not None
    return res


_STATUS = re.compile(rb"HTTP/1\.[01] (\d{3}) ([^\r\n]*)\r\n")


def parse_wire(wire):
    """-> (responses, problem).  response = dict(code, headers(list), body)"""
    out = []
    pos = 0
    while pos < len(wire):
        m = _STATUS.match(wire, pos)
        if not m:
            return out, "no status line at offset %d: %r" % (pos, wire[pos:pos + 40])
        end = wire.find(b"\r\n\r\n", pos)
        if end < 0:
            return out, "unterminated response head at offset %d" % pos
        lines = wire[m.end():end].split(b"\r\n") if end > m.end() - 2 and wire[m.end():end] else []
        hdrs = []
        for l in lines:
            if b":" not in l:
                return out, "bad header line %r" % l
            k, v = l.split(b":", 1)
            hdrs.append((k.strip().lower(), v.strip()))
        code = int(m.group(1))
        pos = end + 4
        body = b""
        if code >= 200:
            cls = [v for k, v in hdrs if k == b"content-length"]
            if len(cls) != 1 or not cls[0].isdigit():
                return out, "response %d without a single Content-Length" % code
            n = int(cls[0])
            body = wire[pos:pos + n]
            if (code >= 400 and pos == len(wire) and (b"connection", b"close") in hdrs):
                # the error response to a HEAD request announces the length of
                # the body it does not send (fix 7243240); it is always the
                # last thing on the connection
                body = b""
                n = 0
            if len(body) != n:
                return out, "response %d body shorter than Content-Length %d" % (code, n)
            pos += n
        out.append({"code": code, "headers": hdrs, "body": body})
    return out, None


def judge(case, res):
    """case: dict(mh, mb, reads, prefix_paths, expect, cross_read)
       expect = ("refuse", codes) | ("deliver", path, bodylen) | ("open",)
    -> list of (property, text) failures"""
    bad = []
    if res["raised"]:
        bad.append(("P1", "exception left the connection code: " + res["raised"]))
    if res["bound_violation"]:
        bad.append(("P5", res["bound_violation"]))
    resp, prob = parse_wire(res["wire"])
    if prob:
        bad.append(("P3", "wire not a sequence of well-formed responses: " + prob))
    finals = [r for r in resp if r["code"] >= 200]
    errors = [r for r in finals if r["code"] >= 400]
    paths = [c[1] for c in res["calls"]]
    want_paths = list(case["prefix_paths"])
    kind = case["expect"][0]
    if kind == "deliver":
        want_paths.append(case["expect"][1])
        if case.get("after"):
            want_paths.append(case["after"])
    if paths != want_paths:
        bad.append(("P2", "application calls %r, expected %r" % (paths, want_paths)))
    if kind == "deliver":
        got = [c for c in res["calls"] if c[1] == case["expect"][1]]
        if got and got[0][2] != case["expect"][2]:
            bad.append(("P2", "delivered body length %d, expected %d" % (got[0][2], case["expect"][2])))
        if errors:
            bad.append(("P3", "unexpected error response %d" % errors[0]["code"]))
    elif kind == "refuse":
        codes = case["expect"][1]
        if len(errors) != 1:
            bad.append(("P3", "%d error responses, expected exactly one of %r" % (len(errors), codes)))
        else:
            e = errors[0]
            if e["code"] not in codes or e["code"] not in ERROR_CODES:
                bad.append(("P3", "error response %d, expected one of %r" % (e["code"], codes)))
            if finals[-1] is not e:
                bad.append(("P3", "a response follows the error response"))
            if (b"connection", b"close") not in e["headers"]:
                bad.append(("P3", "error response does not announce Connection: close"))
            if len(finals) != len(case["prefix_paths"]) + 1:
                bad.append(("P3", "%d final responses for %d delivered messages + 1 refusal"
                            % (len(finals), len(case["prefix_paths"]))))
        if not res["closed"]:
            bad.append(("P3", "channel still open after the refusal"))
        cr = case.get("cross_read")
        if cr is not None and res["reads_accepted"] > cr + 1:
            bad.append(("P4", "%d reads accepted, limit crossed in read %d" % (res["reads_accepted"], cr)))
    elif kind == "open":
        if errors:
            bad.append(("P3", "unexpected error response %d" % errors[0]["code"]))
    for e in errors:
        if e["code"] not in ERROR_CODES + (500,):
            bad.append(("P3", "error status %d" % e["code"]))
    return bad


# ---------------------------------------------------------------------------
# generators

def ok_request(i, rng, small=False):
    body = b"x" * rng.choice([0, 0, 1, 3])
    if body and not small:
        if rng.random() < 0.5:
            return b"POST /ok%d HTTP/1.1\r\nHost: h\r\nContent-Length: %d\r\n\r\n%s" % (i, len(body), body)
        return b"POST /ok%d HTTP/1.1\r\nHost: h\r\nTransfer-Encoding: chunked\r\n\r\n%x\r\n%s\r\n0\r\n\r\n" % (
            i, len(body), body)
    return b"GET /ok%d HTTP/1.1\r\nHost: h\r\n\r\n" % i


AFTER = b"GET /after HTTP/1.1\r\nHost: h\r\n\r\n"


def head_of_len(n, terminated=True, rng=None):
    """a syntactically valid head `GET /big ...` of exactly n bytes including
    its CRLFCRLF (n >= 40), or the first n bytes of an endless one"""
    base = b"GET /big HTTP/1.1\r\nHost: h\r\nX-Pad: "
    if not terminated:
        return (base + b"a" * max(0, n))[:n]
    pad = n - len(base) - 4
    if pad < 0:
        return None
    return base + b"a" * pad + b"\r\n\r\n"


def chunked_of_len(n, rng):
    """a well-formed chunked payload of exactly n wire bytes (n >= 5), data
    length returned too"""
    # "0\r\n\r\n" is 5 bytes; one chunk "k\r\n" + data + "\r\n" costs len(hex)+4+k
    if n < 5:
        return None
    rest = n - 5
    if rest == 0:
        return b"0\r\n\r\n", 0
    for hexlen in (1, 2, 3, 4, 5):
        k = rest - 4 - hexlen
        if k >= 1 and len(b"%x" % k) == hexlen:
            return b"%x\r\n" % k + b"d" * k + b"\r\n0\r\n\r\n", k
    # pad with a chunk extension
    for hexlen in (1, 2, 3, 4, 5):
        for extlen in range(2, 8):
            k = rest - 4 - hexlen - extlen
            if k >= 1 and len(b"%x" % k) == hexlen:
                return b"%x;" % k + b"e" * (extlen - 1) + b"\r\n" + b"d" * k + b"\r\n0\r\n\r\n", k
    return None


def split_by(s, size):
    return [s[i:i + size] for i in range(0, len(s), size)] or [s]


def read_index_of(reads, offset):
    """index of the read that contains stream byte `offset-1` (offset >= 1)"""
    tot = 0
    for i, r in enumerate(reads):
        tot += len(r)
        if tot >= offset:
            return i
    return len(reads) - 1


def gen_cases(rng, tier):
    """yield case dicts.  Every oversize shape x limit values from 8 bytes to
    the defaults x recv sizes 1..8192 x 0..2 delivered messages in front."""
    mh_values = [8, 41, 64, 100, 257, 1000, 4096, 262144]
    mb_values = [1, 2, 8, 17, 100, 1000, 65536, 1073741824]
    recv_sizes = [1, 2, 3, 7, 64, 1000, 4096, 8192, 10 ** 9]
    reps = 1 if tier == "quick" else 6

    def finish(kind, mh, mb, prefix_n, msg, expect, cross_off, tail=AFTER, recv=None, tags=None):
        pre = [ok_request(i, rng, small=(mh < 100 or mb < 100)) for i in range(prefix_n)]
        stream = b"".join(pre) + msg + tail
        start = sum(len(p) for p in pre)
        recv = recv or rng.choice(recv_sizes)
        # keep byte-wise runs of very long streams out of the quick tier
        if recv < 64 and len(stream) > 20000:
            recv = 4096
        reads = split_by(stream, recv)
        c = {"kind": kind, "mh": mh, "mb": mb, "reads": reads, "expect": expect, "recv": recv,
             "prefix_paths": ["/ok%d" % i for i in range(prefix_n)],
             "cross_read": None if cross_off is None else read_index_of(reads, start + cross_off),
             "after": "/after" if tail == AFTER else None,
             "tags": tags or {}}
        return c

    for _ in range(reps):
        for mh in mh_values:
            big_mb = 1073741824
            for prefix_n in (0, 1, 2):
                # the prefix messages must fit below mh themselves
                if prefix_n and mh < 41:
                    continue
                if mh > 5000 and prefix_n == 2:
                    continue
                # unterminated head reaching the limit by -1/0/+1 and far beyond
                for extra in (-1, 0, 1, 300):
                    n = mh + extra
                    if n < 1:
                        continue
                    msg = head_of_len(n, terminated=False)
                    exp = ("refuse", (431,)) if n >= mh else ("open",)
                    yield finish("head-unterminated%+d" % extra, mh, big_mb, prefix_n, msg, exp,
                                 mh if n >= mh else None, tail=b"")
                # terminated head of total length mh-1/mh/mh+1
                for extra in (-1, 0, 1):
                    n = mh + extra
                    msg = head_of_len(n, terminated=True)
                    if msg is None:
                        continue
                    exp = ("refuse", (431,)) if n >= mh else ("deliver", "/big", 0)
                    yield finish("head-terminated%+d" % extra, mh, big_mb, prefix_n, msg, exp,
                                 mh if n >= mh else None)
        for mb in mb_values:
            mh = 262144
            for prefix_n in (0, 1):
                if prefix_n and mb < 4:
                    continue
                for extra in (-1, 0, 1):
                    cl = mb + extra
                    if cl < 0:
                        continue
                    send = min(cl, 3000)
                    head = b"POST /big HTTP/1.1\r\nHost: h\r\nContent-Length: %d\r\n\r\n" % cl
                    if cl >= mb and cl > 0:
                        exp = ("refuse", (413,))
                        yield finish("cl-declared%+d" % extra, mh, mb, prefix_n, head + b"b" * send, exp, len(head))
                    elif send == cl:
                        exp = ("deliver", "/big", cl)
                        yield finish("cl-declared%+d" % extra, mh, mb, prefix_n, head + b"b" * send, exp, None)
                    # chunked payload of exactly mb-1 / mb / mb+1 wire bytes
                    if mb + extra <= 70000:
                        r = chunked_of_len(mb + extra, rng)
                        chead = b"POST /big HTTP/1.1\r\nHost: h\r\nTransfer-Encoding: chunked\r\n\r\n"
                        if r is not None:
                            payload, k = r
                            if mb + extra >= mb:
                                yield finish("chunked-wire%+d" % extra, mh, mb, prefix_n, chead + payload,
                                             ("refuse", (413,)), len(chead) + mb)
                            else:
                                yield finish("chunked-wire%+d" % extra, mh, mb, prefix_n, chead + payload,
                                             ("deliver", "/big", k), None)
                if mb <= 70000:
                    chead = b"POST /big HTTP/1.1\r\nHost: h\r\nTransfer-Encoding: chunked\r\n\r\n"
                    # unterminated control line / chunk extension / trailer, huge hex number
                    for name, payload in (
                        ("ctl-unterminated", b"f" * (mb + 5)),
                        ("ext-unterminated", b"1;" + b"e" * (mb + 5)),
                        ("trailer-unterminated", b"0\r\nX: " + b"t" * (mb + 5)),
                        ("hex-thousands", b"f" * 3000 + b"\r\n" + b"d" * (mb + 5)),
                        ("zero-thousands", b"0" * 3000 + b"1\r\nd\r\n" + b"0\r\n\r\n"),
                    ):
                        total = len(payload)
                        if name == "zero-thousands":
                            exp = ("refuse", (413,)) if total >= mb else ("deliver", "/big", 1)
                            yield finish(name, mh, mb, prefix_n, chead + payload, exp,
                                         len(chead) + mb if total >= mb else None)
                        else:
                            yield finish(name, mh, mb, prefix_n, chead + payload, ("refuse", (413,)),
                                         len(chead) + mb, tail=b"")
        # numbers with thousands of digits, malformed framing: refusals decided at the end of the head
        for mh, mb in ((262144, 1073741824), (262144, 10), (20000, 1000)):
            for prefix_n in (0, 1):
                for name, head, codes in (
                    ("cl-5000-digits", b"POST /big HTTP/1.1\r\nHost: h\r\nContent-Length: " + b"9" * 5000 + b"\r\n\r\n", (400,)),
                    ("cl-4300-digits", b"POST /big HTTP/1.1\r\nHost: h\r\nContent-Length: " + b"9" * 4300 + b"\r\n\r\n", (413,)),
                    ("cl-4301-digits", b"POST /big HTTP/1.1\r\nHost: h\r\nContent-Length: " + b"9" * 4301 + b"\r\n\r\n", (400,)),
                    ("cl-zeros-5000", b"POST /big HTTP/1.1\r\nHost: h\r\nContent-Length: " + b"0" * 5000 + b"\r\n\r\n", (400,)),
                    ("cl-plus", b"POST /big HTTP/1.1\r\nHost: h\r\nContent-Length: +5\r\n\r\nhello", (400,)),
                    ("cl-dup", b"POST /big HTTP/1.1\r\nContent-Length: 5\r\nContent-Length: 5\r\n\r\nhello", (400,)),
                    ("te-gzip", b"POST /big HTTP/1.1\r\nTransfer-Encoding: gzip\r\n\r\n", (501,)),
                    ("te-chunked-twice", b"POST /big HTTP/1.1\r\nTransfer-Encoding: chunked, chunked\r\n\r\n0\r\n\r\n", (501,)),
                    ("bad-target", b"GET http://[ HTTP/1.1\r\nHost: h\r\n\r\n", (400,)),
                    ("bad-target-8bit", b"GET /\xe9\xff HTTP/1.1\r\nHost: h\r\n\r\n", None),
                    ("lower-method", b"get /big HTTP/1.1\r\nHost: h\r\n\r\n", (400,)),
                    ("bare-lf", b"GET /big HTTP/1.1\r\nHost: h\nX: y\r\n\r\n", (400,)),
                    ("bad-name", b"GET /big HTTP/1.1\r\nX Y: 1\r\n\r\n", (400,)),
                    ("no-crlf-head", b"\r\n\r\n \r\n\r\n", None),
                    ("fold-first", b"GET /big HTTP/1.1\r\n X: 1\r\n\r\n", (400,)),
                    ("chunk-bad-size", b"POST /big HTTP/1.1\r\nTransfer-Encoding: chunked\r\n\r\nZZ\r\nhello\r\n0\r\n\r\n", (400, 413)),
                    ("chunk-bad-ext", b"POST /big HTTP/1.1\r\nTransfer-Encoding: chunked\r\n\r\n5;=\r\nhello\r\n0\r\n\r\n", (400, 413)),
                    ("chunk-bad-term", b"POST /big HTTP/1.1\r\nTransfer-Encoding: chunked\r\n\r\n5\r\nhelloXX0\r\n\r\n", (400, 413)),
                ):
                    if codes is None:
                        continue
                    if name.startswith("chunk-") and mb < 1000:
                        codes = (400, 413)
                    yield finish(name, mh, mb, prefix_n, head, ("refuse", codes), None,
                                 recv=rng.choice([1, 7, 4096, 10 ** 9]) if len(head) < 3000 else rng.choice([1000, 8192, 10 ** 9]))
        # an expecting request refused at the end of its head (F6, repaired by fix e3537e2)
        for mb in (10, 1000):
            for name, head in (
                ("expect-cl-over", b"POST /big HTTP/1.1\r\nHost: h\r\nExpect: 100-continue\r\nContent-Length: %d\r\n\r\n" % (mb + 1)),
                ("expect-cl-invalid", b"POST /big HTTP/1.1\r\nHost: h\r\nExpect: 100-continue\r\nContent-Length: abc\r\n\r\n"),
            ):
                c = finish(name, 400, mb, 0, head, ("refuse", (413,) if "over" in name else (400,)), len(head),
                           tail=b"z" * 500, recv=rng.choice([1, 64, 10 ** 9]), tags={"expect_at_head": True})
                yield c
                # ... and the same request pipelined behind delivered ones, whole and
                # cut: parsed while requests are queued, the interim response is
                # withheld and the request keeps its expect flag up to the refusal
                for prefix_n in (1, 2):
                    if mb < 100:
                        continue
                    for recv in (10 ** 9, 4096, 64, rng.choice([1, 7])):
                        yield finish(name + "-pipelined", 400, mb, prefix_n, head,
                                     ("refuse", (413,) if "over" in name else (400,)), len(head),
                                     tail=b"GET /smuggled HTTP/1.1\r\nHost: h\r\n\r\n" + b"z" * 100, recv=recv,
                                     tags={"expect_at_head": True})


def gen_generic(rng, n):
    """mutation / grammar streams with small random limits: only the generic
    clauses (P1, P5, wire well-formed, an error response is last and closes)"""
    from harness import gen_http
    for i in range(n):
        s, tags = gen_http.gen_stream(rng, "mutation" if i % 3 else "grammar")
        for mh, mb in gen_http.limits_for(rng, s):
            recv = rng.choice([1, 2, 5, 17, 64, 10 ** 9])
            yield {"kind": "generic", "mh": mh, "mb": mb, "reads": split_by(s, recv), "recv": recv, "tags": tags}


def judge_generic(case, res):
    bad = []
    if res["raised"]:
        bad.append(("P1", "exception left the connection code: " + res["raised"]))
    if res["bound_violation"]:
        bad.append(("P5", res["bound_violation"]))
    resp, prob = parse_wire(res["wire"])
    if prob:
        bad.append(("P3", "wire not a sequence of well-formed responses: " + prob))
        return bad
    finals = [r for r in resp if r["code"] >= 200]
    errors = [r for r in finals if r["code"] >= 400]
    if len(errors) > 1:
        bad.append(("P3", "%d error responses on one connection" % len(errors)))
    if errors:
        e = errors[0]
        if finals[-1] is not e:
            bad.append(("P3", "a response follows the error response"))
        if e["code"] not in ERROR_CODES:
            bad.append(("P3", "error status %d" % e["code"]))
        if (b"connection", b"close") not in e["headers"]:
            bad.append(("P3", "error response does not announce Connection: close"))
        if not res["closed"]:
            bad.append(("P3", "channel still open after the error response"))
    if len(res["calls"]) != len(finals) - len(errors):
        bad.append(("P2", "%d application calls, %d non-error responses" % (len(res["calls"]), len(finals) - len(errors))))
    return bad
