"""K-chanfault: the tie between coq/Model/ChanFault.v (property C13) and the code.

Two worlds drive REAL waitress classes; nothing under /repo is modified, module
globals (threading, time, select) are replaced for the duration of a case.

FaultWorld (extends harness/chan_world.World; deterministic scheduler)
    1 or 2 real HTTPChannel objects (fds 7 and 8 = the model's channels A and
    B) in one socket map with a trigger stand-in, the real ThreadedTaskDispatcher
    and the real wasyncore.poll / poll2 loop.  Every socket call (recv, send,
    close, getsockopt(SO_ERROR)) of a channel, every operation on its two locks,
    every select and every pull_trigger is a scheduling point.  The environment
    is scripted per channel: client steps, a send plan, recv faults, an
    exceptional-condition plan, HUP.  The fake select refuses a closed
    descriptor with EBADF at call time like the kernel does (poll reports
    POLLNVAL instead).
    Logical threads:  io | waitress-N (the pool) | client7 | client8
    Notes (semantic events, (thread, kind, detail)):
      hclose fd | bufs_closed (fd, len left) | map_del fd | act_del fd | close fd
      | wire (fd, n) | send_continue fd | service_start fd | service_end fd
      | write_soon (fd, n) | task_done (fd, close_on_finish) | task_exc (fd, wrote_header)
      | app_raise fd | parsed (fd, expect, completed, empty) | rx_begin fd | rx_end fd
      | recv_ans / send_ans / soerr_ans (fd, answer token) | selected (r, w, e, h)
      | add_task_begin fd | add_task_end fd | io_loop_died repr | worker_died name

ListenerWorld (single-threaded)
    the real TcpWSGIServer with its real trigger over a fake listening socket;
    accept / setsockopt / getsockopt(SO_SNDBUF) / setblocking of every accepted
    connection and its later recv/send answer from a script.

tokens(world) turns a finished run into the token list of ocaml/chanfault/driver.ml
(one token per scheduling block, with the environment's answers observed in that
block), expected(world) into the labels and the abstract state the model must
show after each token; conform() runs the extracted model and compares.
"""
import ast
import errno
import hashlib
import logging
import os
import socket as _socket

from harness.sched import Scheduler, Op, ThreadKilled, explore
from harness.fake_threading import FakeThreading, FakeTime, patched
from harness.chan_world import World, FakeTrigger, TRIG_FD, simple_app

logging.disable(logging.CRITICAL)

FDS = {7: "A", 8: "B"}
CHAN_FDS = (7, 8)
ERRNO_TOK = {
    errno.ECONNRESET: "econnreset", errno.EPIPE: "epipe", errno.ENOTCONN: "enotconn", errno.EBADF: "ebadf",
    errno.EINVAL: "einval", errno.EWOULDBLOCK: "ewouldblock", errno.ECONNABORTED: "econnaborted",
}
FAULT_ERRNOS = [errno.ECONNRESET, errno.EPIPE, errno.ENOTCONN, errno.EBADF, errno.EINVAL, errno.EIO]
# every errno the platform knows: the sweep of the fault search (one run per errno per kind of call), so that an errno
# that changes class in the source (a "disconnect" that was an error, or the reverse) yields a concrete disagreement
ALL_ERRNOS = sorted(errno.errorcode)
# The model's errno type has one constructor per errno the code names plus EOTHER.  Which class an errno belongs to is
# FIXED HERE, from the model (Model/ChanFault.v [disconnected], [accept_benign]) -- never read from the source:
# ESHUTDOWN is a member of wasyncore._DISCONNECTED without a constructor of its own, it travels as EPIPE (same class,
# same behaviour at every call site); everything else that is not named is EOTHER.
MODEL_DISCONNECTED = {errno.ECONNRESET, errno.EPIPE, errno.ENOTCONN, errno.EBADF, errno.ECONNABORTED, errno.ESHUTDOWN}


def errtok(e):
    if e == errno.ESHUTDOWN:
        return "epipe"
    return ERRNO_TOK.get(e, "eother")


def fdl(fd):
    if fd in ("T", "L"):
        return fd
    return {TRIG_FD: "T", 100: "L"}.get(fd) or FDS[fd]


def fds_tok(l):
    return "".join(fdl(f) for f in l) or "-"


# ---------------------------------------------------------------------------------
# the scheduler world


class FSock:
    """The accepted socket of one channel.
    send_plan : list, one entry per send(): int n | None (all) | ("err", errno)
    recv_faults: {k: errno} the k-th recv() (0-based) raises instead of delivering
    soerr_plan : list, one entry per getsockopt(SO_ERROR): 0 | int errno value | ("err", errno)"""

    def __init__(self, world, fd, send_plan=(), recv_faults=None, soerr_plan=(), sndbuf=1 << 16):
        self.w = world
        self.fd = fd
        self.rx = []
        self.client_gone = False
        self.client_reading = True
        self.oob = False
        self.hup = False
        self.send_plan = list(send_plan)
        self.recv_faults = dict(recv_faults or {})
        self.soerr_plan = list(soerr_plan)
        self.nrecv = 0
        self.nsend = 0
        self.closed = False
        self.nclose = 0
        self.sndbuf = sndbuf
        self.wire = b""
        self.calls = []     # (op, thread) for the monitor

    def _me(self):
        me = self.w.sched.me()
        return me.name if me else "-"

    def fileno(self):
        return self.fd

    def setblocking(self, flag):
        pass

    def setsockopt(self, *a):
        pass

    def getpeername(self):
        return ("127.0.0.1", 40000 + self.fd)

    def getsockopt(self, level, opt, buflen=None):
        if opt == _socket.SO_SNDBUF:
            return self.sndbuf
        if opt == _socket.SO_ERROR:
            w = self.w
            w.sched.yield_(Op("sock_soerr", self.fd))
            self.calls.append(("soerr", self._me()))
            if self.closed:
                w.sched.note("soerr_ans", (self.fd, "kernel-ebadf"))
                raise OSError(errno.EBADF, "closed")
            plan = self.soerr_plan.pop(0) if self.soerr_plan else 0
            if isinstance(plan, tuple):
                w.sched.note("soerr_ans", (self.fd, "ex:" + errtok(plan[1])))
                raise OSError(plan[1], "injected")
            w.sched.note("soerr_ans", (self.fd, "en" if plan else "ez"))
            return plan
        return 0

    def recv(self, n):
        w = self.w
        w.sched.yield_(Op("sock_recv", self.fd))
        self.calls.append(("recv", self._me()))
        if self.closed:
            w.sched.note("recv_ans", (self.fd, "kernel-ebadf"))
            raise OSError(errno.EBADF, "closed")
        k = self.nrecv
        self.nrecv += 1
        if k in self.recv_faults:
            e = self.recv_faults[k]
            w.sched.note("recv_ans", (self.fd, "rx:" + errtok(e)))
            raise OSError(e, "injected")
        if self.rx:
            data = self.rx[0][:n]
            rest = self.rx[0][n:]
            if rest:
                self.rx[0] = rest
            else:
                self.rx.pop(0)
            w.sched.note("recv_ans", (self.fd, "rd"))
            return data
        if self.client_gone:
            w.sched.note("recv_ans", (self.fd, "re"))
            return b""
        w.sched.note("recv_ans", (self.fd, "rx:ewouldblock"))
        raise OSError(errno.EWOULDBLOCK, "would block")

    def send(self, data):
        w = self.w
        w.sched.yield_(Op("sock_send", (self.fd, len(data))))
        self.calls.append(("send", self._me()))
        self.nsend += 1
        if self.closed:
            w.sched.note("send_ans", (self.fd, "kernel-ebadf"))
            raise OSError(errno.EBADF, "closed")
        plan = self.send_plan.pop(0) if self.send_plan else None
        if isinstance(plan, tuple):
            w.sched.note("send_ans", (self.fd, "sx:" + errtok(plan[1])))
            raise OSError(plan[1], "injected")
        if self.client_gone:
            w.sched.note("send_ans", (self.fd, "sx:epipe"))
            raise OSError(errno.EPIPE, "gone")
        n = len(data) if plan is None else min(plan, len(data))
        if not self.client_reading or n == 0:
            w.sched.note("send_ans", (self.fd, "sx:ewouldblock"))
            raise OSError(errno.EWOULDBLOCK, "would block")
        chunk = bytes(data[:n])
        self.wire += chunk
        w.sched.note("send_ans", (self.fd, "sk:%d" % n))
        w.sched.note("wire", (self.fd, n))
        return n

    def close(self):
        self.w.sched.yield_(Op("sock_close", self.fd))
        self.calls.append(("close", self._me()))
        self.closed = True
        self.nclose += 1
        self.w.sched.note("close", self.fd)

    def read_ready(self):
        return bool(self.rx) or self.client_gone or bool(self.recv_faults.get(self.nrecv))

    def write_ready(self):
        return self.client_reading or self.client_gone


class FSelect:
    """select.select / select.poll over the world's descriptors.  Two scheduling
    points per call: "select_call" (always enabled; select refuses a closed
    descriptor with EBADF here) and "select" (enabled when something is ready)."""
    POLLIN, POLLPRI, POLLOUT, POLLERR, POLLHUP, POLLNVAL = 1, 2, 4, 8, 16, 32
    error = OSError

    def __init__(self, world):
        self.w = world

    def _ready(self, r, w_, e):
        W = self.w
        rr, ww, ee = [], [], []
        for fd in r:
            if fd == TRIG_FD:
                if W.trigger.pulled:
                    rr.append(fd)
            elif fd in W.socks and not W.socks[fd].closed and W.socks[fd].read_ready():
                rr.append(fd)
        for fd in w_:
            if fd in W.socks and not W.socks[fd].closed and W.socks[fd].write_ready():
                ww.append(fd)
        for fd in e:
            if fd in W.socks and not W.socks[fd].closed and W.socks[fd].oob:
                ee.append(fd)
        return rr, ww, ee

    def select(self, r, w_, e, timeout=None):
        W = self.w
        W.sched.note("select_asked", (list(r), list(w_), list(e)))
        W.sched.yield_(Op("select_call", None))
        for fd in list(r) + list(w_) + list(e):
            if fd in W.socks and W.socks[fd].closed:
                W.sched.note("select_ebadf", fd)
                raise OSError(errno.EBADF, "Bad file descriptor")
        W.sched.yield_(Op("select", None, enabled=lambda: any(self._ready(r, w_, e)) or W.stopping))
        if W.stopping:
            raise ThreadKilled()
        rr, ww, ee = self._ready(r, w_, e)
        for fd in ee:
            W.socks[fd].oob = False
        W.sched.note("selected", ("sel", rr, ww, ee))
        return rr, ww, ee

    def poll(self):
        outer = self
        W = self.w

        class _P:
            def __init__(self):
                self.reg = {}

            def register(self, fd, flags):
                self.reg[fd] = flags

            def _state(self):
                r = [fd for fd, f in self.reg.items() if f & outer.POLLIN]
                w_ = [fd for fd, f in self.reg.items() if f & outer.POLLOUT]
                rr, ww, ee = outer._ready(r, w_, r)
                hh = [fd for fd in self.reg if fd in W.socks and (W.socks[fd].hup or W.socks[fd].closed)]
                return r, w_, rr, ww, ee, hh

            def poll(self, timeout=None):
                r, w_, _, _, _, _ = self._state()
                W.sched.note("select_asked", (r, w_, r + w_))
                W.sched.yield_(Op("select_call", None))
                W.sched.yield_(Op("select", None, enabled=lambda: any(self._state()[2:]) or W.stopping))
                if W.stopping:
                    raise ThreadKilled()
                _, _, rr, ww, ee, hh = self._state()
                for fd in ee:
                    W.socks[fd].oob = False
                out = {}
                for fd in rr:
                    out[fd] = out.get(fd, 0) | outer.POLLIN
                for fd in ww:
                    out[fd] = out.get(fd, 0) | outer.POLLOUT
                for fd in ee:
                    out[fd] = out.get(fd, 0) | outer.POLLPRI
                for fd in hh:
                    out[fd] = out.get(fd, 0) | (outer.POLLNVAL if W.socks[fd].closed else outer.POLLHUP)
                res = [(fd, out[fd]) for fd in self.reg if fd in out]
                W.sched.note("selected", ("p2", [(fd, fd in rr, fd in ww, fd in ee, fd in hh) for fd, _ in res]))
                return res
        return _P()


class FServer:
    def __init__(self, world, adj, dispatcher):
        self.w = world
        self.adj = adj
        self.active_channels = {}
        self.task_dispatcher = dispatcher
        self.effective_port = 8080
        self.effective_host = "127.0.0.1"
        self.server_name = "localhost"
        self.application = world._app
        self.trigger = world.trigger

    def add_task(self, task):
        fd = self.w.fd_of(task)
        self.w.sched.note("add_task_begin", fd)
        self.task_dispatcher.add_task(task)
        self.w.sched.note("add_task_end", fd)

    def pull_trigger(self):
        self.w.sched.yield_(Op("pull_trigger", None))
        self.w.trigger.pulled = True


class FaultWorld(World):
    """scripts: {fd: client script}; per-fd plans in dicts keyed by fd."""

    def __init__(self, app, scripts, schedule=(), policy=None, adj_kw=None, n_workers=1,
                 send_plans=None, recv_faults=None, soerr_plans=None, use_poll=False, max_steps=20000,
                 sndbuf=1 << 16):
        World.__init__(self, app, [], schedule=schedule, policy=policy, adj_kw=adj_kw, n_workers=n_workers,
                       use_poll=use_poll, max_steps=max_steps, sndbuf=sndbuf)
        self.scripts = {int(fd): list(s) for fd, s in scripts.items()}
        send_plans = send_plans or {}
        recv_faults = recv_faults or {}
        soerr_plans = soerr_plans or {}
        self.socks = {fd: FSock(self, fd, send_plans.get(fd, ()), recv_faults.get(fd), soerr_plans.get(fd, ()), sndbuf)
                      for fd in sorted(self.scripts)}
        self.channels = {}
        self.snaps = []          # abstract state before every scheduled operation
        self.sched.observer = self._observe
        self.app_raises = set()  # PATH_INFO values for which the application raises

    # -- instrumentation ---------------------------------------------------------
    def fd_of(self, ch):
        for fd, c in self.channels.items():
            if c is ch:
                return fd
        return None

    def _app(self, environ, start_response):
        path = environ.get("PATH_INFO")
        self.sched.note("app_call", path)
        if path in self.app_raises:
            self.sched.note("app_raise", self._cur_service.get(self.sched.me().name))
            raise RuntimeError("application failure")
        return self.app_fn(environ, start_response)

    def _make_channel_class(self):
        from waitress.channel import HTTPChannel, ClientDisconnected
        from waitress.task import WSGITask, ErrorTask
        from waitress.parser import HTTPRequestParser
        world = self
        note = world.sched.note
        self._cur_service = {}

        def tname():
            me = world.sched.me()
            return me.name if me else "-"

        class TParser(HTTPRequestParser):
            def received(self, data):
                n = HTTPRequestParser.received(self, data)
                note("parsed", (world._rx_fd, bool(self.expect_continue and self.headers_finished),
                                bool(self.completed), bool(self.empty)))
                return n

        def task_service(cls):
            def service(self):
                fd = world.fd_of(self.channel)
                try:
                    cls.service(self)
                except ClientDisconnected:
                    raise
                except Exception:
                    note("task_exc", (fd, bool(self.wrote_header)))
                    raise
                note("task_done", (fd, bool(self.close_on_finish)))
            return service

        class TTask(WSGITask):
            pass
        TTask.service = task_service(WSGITask)

        class TErrorTask(ErrorTask):
            pass
        TErrorTask.service = task_service(ErrorTask)

        class TChannel(HTTPChannel):
            task_class = TTask
            error_task_class = TErrorTask
            parser_class = TParser
            _in_hclose = ()
            _bufs_closed = False

            def service(self):
                fd = world.fd_of(self)
                world._cur_service[tname()] = fd
                note("service_start", fd)
                try:
                    return HTTPChannel.service(self)
                finally:
                    note("service_end", fd)
                    world._cur_service.pop(tname(), None)

            def received(self, data):
                world._rx_fd = world.fd_of(self)
                note("rx_begin", world._rx_fd)
                try:
                    return HTTPChannel.received(self, data)
                finally:
                    note("rx_end", world._rx_fd)

            def send_continue(self, *a, **kw):
                note("send_continue", world.fd_of(self))
                return HTTPChannel.send_continue(self, *a, **kw)

            def write_soon(self, data):
                if data:
                    note("write_soon", (world.fd_of(self), len(data)))
                return HTTPChannel.write_soon(self, data)

            def handle_close(self):
                note("hclose", world.fd_of(self))
                me = tname()
                object.__setattr__(self, "_in_hclose", self._in_hclose + (me,))
                try:
                    return HTTPChannel.handle_close(self)
                finally:
                    l = list(self._in_hclose)
                    l.remove(me)
                    object.__setattr__(self, "_in_hclose", tuple(l))

            def del_channel(self, map=None):
                fd = self._fileno
                m = self._map if map is None else map
                in_map = fd in m
                in_act = fd in self.server.active_channels
                r = HTTPChannel.del_channel(self, map)
                myfd = world.fd_of(self)
                if in_map and fd not in m:
                    note("map_del", myfd)
                if in_act and fd not in self.server.active_channels:
                    note("act_del", myfd)
                return r

            def __setattr__(self, name, value):
                prev = self.total_outbufs_len if name == "total_outbufs_len" else None
                object.__setattr__(self, name, value)
                if name == "total_outbufs_len" and value > prev and self._bufs_closed:
                    note("append_after_close", world.fd_of(self))
                if name == "total_outbufs_len" and value == 0 and self._in_hclose and tname() in self._in_hclose:
                    object.__setattr__(self, "_bufs_closed", True)
                    left = sum(b.__len__() for b in self.outbufs)
                    note("bufs_closed", (world.fd_of(self), left))

        return TChannel

    def _chan_state(self, fd):
        ch = self.channels.get(fd)
        if ch is None:
            return None
        g = lambda n: object.__getattribute__(ch, n)
        sk = self.socks[fd]
        ol = ch.outbuf_lock.lock
        rl = ch.requests_lock
        req = g("request")
        return {
            "in_map": self.map.get(fd) is ch,
            "in_act": self.server.active_channels.get(fd) is ch,
            "fileno": g("_fileno") is not None,
            "sock": "n" if g("socket") is None else ("c" if sk.closed else "o"),
            "conn": bool(g("connected")), "wc": bool(g("will_close")), "cwf": bool(g("close_when_flushed")),
            "bufc": bool(g("_bufs_closed")),
            "pend": g("total_outbufs_len"),
            "buf": sum(b.__len__() for b in g("outbufs")),
            "nreq": len(g("requests")),
            "pexp": bool(req is not None and req.expect_continue and req.headers_finished),
            "sentc": bool(g("sent_continue")),
            "olock": None if ol.owner is None else (ol.owner.name, ol.count),
            "rlock": None if rl.owner is None else rl.owner.name,
            "nclose": sk.nclose, "wire": len(sk.wire),
        }

    def _observe(self, sched, lthread, op):
        if not self.tracing:
            self.snaps.append(None)
            return None
        self.snaps.append({fd: self._chan_state(fd) for fd in self.socks})
        return None

    # -- threads -------------------------------------------------------------------
    def _client_main_for(self, fd):
        def main():
            sk = self.socks[fd]
            for step in self.scripts[fd]:
                kind = step[0]
                if kind == "send":
                    self.sched.yield_(Op("client:send", (fd, len(step[1]))))
                    sk.rx.append(bytes(step[1]))
                elif kind == "close":
                    self.sched.yield_(Op("client:close", fd))
                    sk.client_gone = True
                elif kind == "stall":
                    self.sched.yield_(Op("client:stall", fd))
                    sk.client_reading = False
                elif kind == "resume":
                    self.sched.yield_(Op("client:resume", fd))
                    sk.client_reading = True
                elif kind == "oob":
                    self.sched.yield_(Op("client:oob", fd))
                    sk.oob = True
                elif kind == "hup":
                    self.sched.yield_(Op("client:hup", fd))
                    sk.hup = True
                elif kind == "wait_wire":
                    n = step[1]
                    self.sched.yield_(Op("client:wait_wire", (fd, n), enabled=lambda n=n: len(sk.wire) >= n or sk.closed))
                else:  # pragma: no cover
                    raise ValueError(step)
        return main

    def _io_main(self):
        import waitress.wasyncore as wasyncore
        fn = wasyncore.poll2 if self.use_poll else wasyncore.poll
        try:
            while self.map and not self.stopping:
                fn(None, self.map)
            self.sched.note("io_loop_exit", None)
        except ThreadKilled:
            raise
        except BaseException as e:
            self.io_error = e
            self.sched.note("io_loop_died", repr(e))

    def run(self):
        import waitress.channel as wchannel
        import waitress.task as wtask
        import waitress.wasyncore as wasyncore
        from waitress.adjustments import Adjustments
        fsel = FSelect(self)
        with patched(wchannel, threading=self.ft, time=self.ftime), \
                patched(wtask, threading=self.ft, time=self.ftime), \
                patched(wasyncore, select=fsel, time=self.ftime):
            adj = Adjustments(**self.adj_kw)
            self.adj = adj
            dispatcher = wtask.ThreadedTaskDispatcher()
            self.dispatcher = dispatcher
            self.server = FServer(self, adj, dispatcher)
            self.map[TRIG_FD] = self.trigger
            cls = self._make_channel_class()
            verdict = None
            try:
                def boot():
                    dispatcher.set_thread_count(self.n_workers)
                    for fd in sorted(self.socks):
                        self.channels[fd] = cls(self.server, self.socks[fd], ("127.0.0.1", 40000 + fd), adj, map=self.map)
                    self.lock_names = {}
                    for fd, ch in self.channels.items():
                        self.lock_names[ch.outbuf_lock.lock.name] = ("O", fd)
                        self.lock_names[ch.outbuf_lock.name] = ("O", fd)
                        self.lock_names[ch.requests_lock.name] = ("R", fd)
                    self.tracing = True
                    self.sched.spawn("io", self._io_main)
                    for fd in sorted(self.socks):
                        self.sched.spawn("client%d" % fd, self._client_main_for(fd))
                self.sched.spawn("boot", boot)
                verdict = self.sched.run()
                self.blocked_at_end = self.sched.blocked()
                self.final_snap = {fd: self._chan_state(fd) for fd in self.socks}
                self.final = {
                    "blocked": self.blocked_at_end,
                    "trigger_in_map": self.map.get(TRIG_FD) is self.trigger,
                    "map": sorted(self.map),
                    "active": sorted(self.server.active_channels),
                    "queue": len(dispatcher.queue),
                    "workers_alive": sorted(t.name for t in self.sched.threads
                                            if t.name.startswith("waitress") and not t.done),
                    "workers_dead": sorted(t.name for t in self.sched.threads
                                           if t.name.startswith("waitress") and t.done),
                }
            finally:
                self.tracing = False
                self.stopping = True
                self.sched.kill()
        self.verdict = verdict
        return verdict


# ---------------------------------------------------------------------------------
# from a finished run to model tokens and expectations


class TieError(Exception):
    pass


def _blocks(world):
    """[(index into world.snaps, thread, kind, detail, notes of the block)]"""
    ev = world.sched.events
    ops = sorted(world.sched.snaps)     # indices of the scheduled operations in ev
    out = []
    for k, i in enumerate(ops):
        j = ops[k + 1] if k + 1 < len(ops) else len(ev)
        t, kind, detail = ev[i]
        out.append((k, t, kind, detail, ev[i + 1:j]))
    return out


MODEL_NOTES = {"append_after_close", "hclose", "bufs_closed", "map_del", "act_del", "close", "wire", "send_continue", "write_soon",
               "task_done", "task_exc", "app_raise", "parsed", "recv_ans", "send_ans", "soerr_ans", "selected",
               "io_loop_died", "select_ebadf"}


UNCONSTRUCTED = set()   # fds accepted whose channel was never constructed (listener world, per run)


def notes_to_model(notes, tid, items):
    """the environment's answers and the model labels carried by the notes of one block, in order"""
    answers, labels = [], []
    for (_, nk, nd) in notes:
        if nk == "recv_ans":
            a = nd[1]
            if a == "rd":
                a = "rd:" + "".join(items())
            if a != "kernel-ebadf":
                answers.append(a)
        elif nk in ("send_ans", "soerr_ans"):
            if nd[1] != "kernel-ebadf":
                answers.append(nd[1])
        elif nk == "selected":
            if nd[0] == "sel":
                answers.append("sel:%s/%s/%s" % tuple(fds_tok(x) for x in nd[1:]))
            else:
                answers.append("p2:" + ".".join(
                    fdl(fd) + ("i" if i else "") + ("o" if o else "") + ("p" if p_ else "") + ("h" if h else "")
                    for fd, i, o, p_, h in nd[1]))
        elif nk == "accept_ans":
            answers.append(nd)
            if nd.startswith("ac:"):
                labels.append("acc:" + nd[3:])
        elif nk == "setup_ans":
            answers.append(nd[2])
            if nd[2] != "c0" and nd[1] in ("getsockopt", "setblocking"):
                labels.append("sfault:" + FDS[nd[0]])
        elif nk == "chan_added":
            labels.append("add:" + FDS[nd])
        elif nk == "trigger_closed":
            labels += (["mapdel:%s:T" % tid] if nd else []) + ["tclosed"]
        elif nk == "listener_closed":
            labels += (["mapdel:%s:L" % tid] if nd[0] else []) + (["lclosed"] if nd[1] else [])
        elif nk == "bufs_closed":
            answers.append("bl:%d" % nd[1])
            labels.append("bufs:%s:%s" % (tid, FDS[nd[0]]))
        elif nk == "append_after_close":
            answers.append("k1")
        elif nk == "write_soon":
            answers.append("aw:%d" % nd[1])
        elif nk == "task_done":
            answers.append("ad:%d" % int(nd[1]))
        elif nk == "app_raise":
            answers.append("ar")
        elif nk == "task_exc":
            answers.append("k1" if nd[1] else "k0")
        elif nk == "hclose":
            labels.append("hclose:%s:%s" % (tid, FDS[nd]))
        elif nk == "map_del":
            labels.append("mapdel:%s:%s" % (tid, FDS[nd]))
        elif nk == "act_del":
            labels.append("actdel:%s:%s" % (tid, FDS[nd]))
        elif nk == "close":
            if nd not in UNCONSTRUCTED:
                labels.append("close:%s:%s" % (tid, FDS[nd]))
        elif nk == "wire":
            labels.append("wire:%s:%d" % (FDS[nd[0]], nd[1]))
        elif nk == "send_continue" and tid != "io":
            labels.append("wcont:%s" % FDS[nd])
        elif nk == "io_loop_died":
            labels.append("died")
        elif nk == "io_loop_exit":
            labels.append("exit")
    return answers, labels


def tokens(world):
    """-> (tokens, expectations): expectations[i] = (labels, snapshot after the block)"""
    blocks = _blocks(world)
    UNCONSTRUCTED.clear()
    serving = {}          # pool thread -> fd
    in_add = {}           # thread -> fd while inside server.add_task
    toks, exps = [], []
    nsn = len(world.snaps)

    def tid_of(t):
        if t == "io":
            return "io"
        if t in serving:
            return "w" + FDS[serving[t]]
        return None

    # items of a received(): the "parsed" notes of the I/O thread up to rx_end
    def items_from(bi):
        its = []
        for (_, t, _, _, notes) in blocks[bi:]:
            if t != "io":
                continue
            for (_, nk, nd) in notes:
                if nk == "parsed":
                    its.append("%d%d%d" % (int(nd[1]), int(nd[2]), int(nd[3])))
                if nk == "rx_end":
                    return its
        return its

    for bi, (k, t, kind, detail, notes) in enumerate(blocks):
        # bookkeeping that precedes the classification of this block
        took = None
        for (_, nk, nd) in notes:
            if nk == "service_start":
                took = nd
        mk = None          # model kind of the scheduling point
        chan = None
        if t.startswith("client") or t == "boot" or kind in ("thread_start",):
            mk = None
        elif kind == "begin":
            mk = "poll" if t == "io" else None
        elif kind in ("acquire", "release", "try_acquire", "wait", "wake", "notify", "notify_all", "reacquire"):
            name = detail[0] if isinstance(detail, (list, tuple)) else detail
            which = world.lock_names.get(name)
            if which is None:
                # the dispatcher's lock: add_task is one model step (its last operation), a worker
                # taking a channel is one model step (the release before service())
                if kind == "release" and t in in_add:
                    mk = "addtask"
                elif kind == "release" and took is not None:
                    serving[t] = took
                    mk = "take"
                else:
                    mk = None
            else:
                lk, fd = which
                chan = fd
                if lk == "O":
                    mk = {"acquire": "acqO", "release": "relO", "try_acquire": "tryO", "wait": "wait",
                          "wake": "wake", "notify": "notify"}.get(kind)
                else:
                    mk = {"acquire": "acqR", "release": "relR"}.get(kind)
                if mk is None:
                    raise TieError("unexpected lock operation %s on %s" % (kind, name))
        elif kind == "select_call":
            mk = "select"
        elif kind == "select":
            mk = "selwait"
        elif kind == "sock_recv":
            mk = "recv"
        elif kind == "sock_send":
            mk = "send"
        elif kind == "sock_close":
            mk = "sclose"
        elif kind == "sock_soerr":
            mk = "soerr"
        elif kind == "pull_trigger":
            mk = "pull"
        else:
            raise TieError("unknown scheduled operation %r" % (kind,))
        # track add_task brackets and service ends (after classification: the release inside add_task
        # is the last dispatcher operation before add_task_end)
        for (_, nk, nd) in notes:
            if nk == "add_task_begin":
                in_add[t] = nd
            elif nk == "add_task_end":
                in_add.pop(t, None)
        if kind == "release" and mk == "addtask":
            pass
        tid = tid_of(t)
        if mk is None or tid is None:
            bad = [n for n in notes if n[1] in MODEL_NOTES]
            if bad and not (t.startswith("client") or t == "boot"):
                raise TieError("block of %s after %s (not modelled) contains modelled events %r" % (t, kind, bad[:3]))
            for (_, nk, nd) in notes:
                if nk == "service_end":
                    serving.pop(t, None)
            continue
        # answers and labels of the block, in order
        answers, labels = notes_to_model(notes, tid, lambda: items_from(bi))
        for (_, nk, nd) in notes:
            if nk == "service_end":
                serving.pop(t, None)
        toks.append("%s;%s;%s" % (tid, mk, ",".join(answers) or "-"))
        snap = world.snaps[k + 1] if k + 1 < nsn else world.final_snap
        exps.append((labels, snap, (t, kind)))
    return toks, exps


def _norm_model_labels(field):
    out = []
    for l in ([] if field == "-" else field.split(",")):
        if l.startswith("caught:"):
            continue
        if l.startswith("died:"):
            l = "died"
        out.append(l)
    return out


def _parse_digest(d):
    out = {}
    for part in d.split(" "):
        k, _, v = part.partition("=")
        out[k] = v
    res = {}
    for c in "AB":
        f = out[c].split(",")
        flags = f[0]
        res[c] = {
            "in_map": flags[2] == "1", "in_act": flags[3] == "1", "fileno": flags[4] == "1", "sock": flags[5],
            "conn": flags[6] == "1", "wc": flags[7] == "1", "cwf": flags[8] == "1", "bufc": flags[9] == "1",
            "pend": int(f[1]), "buf": int(f[2]), "nreq": int(f[3]),
            "pexp": f[4][0] == "1", "sentc": f[4][1] == "1",
            "olock": f[5], "rlock": f[6], "nclose": int(f[8]), "wire": int(f[9]),
        }
    res["dead"] = out["D"] == "1"
    return res


def _lock_tok(world_names, v, with_count):
    if v is None:
        return "-"
    name = v[0] if with_count else v
    return name


def compare(world, toks, exps, answers_line):
    """answers_line: the runner's answer for `run ... toks`.  -> None or a description of the first difference"""
    fields = answers_line.split("|")
    if len(fields) != len(toks):
        return "runner answered %d fields for %d tokens" % (len(fields), len(toks))
    serving_name = {}
    for i, (f, tok, (labels, snap, where)) in enumerate(zip(fields, toks, exps)):
        if f.startswith("X:"):
            return "token %d %s (real: %s): model refuses: %s" % (i, tok, where, f)
        lab, _, dig = f.partition(";")
        got = _norm_model_labels(lab)
        if got != labels:
            return "token %d %s (real: %s): labels model=%r real=%r" % (i, tok, where, got, labels)
        if snap is None:
            continue
        d = _parse_digest(dig)
        for fd, st in snap.items():
            if st is None:
                continue
            m = d[FDS[fd]]
            for key in ("in_map", "in_act", "fileno", "sock", "conn", "wc", "cwf", "bufc", "pend", "buf", "nreq",
                        "pexp", "sentc", "nclose", "wire"):
                if m[key] != st[key]:
                    return "token %d %s (real: %s): channel %s field %s model=%r real=%r" % (
                        i, tok, where, FDS[fd], key, m[key], st[key])
            if (m["olock"] == "-") != (st["olock"] is None):
                return "token %d %s (real: %s): channel %s outbuf_lock model=%r real=%r" % (
                    i, tok, where, FDS[fd], m["olock"], st["olock"])
            if st["olock"] is not None:
                want_io = st["olock"][0] == "io"
                if (m["olock"].startswith("io/")) != want_io or int(m["olock"].split("/")[1]) != st["olock"][1]:
                    return "token %d %s: channel %s outbuf_lock owner/depth model=%r real=%r" % (
                        i, tok, FDS[fd], m["olock"], st["olock"])
            if (m["rlock"] == "-") != (st["rlock"] is None):
                return "token %d %s (real: %s): channel %s requests_lock model=%r real=%r" % (
                    i, tok, where, FDS[fd], m["rlock"], st["rlock"])
    return None


def run_line(world, toks, nchan, wc_close=True, init_guarded=False):
    adj = world.adj
    return "run %d %d %d %d %d%d%d y %d %s" % (
        adj.channel_request_lookahead, adj.send_bytes, adj.outbuf_high_watermark, world.socks[7].sndbuf,
        1 if world.use_poll else 0, 1 if wc_close else 0, 1 if init_guarded else 0, nchan, " ".join(toks))


# ---------------------------------------------------------------------------------
# the listener world (single-threaded): real TcpWSGIServer + real trigger


class _Me:
    name = "io"


class NullSched:
    """Stands in for the scheduler where there is one thread: notes are recorded,
    scheduling points are no-ops."""

    def __init__(self):
        self.events = []
        self._me = _Me()

    def me(self):
        return self._me

    def note(self, kind, detail=None):
        self.events.append((self._me.name, kind, detail))

    def yield_(self, op):
        pass


class LSock(FSock):
    """An accepted socket whose set-up calls can fail: setup_faults maps
    "setsockopt" / "getsockopt" / "setblocking" to an errno."""

    def __init__(self, world, fd, setup_faults=None, **kw):
        FSock.__init__(self, world, fd, **kw)
        self.setup_faults = dict(setup_faults or {})

    def _setup(self, call):
        e = self.setup_faults.get(call)
        self.w.sched.note("setup_ans", (self.fd, call, "c0" if e is None else "cx:" + errtok(e)))
        if e is not None:
            raise OSError(e, "injected " + call)

    def setblocking(self, flag):
        self._setup("setblocking")

    def setsockopt(self, *a):
        self._setup("setsockopt")

    def getsockopt(self, level, opt, buflen=None):
        if opt == _socket.SO_SNDBUF:
            self._setup("getsockopt")
            return self.sndbuf
        return FSock.getsockopt(self, level, opt, buflen)


# what accept() returns as the peer address, per listener family
FAMILIES = {
    "inet": lambda fd: ("127.0.0.1", 40000 + fd),
    "inet6": lambda fd: ("::1", 40000 + fd, 0, 0),
    "unix-empty": lambda fd: "",
    "unix-none": lambda fd: None,
    "unix-path": lambda fd: "/run/peer-%d.sock" % fd,
    "unix-bytes": lambda fd: b"\x00abstract-%d" % fd,
}


class ListenSock:
    def __init__(self, world, fd=100, family="inet"):
        self.w = world
        self.fd = fd
        self.backlog = []
        self.closed = False
        self.family = family

    def fileno(self):
        return self.fd

    def setblocking(self, f):
        pass

    def getsockopt(self, *a):
        return 0

    def setsockopt(self, *a):
        pass

    def bind(self, addr):
        pass

    def listen(self, n):
        pass

    def getsockname(self):
        if self.family.startswith("unix"):
            return "/run/listener.sock"
        return ("::1", 8080, 0, 0) if self.family == "inet6" else ("127.0.0.1", 8080)

    def accept(self):
        if not self.backlog:
            self.w.sched.note("accept_ans", "ax:ewouldblock")
            raise OSError(errno.EWOULDBLOCK, "would block")
        c = self.backlog.pop(0)
        if c == "typeerror":
            # socket.accept() raising TypeError: dispatcher.accept returns None -- for the model the same as EWOULDBLOCK
            self.w.sched.note("accept_ans", "ax:ewouldblock")
            raise TypeError("injected accept")
        if isinstance(c, int):
            self.w.sched.note("accept_ans", "ax:" + errtok(c))
            raise OSError(c, "injected accept")
        self.w.sched.note("accept_ans", "ac:" + FDS[c.fd])
        return c, FAMILIES[self.family](c.fd)

    def close(self):
        self.closed = True


class _Queue:
    def __init__(self):
        self.queue = []

    def add_task(self, task):
        self.queue.append(task)

    def shutdown(self, *a, **kw):
        return True

    def set_thread_count(self, n):
        pass


class ListenerWorld(FaultWorld):
    """steps: ("connect", setup_faults | None) | ("accept_err", errno) | ("send", fd, bytes) | ("close", fd)
             | ("oob", fd) | ("plan", fd, send_plan, recv_faults, soerr_plan) | ("turn",) | ("serve", fd)"""

    def __init__(self, app, steps, adj_kw=None, sndbuf=4096, family="inet", log_socket_errors=True, logging_on=False):
        """family: a key of FAMILIES (the listener is a TcpWSGIServer for inet / inet6, a UnixWSGIServer otherwise);
        logging_on: run with logging enabled and a handler on the "waitress" logger that formats every record
        (the module disables logging otherwise)"""
        self.app_fn = app
        self.steps = list(steps)
        self.sched = NullSched()
        self.adj_kw = dict(adj_kw or {})
        self.adj_kw["log_socket_errors"] = bool(log_socket_errors)
        self.family = family
        self.logging_on = bool(logging_on)
        self.log_records = 0
        self.log_format_errors = 0
        self.sndbuf = sndbuf
        self.socks = {}
        self.channels = {}
        self.map = {}
        self.app_raises = set()
        self.use_poll = False
        self.tracing = True
        self.stopping = False
        self.trigger = None
        self.io_error = None

    def _observe(self, *a):
        return None

    def _chan_state(self, fd):
        ch = self.channels.get(fd)
        if ch is None:
            return None
        g = lambda n: object.__getattribute__(ch, n)
        sk = self.socks[fd]
        try:
            req = g("request")
            g("requests"), g("will_close"), g("close_when_flushed"), g("outbufs"), g("total_outbufs_len"), g("sent_continue")
        except AttributeError as e:
            # registered (add_channel ran) although HTTPChannel.__init__ did not complete
            return {"broken": str(e), "in_map": self.map.get(fd) is ch, "in_act": self.server.active_channels.get(fd) is ch}
        return {
            "in_map": self.map.get(fd) is ch,
            "in_act": self.server.active_channels.get(fd) is ch,
            "fileno": g("_fileno") is not None,
            "sock": "n" if g("socket") is None else ("c" if sk.closed else "o"),
            "conn": bool(g("connected")), "wc": bool(g("will_close")), "cwf": bool(g("close_when_flushed")),
            "bufc": bool(g("_bufs_closed")),
            "pend": g("total_outbufs_len"),
            "buf": sum(b.__len__() for b in g("outbufs")),
            "nreq": len(g("requests")),
            "pexp": bool(req is not None and req.expect_continue and req.headers_finished),
            "sentc": bool(g("sent_continue")),
            "olock": None, "rlock": None,
            "nclose": sk.nclose, "wire": len(sk.wire),
        }

    def srv_state(self):
        srv = self.server
        return {"lst_in_map": self.map.get(100) is srv, "trg_in_map": srv.trigger in self.map.values(),
                "lst_open": not self.lsock.closed, "trg_open": not srv.trigger._closed}

    def run(self):
        """-> (tokens, expectations)"""
        import threading
        import time
        import waitress.channel as wchannel
        import waitress.server as wserver
        import waitress.wasyncore as wasyncore
        from waitress.adjustments import Adjustments
        world = self
        note = self.sched.note
        self.ft = threading
        cls = self._make_channel_class()
        self.lsock = ListenSock(self, family=self.family)
        unix = self.family.startswith("unix")
        base_server = wserver.UnixWSGIServer if unix else wserver.TcpWSGIServer

        class FormattingHandler(logging.Handler):
            def emit(self_, record):
                world.log_records += 1
                try:
                    self_.format(record)
                except Exception:       # what logging.Handler.handleError does, minus the print
                    world.log_format_errors += 1

        class TChan(cls):
            def add_channel(self, map=None):
                fd = self._fileno
                world.channels[fd] = self
                r = cls.add_channel(self, map)
                note("chan_added", fd)
                return r

        class TServer(base_server):
            channel_class = TChan

            def set_socket_options(self, conn):
                conn.setsockopt(_socket.SOL_TCP, _socket.TCP_NODELAY, 1)

            def close(self):
                trg_was = (not self.trigger._closed, self.trigger._fileno in self._map)
                lst_was = (self._map.get(100) is self, not world.lsock.closed)
                if trg_was[0]:
                    pass
                r = base_server.close(self)
                if trg_was[0]:
                    note("trigger_closed", trg_was[1])
                note("listener_closed", lst_was)
                return r

        class Sel:
            error = OSError

            def select(self_, r, w_, e, timeout=None):
                trg = world.server.trigger._fileno
                rr, ww, ee = [], [], []
                for fd in r:
                    if fd == 100:
                        if world.lsock.backlog:
                            rr.append(fd)
                    elif fd in world.socks:
                        if world.socks[fd].read_ready():
                            rr.append(fd)
                    elif fd == trg:
                        import select as _s
                        if _s.select([fd], [], [], 0)[0]:
                            rr.append(fd)
                for fd in w_:
                    if fd in world.socks and world.socks[fd].write_ready():
                        ww.append(fd)
                for fd in e:
                    if fd in world.socks and world.socks[fd].oob:
                        ee.append(fd)
                        world.socks[fd].oob = False
                nm = lambda l: [("T" if fd == trg else fd) for fd in l]
                note("selected", ("sel", nm(rr), nm(ww), nm(ee)))
                return rr, ww, ee

        adj = Adjustments(**self.adj_kw)
        self.adj = adj
        self.dispatcher = _Queue()
        toks, exps = [], []
        wlog = logging.getLogger("waitress")
        handler = FormattingHandler()
        saved_log = (logging.root.manager.disable, wlog.propagate, wlog.level)
        if self.logging_on:
            logging.disable(logging.NOTSET)
            wlog.addHandler(handler)
            wlog.propagate = False
            wlog.setLevel(logging.DEBUG)
        with patched(wasyncore, select=Sel()):
            if unix:
                self.server = TServer(self._app, map=self.map, _sock=self.lsock, dispatcher=self.dispatcher, adj=adj,
                                      bind_socket=False)
            else:
                fam = _socket.AF_INET6 if self.family == "inet6" else _socket.AF_INET
                self.server = TServer(self._app, map=self.map, _sock=self.lsock, dispatcher=self.dispatcher, adj=adj,
                                      sockinfo=(fam, _socket.SOCK_STREAM, None, self.lsock.getsockname()))
            try:
                next_fd = 7
                for step in self.steps:
                    kind = step[0]
                    if kind == "connect":
                        if next_fd > 8:
                            continue
                        sk = LSock(self, next_fd, setup_faults=step[1], sndbuf=self.sndbuf)
                        self.socks[next_fd] = sk
                        self.lsock.backlog.append(sk)
                        next_fd += 1
                    elif kind == "accept_err":
                        self.lsock.backlog.append(step[1])
                    elif kind == "send":
                        if step[1] in self.socks:
                            self.socks[step[1]].rx.append(bytes(step[2]))
                    elif kind == "close":
                        if step[1] in self.socks:
                            self.socks[step[1]].client_gone = True
                    elif kind == "oob":
                        if step[1] in self.socks:
                            self.socks[step[1]].oob = True
                    elif kind == "plan":
                        if step[1] in self.socks:
                            sk = self.socks[step[1]]
                            sk.send_plan = _plan(step[2])
                            sk.recv_faults = {int(k) + sk.nrecv: v for k, v in dict(step[3] or {}).items()}
                            sk.soerr_plan = _plan(step[4])
                    elif kind == "turn":
                        mark = len(self.sched.events)
                        if self.map:
                            try:
                                wasyncore.poll(0.0, self.map)
                            except BaseException as e:  # the loop would have died
                                self.io_error = e
                                note("io_loop_died", repr(e))
                        else:
                            # `while map:` ends the loop; the model has said so already (label exit)
                            continue
                        notes = self.sched.events[mark:]
                        its = ["%d%d%d" % (int(nd[1]), int(nd[2]), int(nd[3])) for (_, nk, nd) in notes if nk == "parsed"]
                        # several recv per turn: split the items at the rx_end marks
                        groups, cur = [], []
                        for (_, nk, nd) in notes:
                            if nk == "parsed":
                                cur.append("%d%d%d" % (int(nd[1]), int(nd[2]), int(nd[3])))
                            elif nk == "rx_end":
                                groups.append(cur)
                                cur = []
                        gi = iter(groups)
                        UNCONSTRUCTED.clear()
                        UNCONSTRUCTED.update(fd for fd in self.socks if fd not in self.channels)
                        answers, labels = notes_to_model(notes, "io", lambda: next(gi))
                        if not any(nk == "selected" for (_, nk, _) in notes) and self.io_error is None:
                            # poll(): `if [] == r == w == e: time.sleep(timeout); return` -- the model's empty select answer
                            answers.insert(0, "sel:-/-/-")
                        toks.append("io;-;%s" % (",".join(answers) or "-"))
                        exps.append((labels, {fd: self._chan_state(fd) for fd in self.socks}, ("turn", self.srv_state())))
                        if self.io_error is not None:
                            break
                    elif kind == "serve":
                        fd = step[1]
                        ch = self.channels.get(fd)
                        if ch is None or ch not in self.dispatcher.queue:
                            continue
                        self.dispatcher.queue.remove(ch)
                        mark = len(self.sched.events)
                        self.sched._me = type("M", (), {"name": "w" + FDS[fd]})()
                        try:
                            ch.service()
                        except BaseException as e:
                            note("service_exc", repr(e))
                        finally:
                            self.sched._me = _Me()
                        notes = self.sched.events[mark:]
                        answers, labels = notes_to_model(notes, "w" + FDS[fd], lambda: [])
                        toks.append("w%s;take;%s" % (FDS[fd], ",".join(answers) or "-"))
                        exps.append((labels, {f: self._chan_state(f) for f in self.socks}, ("serve", self.srv_state())))
                self.final = {"srv": self.srv_state(), "map": sorted(str(k) for k in self.map)}
            finally:
                if self.logging_on:
                    wlog.removeHandler(handler)
                    wlog.propagate, _lvl = saved_log[1], saved_log[2]
                    wlog.setLevel(_lvl)
                    logging.disable(saved_log[0])
                try:
                    self.server.trigger.close()
                except Exception:
                    pass
                for ch in list(self.channels.values()):
                    try:
                        for b in ch.outbufs:
                            b.close()
                    except Exception:
                        pass
        return toks, exps


def run_line_listener(world, toks, wc_close=True, init_guarded=False):
    adj = world.adj
    return "run %d %d %d %d 0%d%d a 0 %s" % (
        adj.channel_request_lookahead, adj.send_bytes, adj.outbuf_high_watermark, world.sndbuf,
        1 if wc_close else 0, 1 if init_guarded else 0, " ".join(toks))


def compare_listener(toks, exps, answers_line):
    fields = answers_line.split("|")
    if len(fields) != len(toks):
        return "runner answered %d fields for %d tokens" % (len(fields), len(toks))
    for i, (f, tok, (labels, snap, (what, srv))) in enumerate(zip(fields, toks, exps)):
        if f.startswith("X:"):
            return "token %d %s: model refuses: %s" % (i, tok, f)
        lab, _, dig = f.partition(";")
        got = [l for l in _norm_model_labels(lab) if l != "exit"]
        if got != labels:
            return "token %d %s: labels model=%r real=%r" % (i, tok, got, labels)
        d = _parse_digest(dig)
        parts = dict(p.partition("=")[::2] for p in dig.split(" "))
        L = parts["L"]
        msrv = {"lst_in_map": L[0] == "1", "trg_in_map": L[1] == "1", "lst_open": L[2] == "1", "trg_open": L[3] == "1"}
        if msrv != srv:
            return "token %d %s: server state model=%r real=%r" % (i, tok, msrv, srv)
        for fd, st in snap.items():
            if st is None:
                continue
            if "broken" in st:
                return "token %d %s: channel %s is registered (in_map=%s in_act=%s) although its constructor failed: %s" % (
                    i, tok, FDS[fd], st["in_map"], st["in_act"], st["broken"])
            m = d[FDS[fd]]
            for key in ("in_map", "in_act", "fileno", "sock", "conn", "wc", "cwf", "bufc", "pend", "buf", "nreq",
                        "pexp", "sentc", "nclose", "wire"):
                if m[key] != st[key]:
                    return "token %d %s: channel %s field %s model=%r real=%r" % (i, tok, FDS[fd], key, m[key], st[key])
    return None


# ---------------------------------------------------------------------------------
# shape audit: the statements of the modelled methods that the model's instructions stand for

WATCH_CALLS = {
    "handle_close", "handle_error", "handle_read", "handle_write", "handle_accept", "handle_expt", "handle_connect_event",
    "handle_read_event", "handle_write_event", "handle_expt_event", "close", "del_channel", "add_channel", "send", "recv",
    "accept", "_flush_some", "_flush_exception", "_flush_some_if_lockable", "_flush_outbufs_below_high_watermark",
    "send_continue", "pull_trigger", "add_task", "notify", "wait", "acquire", "release", "getsockopt", "setblocking",
    "setsockopt", "set_socket_options", "channel_class", "received", "service", "select", "poll", "read", "write",
    "_exception", "readwrite", "get", "items", "append", "pop", "skip", "flush", "register", "set_socket", "fix_addr",
    "sleep", "__init__", "cancel",
}
WATCH_ATTRS = {
    "connected", "will_close", "close_when_flushed", "total_outbufs_len", "requests", "request", "socket", "_fileno",
    "sent_continue", "outbufs", "accepting", "connecting", "_map", "active_channels", "current_outbuf_count",
    "expect_continue", "headers_finished", "completed", "empty", "close_on_finish", "error", "sendbuf_len",
    "_flush_some", "_flush_some_if_lockable",     # which flush function handle_write / write_soon select (not only call)
}
WATCH_NAMES = {"_DISCONNECTED", "EWOULDBLOCK", "ECONNABORTED", "EAGAIN", "EINTR", "ENOTCONN", "EBADF",
               "_reraised_exceptions", "ClientDisconnected", "OSError", "Exception", "TypeError", "map"}

SHAPE_METHODS = [
    ("wasyncore.py", None, "read"), ("wasyncore.py", None, "write"), ("wasyncore.py", None, "_exception"),
    ("wasyncore.py", None, "readwrite"), ("wasyncore.py", None, "poll"), ("wasyncore.py", None, "poll2"),
    ("wasyncore.py", None, "loop"),
    ("wasyncore.py", "dispatcher", "__init__"), ("wasyncore.py", "dispatcher", "add_channel"),
    ("wasyncore.py", "dispatcher", "del_channel"), ("wasyncore.py", "dispatcher", "set_socket"),
    ("wasyncore.py", "dispatcher", "accept"), ("wasyncore.py", "dispatcher", "send"),
    ("wasyncore.py", "dispatcher", "recv"), ("wasyncore.py", "dispatcher", "close"),
    ("wasyncore.py", "dispatcher", "handle_read_event"), ("wasyncore.py", "dispatcher", "handle_write_event"),
    ("wasyncore.py", "dispatcher", "handle_expt_event"), ("wasyncore.py", "dispatcher", "handle_error"),
    ("wasyncore.py", "dispatcher", "handle_close"),
    ("channel.py", "HTTPChannel", "__init__"), ("channel.py", "HTTPChannel", "writable"),
    ("channel.py", "HTTPChannel", "readable"), ("channel.py", "HTTPChannel", "handle_write"),
    ("channel.py", "HTTPChannel", "_flush_exception"), ("channel.py", "HTTPChannel", "handle_read"),
    ("channel.py", "HTTPChannel", "send_continue"), ("channel.py", "HTTPChannel", "received"),
    ("channel.py", "HTTPChannel", "_flush_some_if_lockable"), ("channel.py", "HTTPChannel", "_flush_some"),
    ("channel.py", "HTTPChannel", "handle_close"), ("channel.py", "HTTPChannel", "add_channel"),
    ("channel.py", "HTTPChannel", "del_channel"), ("channel.py", "HTTPChannel", "write_soon"),
    ("channel.py", "HTTPChannel", "_flush_outbufs_below_high_watermark"), ("channel.py", "HTTPChannel", "service"),
    ("server.py", "BaseWSGIServer", "handle_accept"), ("server.py", "BaseWSGIServer", "close"),
    ("server.py", "BaseWSGIServer", "run"), ("server.py", "BaseWSGIServer", "writable"),
    ("server.py", "BaseWSGIServer", "handle_read"),
    ("trigger.py", "_triggerbase", "handle_read"), ("trigger.py", "_triggerbase", "close"),
    ("trigger.py", "_triggerbase", "handle_close"),
    ("task.py", "ThreadedTaskDispatcher", "handler_thread"),
]


def _find(tree, cls, fn):
    body = tree.body
    if cls is not None:
        for n in body:
            if isinstance(n, ast.ClassDef) and n.name == cls:
                body = n.body
                break
        else:
            return None
    for n in body:
        if isinstance(n, ast.FunctionDef) and n.name == fn:
            return n
    return None


def _expr_tokens(e):
    """watched names / attributes / calls of an expression, in source order"""
    out = []

    def walk(n):
        if isinstance(n, ast.Call):
            f = n.func
            name = f.attr if isinstance(f, ast.Attribute) else (f.id if isinstance(f, ast.Name) else None)
            if isinstance(f, ast.Attribute):
                walk(f.value)
            for a in n.args:
                walk(a)
            kws = []
            for k in n.keywords:
                walk(k.value)
                if k.arg in ("do_close",):
                    kws.append("%s=%s" % (k.arg, ast.unparse(k.value)))
            if name in WATCH_CALLS:
                out.append("call:%s(%s)" % (name, ",".join(kws)))
            return
        if isinstance(n, ast.Attribute):
            walk(n.value)
            if n.attr in WATCH_ATTRS:
                out.append(("w:" if isinstance(n.ctx, (ast.Store, ast.Del)) else "r:") + n.attr)
            return
        if isinstance(n, ast.Name):
            if n.id in WATCH_NAMES or _is_local_name(n.id):
                out.append("n:" + n.id)
            return
        if isinstance(n, ast.Compare):
            walk(n.left)
            for op, c in zip(n.ops, n.comparators):
                out.append("cmp:" + type(op).__name__)
                walk(c)
            return
        if isinstance(n, ast.BoolOp):
            out.append("bool:" + type(n.op).__name__)
        if isinstance(n, ast.UnaryOp) and isinstance(n.op, ast.Not):
            out.append("not")
        if isinstance(n, ast.Constant) and isinstance(n.value, (bool, type(None), bytes)):
            out.append("const:%r" % (n.value,))
        for c in ast.iter_child_nodes(n):
            walk(c)
    walk(e)
    return out


class _StrBlind(ast.NodeTransformer):
    def visit_Constant(self, n):
        return ast.copy_location(ast.Constant("S"), n) if isinstance(n.value, str) else n


# ---- cosmetic invariance: function-LOCAL names are normalised ----------------------------------------------------------
# Everything bound inside the function (assignment targets, `for` targets, `with ... as`, `except ... as`, comprehension
# variables, walrus targets, nested def names) is renamed to _L1, _L2, ... in order of first binding occurrence (depth
# first, in field order) before the function is tokenised; parameters (callers may pass them by keyword: map=, do_close=),
# names declared global / nonlocal, attributes (self.*, channel.*, server.*) and module globals (errno constants,
# _DISCONNECTED, exception classes) are left exactly as they are.  Annotated assignments lose their annotation
# (`x: int = 0` == `x = 0`); comments, docstrings, argument / return annotations, blank lines, parenthesisation and line
# wrapping are not part of the ast / of the tokens anyway.
_LOCAL_PREFIX = "_L"


def _is_local_name(name):
    return name.startswith(_LOCAL_PREFIX) and name[len(_LOCAL_PREFIX):].isdigit()


def _bound_names(fn):
    """function-local names of fn in order of first binding occurrence"""
    params = set()
    a = fn.args
    for arg in list(a.posonlyargs) + list(a.args) + list(a.kwonlyargs) + [x for x in (a.vararg, a.kwarg) if x is not None]:
        params.add(arg.arg)
    declared = set()
    order = []

    def bind(name):
        if name not in params and name not in declared and name not in order:
            order.append(name)

    def targets(t):
        if isinstance(t, ast.Name):
            bind(t.id)
        elif isinstance(t, (ast.Tuple, ast.List)):
            for e in t.elts:
                targets(e)
        elif isinstance(t, ast.Starred):
            targets(t.value)
        # attributes / subscripts bind nothing local

    def walk(n):
        if isinstance(n, (ast.Global, ast.Nonlocal)):
            declared.update(n.names)
            for nm in n.names:
                if nm in order:
                    order.remove(nm)
            return
        if isinstance(n, (ast.Assign,)):
            for t in n.targets:
                targets(t)
        elif isinstance(n, (ast.AugAssign, ast.AnnAssign, ast.NamedExpr)):
            targets(n.target)
        elif isinstance(n, (ast.For, ast.AsyncFor, ast.comprehension)):
            targets(n.target)
        elif isinstance(n, (ast.With, ast.AsyncWith)):
            for i in n.items:
                if i.optional_vars is not None:
                    targets(i.optional_vars)
        elif isinstance(n, ast.ExceptHandler):
            if n.name:
                bind(n.name)
        elif isinstance(n, (ast.FunctionDef, ast.AsyncFunctionDef, ast.ClassDef)) and n is not fn:
            bind(n.name)
        elif isinstance(n, (ast.Import, ast.ImportFrom)):
            for al in n.names:
                bind((al.asname or al.name).split(".")[0])
        for c in ast.iter_child_nodes(n):
            walk(c)

    for st in fn.body:
        walk(st)
    return order


class _Renamer(ast.NodeTransformer):
    def __init__(self, ren):
        self.ren = ren

    def visit_Name(self, n):
        if n.id in self.ren:
            return ast.copy_location(ast.Name(self.ren[n.id], n.ctx), n)
        return n

    def visit_ExceptHandler(self, n):
        self.generic_visit(n)
        if n.name in self.ren:
            n.name = self.ren[n.name]
        return n

    def visit_FunctionDef(self, n):
        self.generic_visit(n)
        if n.name in self.ren:
            n.name = self.ren[n.name]
        n.returns = None
        for arg in list(n.args.posonlyargs) + list(n.args.args) + list(n.args.kwonlyargs) + \
                [x for x in (n.args.vararg, n.args.kwarg) if x is not None]:
            arg.annotation = None
        return n

    def visit_AnnAssign(self, n):
        self.generic_visit(n)
        if n.value is None:
            return ast.copy_location(ast.Pass(), n) if False else None     # a bare annotation is no statement at all
        return ast.copy_location(ast.Assign([n.target], n.value), n)

    def visit_alias(self, n):
        key = (n.asname or n.name).split(".")[0]
        if key in self.ren:
            n.asname = self.ren[key]
        return n


def normalise_locals(fn):
    """a copy of the FunctionDef with its local names normalised (see above)"""
    import copy
    fn = copy.deepcopy(fn)
    ren = {name: "%s%d" % (_LOCAL_PREFIX, i + 1) for i, name in enumerate(_bound_names(fn))}
    body = []
    for st in fn.body:
        r = _Renamer(ren).visit(st)
        if r is not None:
            body.append(r)
    fn.body = body or [ast.Pass()]
    ast.fix_missing_locations(fn)
    return fn


def _norm_src(node):
    """the source of an expression / simple statement with every string literal replaced by 'S'"""
    import copy
    return ast.unparse(_StrBlind().visit(copy.deepcopy(node)))


def _stmt_tokens(stmts, out, depth=0, hd=False):
    """hd: the statements are (inside) the body of an `except` handler or a `finally` of a modelled method.  There the
    watched-name abstraction is not enough: whatever is evaluated while an exception is being handled can itself raise
    and escape the ladder that was meant to contain the fault (a `"%s:%d" % addr` in a log call is enough), and the
    model has no instruction for it.  So inside handlers every statement is recorded in full ("h:" + its source, string
    literals blinded): any new operator, call, name or subscript there changes the signature."""
    for st in stmts:
        if isinstance(st, ast.Expr) and isinstance(st.value, ast.Constant) and isinstance(st.value.value, str):
            continue   # docstring
        if hd:
            if isinstance(st, (ast.If, ast.While)):
                out.append("h:" + type(st).__name__.lower() + " " + _norm_src(st.test))
            elif isinstance(st, ast.For):
                out.append("h:for " + _norm_src(st.target) + " in " + _norm_src(st.iter))
            elif isinstance(st, ast.With):
                out.append("h:with " + ",".join(_norm_src(i) for i in st.items))
            elif not isinstance(st, ast.Try):
                out.append("h:" + _norm_src(st))
        if isinstance(st, ast.With):
            items = [ast.unparse(i.context_expr) for i in st.items]
            out.append("with(%s){" % ",".join(items))
            _stmt_tokens(st.body, out, depth + 1, hd)
            out.append("}")
        elif isinstance(st, ast.Try):
            out.append("try{")
            _stmt_tokens(st.body, out, depth + 1, hd)
            for h in st.handlers:
                out.append("}except(%s){" % (ast.unparse(h.type) if h.type is not None else "*"))
                _stmt_tokens(h.body, out, depth + 1, True)
            if st.orelse:
                out.append("}else{")
                _stmt_tokens(st.orelse, out, depth + 1, hd)
            if st.finalbody:
                out.append("}finally{")
                _stmt_tokens(st.finalbody, out, depth + 1, True)
            out.append("}")
        elif isinstance(st, ast.If):
            out.append("if(%s){" % " ".join(_expr_tokens(st.test)))
            _stmt_tokens(st.body, out, depth + 1, hd)
            if st.orelse:
                out.append("}else{")
                _stmt_tokens(st.orelse, out, depth + 1, hd)
            out.append("}")
        elif isinstance(st, (ast.While, ast.For)):
            head = _expr_tokens(st.test) if isinstance(st, ast.While) else _expr_tokens(st.iter)
            out.append("%s(%s){" % ("while" if isinstance(st, ast.While) else "for", " ".join(head)))
            _stmt_tokens(st.body, out, depth + 1, hd)
            if st.orelse:
                out.append("}else{")
                _stmt_tokens(st.orelse, out, depth + 1, hd)
            out.append("}")
        elif isinstance(st, ast.Raise):
            out.append("raise(%s)" % (" ".join(_expr_tokens(st.exc)) if st.exc is not None else ""))
        elif isinstance(st, ast.Return):
            out.append("return(%s)" % (" ".join(_expr_tokens(st.value)) if st.value is not None else ""))
        elif isinstance(st, (ast.Break, ast.Continue, ast.Pass)):
            out.append(type(st).__name__.lower())
        elif isinstance(st, ast.Delete):
            out.append("del(%s)" % " ".join(t for tg in st.targets for t in _expr_tokens(tg)))
        elif isinstance(st, (ast.Assign, ast.AugAssign, ast.AnnAssign, ast.Expr)):
            toks = _expr_tokens(st)
            if toks:
                out.append(" ".join(toks))
        else:
            toks = _expr_tokens(st)
            if toks:
                out.append(type(st).__name__ + ":" + " ".join(toks))


def shape_signature(src_dir):
    """{method: token list}; plus the two module-level tables of wasyncore"""
    sig = {}
    trees = {}
    for fname, cls, fn in SHAPE_METHODS:
        if fname not in trees:
            trees[fname] = ast.parse(open(os.path.join(src_dir, "waitress", fname)).read())
        node = _find(trees[fname], cls, fn)
        key = "%s:%s.%s" % (fname, cls or "", fn)
        if node is None:
            sig[key] = ["<missing>"]
            continue
        out = []
        _stmt_tokens(normalise_locals(node).body, out)
        sig[key] = out
    for st in trees["wasyncore.py"].body:
        if isinstance(st, ast.Assign) and isinstance(st.targets[0], ast.Name) and \
                st.targets[0].id in ("_DISCONNECTED", "_reraised_exceptions"):
            names = sorted(n.id for n in ast.walk(st.value) if isinstance(n, ast.Name) and n.id not in ("frozenset",))
            sig["wasyncore.py:" + st.targets[0].id] = names
    return sig


def shape_digest(sig):
    return hashlib.sha1(repr(sorted(sig.items())).encode()).hexdigest()


def detect_init_guarded(src_dir):
    """Is `self.channel_class(...)` in BaseWSGIServer.handle_accept inside a try whose handlers catch OSError
    (the model's cfg.init_guarded)?"""
    tree = ast.parse(open(os.path.join(src_dir, "waitress", "server.py")).read())
    fn = _find(tree, "BaseWSGIServer", "handle_accept")
    if fn is None:
        raise ValueError("BaseWSGIServer.handle_accept not found")

    def is_cc(n):
        return isinstance(n, ast.Call) and isinstance(n.func, ast.Attribute) and n.func.attr == "channel_class"
    calls = [n for n in ast.walk(fn) if is_cc(n)]
    if len(calls) != 1:
        raise ValueError("expected exactly one channel_class(...) call in handle_accept")

    def catches_oserror(h):
        if h.type is None:
            return True
        names = [n.id for n in ast.walk(h.type) if isinstance(n, ast.Name)]
        return any(x in ("OSError", "Exception", "BaseException") for x in names)
    for t in ast.walk(fn):
        if isinstance(t, ast.Try) and any(is_cc(n) for st in t.body for n in ast.walk(st)):
            if any(catches_oserror(h) for h in t.handlers):
                return True
    return False


def detect_wc_close(src_dir):
    """The do_close with which HTTPChannel.service() reaches _flush_some through send_continue(), read off
    the source (the model's cfg.wc_close).  Raises ValueError when the shape is not one it understands."""
    tree = ast.parse(open(os.path.join(src_dir, "waitress", "channel.py")).read())

    def default_of(fn, name):
        args = fn.args.args
        defaults = fn.args.defaults
        off = len(args) - len(defaults)
        for i, a in enumerate(args):
            if a.arg == name:
                if i < off:
                    return "required"
                d = defaults[i - off]
                if isinstance(d, ast.Constant) and isinstance(d.value, bool):
                    return d.value
                raise ValueError("default of %s.%s is not a boolean constant" % (fn.name, name))
        return None

    def kw_of(call, name):
        for k in call.keywords:
            if k.arg == name:
                return k.value
        return None

    def calls(fn, attr):
        return [n for n in ast.walk(fn) if isinstance(n, ast.Call) and isinstance(n.func, ast.Attribute)
                and n.func.attr == attr]
    service = _find(tree, "HTTPChannel", "service")
    cont = _find(tree, "HTTPChannel", "send_continue")
    flush = _find(tree, "HTTPChannel", "_flush_some")
    fexc = _find(tree, "HTTPChannel", "_flush_exception")
    if None in (service, cont, flush, fexc):
        raise ValueError("service / send_continue / _flush_some / _flush_exception not found")
    sc = calls(service, "send_continue")
    # the flush inside send_continue: self._flush_some(...) or self._flush_exception(self._flush_some, ...)
    fc = [(c, flush) for c in calls(cont, "_flush_some")]
    for c in calls(cont, "_flush_exception"):
        if not (len(c.args) == 1 and isinstance(c.args[0], ast.Attribute) and c.args[0].attr == "_flush_some"):
            raise ValueError("_flush_exception in send_continue is not applied to self._flush_some")
        # _flush_exception hands its do_close on: `flush(do_close=do_close)`
        inner_calls = [n for n in ast.walk(fexc) if isinstance(n, ast.Call) and isinstance(n.func, ast.Name) and n.func.id == "flush"]
        if len(inner_calls) != 1 or not isinstance(kw_of(inner_calls[0], "do_close"), ast.Name):
            raise ValueError("_flush_exception does not pass do_close on to flush()")
        fc.append((c, fexc))
    if len(sc) != 1 or len(fc) != 1:
        raise ValueError("expected one send_continue() call in service and one flush call in send_continue")
    call, callee = fc[0]
    if sc[0].args or (callee is flush and call.args):
        raise ValueError("positional arguments in the send_continue / _flush_some calls")
    inner = kw_of(call, "do_close")
    if inner is None:
        v = default_of(callee, "do_close")
    elif isinstance(inner, ast.Constant) and isinstance(inner.value, bool):
        v = inner.value
    elif isinstance(inner, ast.Name) and inner.id == "do_close":
        outer = kw_of(sc[0], "do_close")
        if outer is None:
            v = default_of(cont, "do_close")
        elif isinstance(outer, ast.Constant) and isinstance(outer.value, bool):
            v = outer.value
        else:
            raise ValueError("do_close passed by service() is not a constant")
    else:
        raise ValueError("do_close passed to the flush is neither a constant nor the parameter")
    if not isinstance(v, bool):
        raise ValueError("cannot determine do_close (%r)" % (v,))
    return v


# the signature of the modelled methods on the tree the model was written against (see shape_signature;
# /repo at 48f7fa0 (frozen), i.e. with all the repairs of the rounds up to /verif/_work/FINAL_ROUND.md); the instructions of Model/ChanFault.v
# transliterate exactly these statements
EXPECTED_SHAPE = {'channel.py:HTTPChannel.__init__': ['w:outbufs',
                                     'w:sendbuf_len call:getsockopt()',
                                     'n:map call:__init__()',
                                     'w:connected const:True',
                                     'w:requests'],
 'channel.py:HTTPChannel._flush_exception': ['if(){',
                                             'try{',
                                             'return(call:flush(do_close=do_close) const:False)',
                                             '}except(OSError){',
                                             'h:if self.adj.log_socket_errors',
                                             'if(){',
                                             "h:self.logger.exception('S')",
                                             '}',
                                             'h:self.will_close = True',
                                             'w:will_close const:True',
                                             'h:return (False, True)',
                                             'return(const:False const:True)',
                                             '}except(Exception){',
                                             "h:self.logger.exception('S')",
                                             'h:self.will_close = True',
                                             'w:will_close const:True',
                                             'h:return (False, True)',
                                             'return(const:False const:True)',
                                             '}',
                                             '}',
                                             'return(const:False const:False)'],
 'channel.py:HTTPChannel._flush_outbufs_below_high_watermark': ['if(r:total_outbufs_len cmp:Gt){',
                                                                'with(self.outbuf_lock){',
                                                                'if(not r:connected){',
                                                                'return()',
                                                                '}',
                                                                'n:_L1 n:_L2 r:_flush_some const:False '
                                                                'call:_flush_exception(do_close=False)',
                                                                'if(n:_L2){',
                                                                'call:pull_trigger()',
                                                                'call:wait()',
                                                                'return()',
                                                                '}',
                                                                'while(bool:And r:connected r:total_outbufs_len '
                                                                'cmp:Gt){',
                                                                'call:pull_trigger()',
                                                                'call:wait()',
                                                                '}',
                                                                '}',
                                                                '}'],
 'channel.py:HTTPChannel._flush_some': ['n:_L1',
                                        'n:_L2 const:False',
                                        'while(const:True){',
                                        'n:_L3 r:outbufs',
                                        'n:_L4 n:_L3',
                                        'while(n:_L4 cmp:Gt){',
                                        'n:_L5 n:_L3 r:sendbuf_len call:get()',
                                        'n:_L6 n:_L5 call:send(do_close=do_close)',
                                        'if(n:_L6){',
                                        'n:_L3 n:_L6 const:True call:skip()',
                                        'n:_L4 n:_L6',
                                        'n:_L1 n:_L6',
                                        'w:total_outbufs_len n:_L6',
                                        '}else{',
                                        'n:_L2 const:True',
                                        'break',
                                        '}',
                                        '}else{',
                                        'if(r:outbufs cmp:Gt){',
                                        'n:_L7 r:outbufs call:pop()',
                                        'try{',
                                        'n:_L7 call:close()',
                                        '}except(Exception){',
                                        "h:self.logger.exception('S')",
                                        '}',
                                        '}else{',
                                        'n:_L2 const:True',
                                        '}',
                                        '}',
                                        'if(n:_L2){',
                                        'break',
                                        '}',
                                        '}',
                                        'if(n:_L1){',
                                        'return(const:True)',
                                        '}',
                                        'return(const:False)'],
 'channel.py:HTTPChannel._flush_some_if_lockable': ['if(const:False call:acquire()){',
                                                    'try{',
                                                    'call:_flush_some(do_close=do_close)',
                                                    'if(r:total_outbufs_len cmp:LtE){',
                                                    'call:notify()',
                                                    '}',
                                                    '}finally{',
                                                    'h:self.outbuf_lock.release()',
                                                    'call:release()',
                                                    '}',
                                                    '}'],
 'channel.py:HTTPChannel.add_channel': ['n:map call:add_channel()', 'r:active_channels r:_fileno'],
 'channel.py:HTTPChannel.del_channel': ['n:_L1 r:_fileno',
                                        'n:map call:del_channel()',
                                        'n:_L2 r:active_channels',
                                        'if(n:_L1 cmp:In n:_L2){',
                                        'del(n:_L2 n:_L1)',
                                        '}'],
 'channel.py:HTTPChannel.handle_close': ['with(self.outbuf_lock){',
                                         'for(r:outbufs){',
                                         'try{',
                                         'n:_L1 call:close()',
                                         '}except(Exception){',
                                         "h:self.logger.exception('S')",
                                         '}',
                                         '}',
                                         'w:total_outbufs_len',
                                         'w:connected const:False',
                                         'call:notify()',
                                         '}',
                                         'call:close()'],
 'channel.py:HTTPChannel.handle_read': ['try{',
                                        'n:_L1 call:recv()',
                                        '}except(OSError){',
                                        'h:if self.adj.log_socket_errors',
                                        'if(){',
                                        "h:self.logger.exception('S')",
                                        '}',
                                        'h:self.handle_close()',
                                        'call:handle_close()',
                                        'h:return',
                                        'return()',
                                        '}',
                                        'if(n:_L1){',
                                        'n:_L1 call:received()',
                                        '}else{',
                                        'w:connected const:False',
                                        '}'],
 'channel.py:HTTPChannel.handle_write': ['if(not r:requests){',
                                         'n:_L1 r:_flush_some_if_lockable',
                                         '}else{',
                                         'if(bool:Or r:total_outbufs_len cmp:GtE r:total_outbufs_len cmp:Gt){',
                                         'n:_L1 r:_flush_some_if_lockable',
                                         '}else{',
                                         'n:_L1 const:None',
                                         '}',
                                         '}',
                                         'n:_L1 call:_flush_exception()',
                                         'if(bool:And r:close_when_flushed not r:total_outbufs_len){',
                                         'w:close_when_flushed const:False',
                                         'w:will_close const:True',
                                         '}',
                                         'if(r:will_close){',
                                         'call:handle_close()',
                                         '}'],
 'channel.py:HTTPChannel.readable': ['return(not bool:Or r:will_close r:close_when_flushed r:requests cmp:Gt '
                                     'r:total_outbufs_len)'],
 'channel.py:HTTPChannel.received': ['if(not){',
                                     'return(const:False)',
                                     '}',
                                     'with(self.requests_lock){',
                                     'if(bool:Or r:will_close r:close_when_flushed){',
                                     'return(const:False)',
                                     '}',
                                     'while(){',
                                     'if(r:request cmp:Is const:None){',
                                     'w:request',
                                     '}',
                                     'n:_L1 r:request call:received()',
                                     'if(bool:And r:request r:expect_continue r:request r:headers_finished not '
                                     'r:requests not r:sent_continue){',
                                     'call:send_continue()',
                                     '}',
                                     'if(r:request r:completed){',
                                     'w:sent_continue const:False',
                                     'if(not r:request r:empty){',
                                     'r:requests r:request call:append()',
                                     'if(r:requests cmp:Eq){',
                                     'call:add_task()',
                                     '}',
                                     '}',
                                     'w:request const:None',
                                     '}',
                                     'if(n:_L1 cmp:GtE){',
                                     'break',
                                     '}',
                                     'n:_L1',
                                     '}',
                                     '}',
                                     'return(const:True)'],
 'channel.py:HTTPChannel.send_continue': ['r:request w:expect_continue const:False',
                                          "n:_L1 const:b'HTTP/1.1 100 Continue\\r\\n\\r\\n'",
                                          'n:_L2 n:_L1',
                                          'with(self.outbuf_lock){',
                                          'r:outbufs n:_L1 call:append()',
                                          'w:current_outbuf_count n:_L2',
                                          'w:total_outbufs_len n:_L2',
                                          'w:sent_continue const:True',
                                          'r:_flush_some call:_flush_exception(do_close=do_close)',
                                          '}'],
 'channel.py:HTTPChannel.service': ['n:_L1 r:requests',
                                    'if(n:_L1 r:error){',
                                    'n:_L2 n:_L1',
                                    '}else{',
                                    'n:_L2 n:_L1',
                                    '}',
                                    'try{',
                                    'if(bool:And r:connected not r:will_close){',
                                    'n:_L2 call:service()',
                                    '}else{',
                                    'n:_L2 w:close_on_finish const:True',
                                    '}',
                                    '}except(ClientDisconnected){',
                                    "h:self.logger.info('S' % _L2.request.path)",
                                    'n:_L2 r:request',
                                    'h:_L2.close_on_finish = True',
                                    'n:_L2 w:close_on_finish const:True',
                                    '}except(BaseException){',
                                    "h:self.logger.exception('S' % _L2.request.path)",
                                    'n:_L2 r:request',
                                    'h:if not _L2.wrote_header',
                                    'if(not n:_L2){',
                                    'h:if self.adj.expose_tracebacks',
                                    'if(){',
                                    'h:_L3 = traceback.format_exc()',
                                    'n:_L3',
                                    '}else{',
                                    "h:_L3 = 'S'",
                                    'n:_L3',
                                    '}',
                                    'h:_L4 = _L1.version',
                                    'n:_L4 n:_L1',
                                    'h:_L5 = _L1.headers',
                                    'n:_L5 n:_L1',
                                    'h:_L6 = self.parser_class(self.adj)',
                                    'n:_L6',
                                    'h:_L6.error = InternalServerError(_L3)',
                                    'n:_L6 w:error n:_L3',
                                    'h:_L6.version = _L4',
                                    'n:_L6 n:_L4',
                                    "h:_L6.command = getattr(_L1, 'S', None)",
                                    'n:_L6 n:_L1 const:None',
                                    'try{',
                                    "h:_L6.headers['S'] = _L5['S']",
                                    'n:_L6 n:_L5',
                                    '}except(KeyError){',
                                    'h:pass',
                                    'pass',
                                    '}',
                                    'h:_L2 = self.error_task_class(self, _L6)',
                                    'n:_L2 n:_L6',
                                    'try{',
                                    'h:_L2.service()',
                                    'n:_L2 call:service()',
                                    '}except(ClientDisconnected){',
                                    'h:_L2.close_on_finish = True',
                                    'n:_L2 w:close_on_finish const:True',
                                    '}',
                                    '}else{',
                                    'h:_L2.close_on_finish = True',
                                    'n:_L2 w:close_on_finish const:True',
                                    '}',
                                    '}',
                                    'if(n:_L2 r:close_on_finish){',
                                    'with(self.requests_lock){',
                                    'w:close_when_flushed const:True',
                                    'for(r:requests){',
                                    'n:_L1 call:close()',
                                    '}',
                                    'w:requests',
                                    '}',
                                    '}else{',
                                    'if(r:requests cmp:Gt){',
                                    'call:_flush_outbufs_below_high_watermark()',
                                    '}',
                                    'if(r:current_outbuf_count cmp:Gt){',
                                    'w:current_outbuf_count',
                                    '}',
                                    'n:_L1 call:close()',
                                    'with(self.requests_lock){',
                                    'r:requests call:pop()',
                                    'if(bool:And r:connected r:requests){',
                                    'call:add_task()',
                                    '}else{',
                                    'if(bool:And r:connected r:request cmp:IsNot const:None r:request '
                                    'r:expect_continue r:request r:headers_finished not r:sent_continue){',
                                    'const:False call:send_continue(do_close=False)',
                                    '}',
                                    '}',
                                    '}',
                                    '}',
                                    'if(r:connected){',
                                    'call:pull_trigger()',
                                    '}'],
 'channel.py:HTTPChannel.writable': ['return(bool:Or r:total_outbufs_len cmp:Gt r:will_close r:close_when_flushed)'],
 'channel.py:HTTPChannel.write_soon': ['if(not r:connected){',
                                       'raise(n:ClientDisconnected)',
                                       '}',
                                       'if(){',
                                       'with(self.outbuf_lock){',
                                       'call:_flush_outbufs_below_high_watermark()',
                                       'if(not r:connected){',
                                       'raise(n:ClientDisconnected)',
                                       '}',
                                       'n:_L1',
                                       'if(){',
                                       'r:outbufs call:append()',
                                       'n:_L2',
                                       'r:outbufs n:_L2 call:append()',
                                       'w:current_outbuf_count',
                                       '}else{',
                                       'if(r:current_outbuf_count cmp:GtE){',
                                       'n:_L2',
                                       'r:outbufs n:_L2 call:append()',
                                       'w:current_outbuf_count',
                                       '}',
                                       'r:outbufs call:append()',
                                       'w:current_outbuf_count n:_L1',
                                       '}',
                                       'w:total_outbufs_len n:_L1',
                                       'if(r:total_outbufs_len cmp:GtE){',
                                       'n:_L3 n:_L4 r:_flush_some const:False call:_flush_exception(do_close=False)',
                                       'if(bool:Or n:_L4 not n:_L3 r:total_outbufs_len cmp:GtE){',
                                       'call:pull_trigger()',
                                       '}',
                                       '}',
                                       '}',
                                       'return(n:_L1)',
                                       '}',
                                       'return()'],
 'server.py:BaseWSGIServer.close': ['call:close()', 'return(call:close())'],
 'server.py:BaseWSGIServer.handle_accept': ['try{',
                                            'n:_L1 call:accept()',
                                            'if(n:_L1 cmp:Is const:None){',
                                            'return()',
                                            '}',
                                            'n:_L2 n:_L3 n:_L1',
                                            'n:_L2 call:set_socket_options()',
                                            '}except(OSError){',
                                            'h:if self.adj.log_socket_errors',
                                            'if(){',
                                            "h:self.logger.warning('S', exc_info=True)",
                                            'const:True',
                                            '}',
                                            'h:return',
                                            'return()',
                                            '}',
                                            'n:_L3 n:_L3 call:fix_addr()',
                                            'try{',
                                            'n:_L2 n:_L3 r:_map call:channel_class()',
                                            '}except(OSError){',
                                            'h:if self.adj.log_socket_errors',
                                            'if(){',
                                            "h:self.logger.warning('S', exc_info=True)",
                                            'const:True',
                                            '}',
                                            'try{',
                                            'h:_L2.close()',
                                            'n:_L2 call:close()',
                                            '}except(OSError){',
                                            'h:pass',
                                            'pass',
                                            '}',
                                            '}'],
 'server.py:BaseWSGIServer.handle_read': ['pass'],
 'server.py:BaseWSGIServer.run': ['try{',
                                  'r:_map',
                                  '}except((SystemExit, KeyboardInterrupt)){',
                                  'h:self.task_dispatcher.shutdown()',
                                  '}'],
 'server.py:BaseWSGIServer.writable': ['return(const:False)'],
 'task.py:ThreadedTaskDispatcher.handler_thread': ['while(const:True){',
                                                   'with(self.lock){',
                                                   'while(bool:And not cmp:Eq){',
                                                   'call:wait()',
                                                   '}',
                                                   'if(cmp:Gt){',
                                                   'call:notify()',
                                                   'break',
                                                   '}',
                                                   'n:_L1',
                                                   '}',
                                                   'try{',
                                                   'n:_L1 call:service()',
                                                   '}except(BaseException){',
                                                   "h:self.logger.exception('S', _L1)",
                                                   'n:_L1',
                                                   '}',
                                                   '}'],
 'trigger.py:_triggerbase.close': ['if(not){', 'const:True', 'call:del_channel()', '}'],
 'trigger.py:_triggerbase.handle_close': ['call:close()'],
 'trigger.py:_triggerbase.handle_read': ['try{',
                                         'call:recv()',
                                         '}except(OSError){',
                                         'h:return',
                                         'return()',
                                         '}',
                                         'with(self.lock){',
                                         'for(){',
                                         'try{',
                                         '}except(*){',
                                         'h:_L2, _L3, _L4, _L5 = wasyncore.compact_traceback()',
                                         'n:_L2 n:_L3 n:_L4 n:_L5',
                                         "h:self.log_info(f'S{_L3}S{_L4}S{_L5}S')",
                                         'n:_L3 n:_L4 n:_L5',
                                         '}',
                                         '}',
                                         '}'],
 'wasyncore.py:._exception': ['try{',
                              'call:handle_expt_event()',
                              '}except(_reraised_exceptions){',
                              'h:raise',
                              'raise()',
                              '}except(*){',
                              'h:obj.handle_error()',
                              'call:handle_error()',
                              '}'],
 'wasyncore.py:.loop': ['if(n:map cmp:Is const:None){',
                        'n:map',
                        '}',
                        'if(bool:And){',
                        'n:_L1',
                        '}else{',
                        'n:_L1',
                        '}',
                        'if(cmp:Is const:None){',
                        'while(n:map){',
                        'n:map',
                        '}',
                        '}else{',
                        'while(bool:And n:map cmp:Gt){',
                        'n:map',
                        '}',
                        '}'],
 'wasyncore.py:.poll': ['if(n:map cmp:Is const:None){',
                        'n:map',
                        '}',
                        'if(n:map){',
                        'n:_L1',
                        'n:_L2',
                        'n:_L3',
                        'for(n:map call:items()){',
                        'n:_L6 n:_L5',
                        'n:_L7 n:_L5',
                        'if(n:_L6){',
                        'n:_L1 n:_L4 call:append()',
                        '}',
                        'if(bool:And n:_L7 not n:_L5 r:accepting){',
                        'n:_L2 n:_L4 call:append()',
                        '}',
                        'if(bool:Or n:_L6 n:_L7){',
                        'n:_L3 n:_L4 call:append()',
                        '}',
                        '}',
                        'if(cmp:Eq n:_L1 cmp:Eq n:_L2 cmp:Eq n:_L3){',
                        'call:sleep()',
                        'return()',
                        '}',
                        'try{',
                        'n:_L1 n:_L2 n:_L3 n:_L1 n:_L2 n:_L3 call:select()',
                        '}except(OSError){',
                        'h:if _L8.args[0] != EINTR',
                        'if(n:_L8 cmp:NotEq n:EINTR){',
                        'h:raise',
                        'raise()',
                        '}else{',
                        'h:return',
                        'return()',
                        '}',
                        '}',
                        'for(n:_L1){',
                        'n:_L5 n:map n:_L4 call:get()',
                        'if(n:_L5 cmp:Is const:None){',
                        'continue',
                        '}',
                        'n:_L5 call:read()',
                        '}',
                        'for(n:_L2){',
                        'n:_L5 n:map n:_L4 call:get()',
                        'if(n:_L5 cmp:Is const:None){',
                        'continue',
                        '}',
                        'n:_L5 call:write()',
                        '}',
                        'for(n:_L3){',
                        'n:_L5 n:map n:_L4 call:get()',
                        'if(n:_L5 cmp:Is const:None){',
                        'continue',
                        '}',
                        'n:_L5 call:_exception()',
                        '}',
                        '}'],
 'wasyncore.py:.poll2': ['if(n:map cmp:Is const:None){',
                         'n:map',
                         '}',
                         'if(cmp:IsNot const:None){',
                         '}',
                         'n:_L1 call:poll()',
                         'if(n:map){',
                         'for(n:map call:items()){',
                         'n:_L4',
                         'if(n:_L3){',
                         'n:_L4',
                         '}',
                         'if(bool:And n:_L3 not n:_L3 r:accepting){',
                         'n:_L4',
                         '}',
                         'if(n:_L4){',
                         'n:_L1 n:_L2 n:_L4 call:register()',
                         '}',
                         '}',
                         'try{',
                         'n:_L5 n:_L1 call:poll()',
                         '}except(OSError){',
                         'h:if _L6.args[0] != EINTR',
                         'if(n:_L6 cmp:NotEq n:EINTR){',
                         'h:raise',
                         'raise()',
                         '}',
                         'h:_L5 = []',
                         'n:_L5',
                         '}',
                         'for(n:_L5){',
                         'n:_L3 n:map n:_L2 call:get()',
                         'if(n:_L3 cmp:Is const:None){',
                         'continue',
                         '}',
                         'n:_L3 n:_L4 call:readwrite()',
                         '}',
                         '}'],
 'wasyncore.py:.read': ['try{',
                        'call:handle_read_event()',
                        '}except(_reraised_exceptions){',
                        'h:raise',
                        'raise()',
                        '}except(*){',
                        'h:obj.handle_error()',
                        'call:handle_error()',
                        '}'],
 'wasyncore.py:.readwrite': ['try{',
                             'if(){',
                             'call:handle_read_event()',
                             '}',
                             'if(){',
                             'call:handle_write_event()',
                             '}',
                             'if(){',
                             'call:handle_expt_event()',
                             '}',
                             'if(){',
                             'call:handle_close()',
                             '}',
                             '}except(OSError){',
                             'h:if _L1.args[0] not in _DISCONNECTED',
                             'if(n:_L1 cmp:NotIn n:_DISCONNECTED){',
                             'h:obj.handle_error()',
                             'call:handle_error()',
                             '}else{',
                             'h:obj.handle_close()',
                             'call:handle_close()',
                             '}',
                             '}except(_reraised_exceptions){',
                             'h:raise',
                             'raise()',
                             '}except(*){',
                             'h:obj.handle_error()',
                             'call:handle_error()',
                             '}'],
 'wasyncore.py:.write': ['try{',
                         'call:handle_write_event()',
                         '}except(_reraised_exceptions){',
                         'h:raise',
                         'raise()',
                         '}except(*){',
                         'h:obj.handle_error()',
                         'call:handle_error()',
                         '}'],
 'wasyncore.py:_DISCONNECTED': ['EBADF', 'ECONNABORTED', 'ECONNRESET', 'ENOTCONN', 'EPIPE', 'ESHUTDOWN'],
 'wasyncore.py:_reraised_exceptions': ['ExitNow', 'KeyboardInterrupt', 'SystemExit'],
 'wasyncore.py:dispatcher.__init__': ['if(n:map cmp:Is const:None){',
                                      'w:_map',
                                      '}else{',
                                      'w:_map n:map',
                                      '}',
                                      'w:_fileno const:None',
                                      'if(){',
                                      'call:setblocking()',
                                      'n:map call:set_socket()',
                                      '}else{',
                                      'w:socket const:None',
                                      '}'],
 'wasyncore.py:dispatcher.accept': ['try{',
                                    'n:_L1 n:_L2 r:socket call:accept()',
                                    '}except(TypeError){',
                                    'h:return None',
                                    'return(const:None)',
                                    '}except(OSError){',
                                    'h:if _L3.args[0] in (EWOULDBLOCK, ECONNABORTED, EAGAIN)',
                                    'if(n:_L3 cmp:In n:EWOULDBLOCK n:ECONNABORTED n:EAGAIN){',
                                    'h:return None',
                                    'return(const:None)',
                                    '}else{',
                                    'h:raise',
                                    'raise()',
                                    '}',
                                    '}else{',
                                    'return(n:_L1 n:_L2)',
                                    '}'],
 'wasyncore.py:dispatcher.add_channel': ['if(n:map cmp:Is const:None){', 'n:map r:_map', '}', 'n:map r:_fileno'],
 'wasyncore.py:dispatcher.close': ['w:connected const:False',
                                   'w:accepting const:False',
                                   'w:connecting const:False',
                                   'call:del_channel()',
                                   'if(r:socket cmp:IsNot const:None){',
                                   'try{',
                                   'r:socket call:close()',
                                   '}except(OSError){',
                                   'h:if _L1.args[0] not in (ENOTCONN, EBADF)',
                                   'if(n:_L1 cmp:NotIn n:ENOTCONN n:EBADF){',
                                   'h:raise',
                                   'raise()',
                                   '}',
                                   '}',
                                   'w:socket const:None',
                                   '}'],
 'wasyncore.py:dispatcher.del_channel': ['n:_L1 r:_fileno',
                                         'if(n:map cmp:Is const:None){',
                                         'n:map r:_map',
                                         '}',
                                         'if(n:_L1 cmp:In n:map){',
                                         'del(n:map n:_L1)',
                                         '}',
                                         'w:_fileno const:None'],
 'wasyncore.py:dispatcher.handle_close': ['call:close()'],
 'wasyncore.py:dispatcher.handle_error': ['n:_L1 n:_L2 n:_L3 n:_L4',
                                          'try{',
                                          'n:_L5',
                                          '}except(*){',
                                          "h:_L5 = 'S' % id(self)",
                                          'n:_L5',
                                          '}',
                                          'n:_L5 n:_L2 n:_L3 n:_L4',
                                          'call:handle_close()'],
 'wasyncore.py:dispatcher.handle_expt_event': ['n:_L1 r:socket cmp:IsNot const:None r:socket call:getsockopt()',
                                               'if(n:_L1 cmp:NotEq){',
                                               'call:handle_close()',
                                               '}else{',
                                               'call:handle_expt()',
                                               '}'],
 'wasyncore.py:dispatcher.handle_read_event': ['if(r:accepting){',
                                               'call:handle_accept()',
                                               '}else{',
                                               'if(not r:connected){',
                                               'if(r:connecting){',
                                               'call:handle_connect_event()',
                                               '}',
                                               'call:handle_read()',
                                               '}else{',
                                               'call:handle_read()',
                                               '}',
                                               '}'],
 'wasyncore.py:dispatcher.handle_write_event': ['if(r:accepting){',
                                                'return()',
                                                '}',
                                                'if(not r:connected){',
                                                'if(r:connecting){',
                                                'call:handle_connect_event()',
                                                '}',
                                                '}',
                                                'call:handle_write()'],
 'wasyncore.py:dispatcher.recv': ['try{',
                                  'n:_L1 r:socket call:recv()',
                                  'if(not n:_L1){',
                                  'call:handle_close()',
                                  "return(const:b'')",
                                  '}else{',
                                  'return(n:_L1)',
                                  '}',
                                  '}except(OSError){',
                                  'h:if _L2.args[0] in _DISCONNECTED',
                                  'if(n:_L2 cmp:In n:_DISCONNECTED){',
                                  'h:self.handle_close()',
                                  'call:handle_close()',
                                  "h:return b''",
                                  "return(const:b'')",
                                  '}else{',
                                  'h:raise',
                                  'raise()',
                                  '}',
                                  '}'],
 'wasyncore.py:dispatcher.send': ['try{',
                                  'n:_L1 r:socket call:send()',
                                  'return(n:_L1)',
                                  '}except(OSError){',
                                  'h:if _L2.args[0] == EWOULDBLOCK',
                                  'if(n:_L2 cmp:Eq n:EWOULDBLOCK){',
                                  'h:return 0',
                                  'return()',
                                  '}else{',
                                  'h:if _L2.args[0] in _DISCONNECTED',
                                  'if(n:_L2 cmp:In n:_DISCONNECTED){',
                                  'h:if do_close',
                                  'if(){',
                                  'h:self.handle_close()',
                                  'call:handle_close()',
                                  '}',
                                  'h:return 0',
                                  'return()',
                                  '}else{',
                                  'h:raise',
                                  'raise()',
                                  '}',
                                  '}',
                                  '}'],
 'wasyncore.py:dispatcher.set_socket': ['w:socket', 'w:_fileno', 'n:map call:add_channel()']}


def shape_audit(src_dir):
    """-> (list of methods whose signature differs from EXPECTED_SHAPE, signature).  Exact comparison: the two
    knobs the model takes from the source (detect_wc_close, detect_init_guarded) are part of the shape too."""
    sig = shape_signature(src_dir)
    diff = [k for k in sorted(set(sig) | set(EXPECTED_SHAPE))
            if sig.get(k, ["<missing>"]) != EXPECTED_SHAPE.get(k, ["<unexpected>"])]
    return diff, sig


# ---------------------------------------------------------------------------------
# scenarios, fault placements, the C13 monitor, replays

GET = b"GET /a HTTP/1.1\r\nHost: x\r\n\r\n"
GET2 = b"GET /c HTTP/1.1\r\nHost: x\r\n\r\n"
GETCLOSE = b"GET /a HTTP/1.1\r\nHost: x\r\nConnection: close\r\n\r\n"
POSTH = b"POST /b HTTP/1.1\r\nHost: x\r\nContent-Length: 5\r\nExpect: 100-continue\r\n\r\n"
POSTBODY = b"hello"
POST0 = b"POST /e HTTP/1.1\r\nHost: x\r\nContent-Length: 0\r\nExpect: 100-continue\r\n\r\n"
BAD = b"GARBAGE\r\n\r\n"
ADJ0 = {"outbuf_high_watermark": 2000}

# JSON-able scenario: scripts {fd: [[kind, arg...]]} with bytes as hex; bodies {path: [chunk sizes]}
SCENARIOS = {
    "get-close": {"scripts": {7: [["send", GET.hex()], ["wait_wire", 60], ["close"]]}},
    "get-expect-pipelined": {"scripts": {7: [["send", (GET + POSTH).hex()], ["wait_wire", 100], ["send", POSTBODY.hex()],
                                            ["wait_wire", 200], ["close"]]}},
    "expect-alone": {"scripts": {7: [["send", POSTH.hex()], ["wait_wire", 20], ["send", POSTBODY.hex()],
                                    ["wait_wire", 100], ["close"]]}},
    "expect-empty-body": {"scripts": {7: [["send", (POST0 + GET).hex()], ["wait_wire", 200], ["close"]]}},
    "get-expect-empty": {"scripts": {7: [["send", (GET + POST0).hex()], ["wait_wire", 200], ["close"]]}},
    "two-pipelined": {"scripts": {7: [["send", (GET + GET2).hex()], ["wait_wire", 150], ["close"]]}},
    "pending-output": {"scripts": {7: [["stall"], ["send", GET.hex()], ["resume"], ["wait_wire", 1000], ["close"]]},
                       "bodies": {"/a": [900, 900]}, "adj": {"outbuf_high_watermark": 1000}},
    "backpressure": {"scripts": {7: [["send", GET.hex()], ["wait_wire", 2000], ["close"]]},
                     "bodies": {"/a": [1200, 1200]}, "adj": {"outbuf_high_watermark": 1000}, "send_plans": {"7": [0, 0]}},
    "backpressure-lowmark": {"scripts": {7: [["send", GET.hex()], ["wait_wire", 2000], ["close"]]},
                             "bodies": {"/a": [1200, 1200]}, "adj": {"outbuf_high_watermark": 1000, "send_bytes": 5000}},
    "conn-close": {"scripts": {7: [["send", GETCLOSE.hex()], ["wait_wire", 60]]}},
    "bad-request": {"scripts": {7: [["send", BAD.hex()], ["wait_wire", 60]]}},
    "app-raises": {"scripts": {7: [["send", GET.hex()], ["wait_wire", 60], ["close"]]}, "raises": ["/a"]},
    "oob": {"scripts": {7: [["send", GET.hex()], ["oob"], ["wait_wire", 60], ["close"]]}},
    "hup": {"scripts": {7: [["send", GET.hex()], ["wait_wire", 60], ["hup"]]}, "use_poll": True},
    "worker-flush": {"scripts": {7: [["send", (GET + GET2).hex()], ["wait_wire", 150], ["close"]]}, "adj": {"send_bytes": 1}},
    "two-conns": {"scripts": {7: [["send", (GET + POSTH).hex()], ["wait_wire", 100], ["close"]],
                              8: [["send", GET.hex()], ["send", GET2.hex()], ["wait_wire", 190], ["close"]]}},
    "two-conns-b": {"scripts": {7: [["send", GET.hex()], ["wait_wire", 60], ["close"]],
                                8: [["send", (GET + GET2).hex()], ["wait_wire", 190], ["close"]]}},
}


def _script(js):
    out = []
    for st in js:
        if st[0] == "send":
            out.append(("send", bytes.fromhex(st[1])))
        else:
            out.append(tuple(st))
    return out


def _plan(js):
    return [tuple(x) if isinstance(x, list) else x for x in (js or [])]


def make_world(case, schedule=(), policy=None, max_steps=4000):
    """case: {"scenario": name | dict, "send_plans": {fd: [...]}, "recv_faults": {fd: {k: errno}},
              "soerr_plans": {fd: [...]}, "n_workers": int, "use_poll": bool}"""
    sc = case["scenario"]
    if isinstance(sc, str):
        sc = SCENARIOS[sc]
    bodies = {p: ("200 OK", None, [b"x" * n for n in sizes]) for p, sizes in (sc.get("bodies") or {}).items()}
    adj = dict(ADJ0)
    adj.update(sc.get("adj") or {})
    k = lambda d: {int(a): b for a, b in (d or {}).items()}
    if not case.get("send_plans") and sc.get("send_plans"):
        case = dict(case, send_plans=sc["send_plans"])
    w = FaultWorld(simple_app(bodies), {int(fd): _script(s) for fd, s in sc["scripts"].items()},
                   schedule=schedule, policy=policy, adj_kw=adj, n_workers=case.get("n_workers", 1),
                   send_plans={fd: _plan(p) for fd, p in k(case.get("send_plans")).items()},
                   recv_faults={fd: {int(i): e for i, e in f.items()} for fd, f in k(case.get("recv_faults")).items()},
                   soerr_plans={fd: _plan(p) for fd, p in k(case.get("soerr_plans")).items()},
                   use_poll=bool(case.get("use_poll", sc.get("use_poll", False))), max_steps=max_steps, sndbuf=4096)
    w.app_raises = set(sc.get("raises") or [])
    return w


def monitor(world, reference_wire=None):
    """The executable form of C13's predicates over one real run.
    -> (problems, worker_side_send_continue): problems is a list of (kind, detail)"""
    ev = world.sched.events
    problems = []
    wcont = any(e[1] == "send_continue" and e[0] != "io" for e in ev)
    for e in ev:
        if e[1] == "io_loop_died":
            problems.append(("loop_died", e[2]))
        if e[1] in ("close", "map_del", "act_del", "bufs_closed") and e[0] != "io":
            problems.append(("teardown_by_worker", (e[1], e[0], e[2] if not isinstance(e[2], tuple) else e[2][0])))
        if e[1] == "crash" and e[0].startswith("waitress"):
            problems.append(("worker_died", (e[0], e[2])))
    for fd, sk in world.socks.items():
        ncl = sum(1 for e in ev if e[1] == "close" and e[2] == fd)
        nmd = sum(1 for e in ev if e[1] == "map_del" and e[2] == fd)
        if ncl > 1:
            problems.append(("closed_twice", fd))
        if nmd > 1:
            problems.append(("map_del_twice", fd))
        ch = world.channels.get(fd)
        if ch is not None and sk.closed:
            if world.map.get(fd) is ch or world.server.active_channels.get(fd) is ch:
                problems.append(("closed_but_polled", fd))
            if not ch._bufs_closed:
                problems.append(("closed_but_buffers_open", fd))
    fin = getattr(world, "final", None)
    if fin is not None and world.verdict == "blocked":
        # quiescent: a connection that has been given up (connected is False) has been torn down
        for fd, ch in world.channels.items():
            if not object.__getattribute__(ch, "connected") and (world.map.get(fd) is ch or not world.socks[fd].closed):
                problems.append(("not_torn_down", fd))
    if fin is not None:
        if fin["workers_dead"]:
            problems.append(("worker_died", fin["workers_dead"]))
        if not fin["trigger_in_map"]:
            problems.append(("trigger_gone", None))
    if reference_wire is not None:
        for fd, ref in reference_wire.items():
            got = world.socks[fd].wire
            done = world.verdict == "blocked" and not any(b[0] == "client%d" % fd for b in world.blocked_at_end)
            if (done and got != ref) or not ref.startswith(got):
                problems.append(("other_connection_disturbed", (fd, len(got), len(ref))))
    return problems, wcont


def count_calls(case):
    """socket calls of the fault-free default-schedule run: {fd: (nrecv, nsend)}"""
    base = {k: v for k, v in case.items() if k not in ("send_plans", "recv_faults", "soerr_plans")}
    w = make_world(base)
    w.run()
    return {fd: (sk.nrecv, sk.nsend) for fd, sk in w.socks.items()}, w


def placements(calls, fds=None):
    """all single fault placements: (fd, "recv"|"send", k, errno)"""
    out = []
    for fd, (nr, ns) in sorted(calls.items()):
        if fds is not None and fd not in fds:
            continue
        for k in range(nr + 1):
            for e in FAULT_ERRNOS:
                out.append((fd, "recv", k, e))
        for k in range(ns):
            for e in FAULT_ERRNOS:
                out.append((fd, "send", k, e))
            out.append((fd, "send", k, "partial"))
    return out


def apply_placements(case, pls):
    c = dict(case)
    sc0 = case["scenario"] if isinstance(case["scenario"], dict) else SCENARIOS[case["scenario"]]
    sp = {int(k): list(v) for k, v in (case.get("send_plans") or sc0.get("send_plans") or {}).items()}
    rf = {int(k): dict(v) for k, v in (case.get("recv_faults") or {}).items()}
    for fd, what, k, e in pls:
        if what == "recv":
            rf.setdefault(fd, {})[k] = e
        else:
            plan = sp.setdefault(fd, [])
            while len(plan) <= k:
                plan.append(None)
            plan[k] = 1 if e == "partial" else ["err", e]
    c["send_plans"] = {str(k): v for k, v in sp.items()}
    c["recv_faults"] = {str(k): {str(i): e for i, e in v.items()} for k, v in rf.items()}
    return c


def listener_monitor(world, exps, must_serve=()):
    """must_serve: descriptors of connections that were set up without a fault, sent a GET and were served: they
    must have received a complete 200 response (the listener went on accepting and the loop went on polling)"""
    problems = []
    for fd in must_serve:
        sk = world.socks.get(fd)
        if sk is None or fd not in world.channels or not sk.wire.startswith(b"HTTP/1.1 200"):
            problems.append(("next_client_not_served", (fd, None if sk is None else bytes(sk.wire[:20]))))
    setup_fault = any(e[1] == "setup_ans" and e[2][1] in ("getsockopt", "setblocking") and e[2][2] != "c0"
                      for e in world.sched.events)
    for (_, _, (what, srv)) in exps:
        if not all(srv.values()):
            problems.append(("listener_closed", srv))
            break
    for (_, snap, _) in exps:
        bad = [fd for fd, st in snap.items() if st is not None and "broken" in st and (st["in_map"] or st["in_act"])]
        if bad:
            problems.append(("half_built_channel_polled", bad))
            break
    if world.io_error is not None:
        problems.append(("loop_died", repr(world.io_error)))
    return problems, setup_fault


# A schedule of the scheduler world on which finding F18 (before its repair, /repo da3bf3a) killed the I/O loop
# (found by seeded random search, kept as a regression input): scenario get-expect-pipelined, the third send()
# answers EPIPE; the I/O thread has built its select lists (fd 7 writable: the worker holds outbuf_lock with
# output pending) when the worker ran send_continue() -> handle_close() -> socket.close(); select() then refused
# the closed descriptor.
F18_LOOP_DEATH_CASE = {"scenario": "get-expect-pipelined", "send_plans": {"7": [None, None, ["err", errno.EPIPE]]},
                       "recv_faults": {}}
F18_LOOP_DEATH_SCHEDULE = [0, 0, 0, 0, 1, 1, 1, 1, 1, 1, 1, 1, 0, 0, 0, 0, 0, 0, 0, 0, 0, 1, 0, 0, 0, 0, 0, 0, 0, 0, 0, 0,
                           0, 0, 0, 0, 0, 0]


def write_knobs(src_dir, out_path):
    """Regenerate coq/Gen/GenChanKnobs.v from the source: the two facts the model takes from handle_accept and
    service()/send_continue().  Fails closed: when a shape is not understood the worst value is written, so the
    headline theorems of Props/C13.v do not compile.  -> (wc_close, init_guarded, problems)"""
    problems = []
    try:
        wc = detect_wc_close(src_dir)
    except (ValueError, OSError) as e:
        wc, problems = True, problems + ["wc_close: %s" % e]
    try:
        ig = detect_init_guarded(src_dir)
    except (ValueError, OSError) as e:
        ig, problems = False, problems + ["init_guarded: %s" % e]
    txt = ("(* GENERATED by harness/chanfault.write_knobs from src/waitress/{channel,server}.py on every run of\n"
           "   checks/C13.py -- do not edit.\n"
           "   src_wc_close     : the do_close with which HTTPChannel.service() reaches _flush_some through send_continue()\n"
           "   src_init_guarded : BaseWSGIServer.handle_accept calls channel_class(...) inside a try that catches OSError *)\n"
           "Definition src_wc_close : bool := %s.\nDefinition src_init_guarded : bool := %s.\n"
           % ("true" if wc else "false", "true" if ig else "false"))
    old = open(out_path).read() if os.path.exists(out_path) else None
    if old != txt:
        os.makedirs(os.path.dirname(out_path), exist_ok=True)
        with open(out_path, "w") as f:
            f.write(txt)
    return wc, ig, problems


# re-synchronised after /repo fixes b1d94ba and 1a765e6: service() reads getattr(task.request, 'path', None) in its two log
# lines and wraps the ladder's `task.service()  # must not fail` in one more handler (except BaseException: log;
# task.close_on_finish = True).  Neither touches a shared channel attribute, a lock or a call on a shared object; the
# worker now reaches the tail of service() where it used to leave it with the exception (C09_escape states the new flow).
EXPECTED_SHAPE['channel.py:HTTPChannel.service'] = ['n:_L1 r:requests',
 'if(n:_L1 r:error){',
 'n:_L2 n:_L1',
 '}else{',
 'n:_L2 n:_L1',
 '}',
 'try{',
 'if(bool:And r:connected not r:will_close){',
 'n:_L2 call:service()',
 '}else{',
 'n:_L2 w:close_on_finish const:True',
 '}',
 '}except(ClientDisconnected){',
 "h:self.logger.info('S' % getattr(_L2.request, 'S', None))",
 'n:_L2 r:request const:None',
 'h:_L2.close_on_finish = True',
 'n:_L2 w:close_on_finish const:True',
 '}except(BaseException){',
 "h:self.logger.exception('S' % getattr(_L2.request, 'S', None))",
 'n:_L2 r:request const:None',
 'h:if not _L2.wrote_header',
 'if(not n:_L2){',
 'h:if self.adj.expose_tracebacks',
 'if(){',
 'h:_L3 = traceback.format_exc()',
 'n:_L3',
 '}else{',
 "h:_L3 = 'S'",
 'n:_L3',
 '}',
 'h:_L4 = _L1.version',
 'n:_L4 n:_L1',
 'h:_L5 = _L1.headers',
 'n:_L5 n:_L1',
 'h:_L6 = self.parser_class(self.adj)',
 'n:_L6',
 'h:_L6.error = InternalServerError(_L3)',
 'n:_L6 w:error n:_L3',
 'h:_L6.version = _L4',
 'n:_L6 n:_L4',
 "h:_L6.command = getattr(_L1, 'S', None)",
 'n:_L6 n:_L1 const:None',
 'try{',
 "h:_L6.headers['S'] = _L5['S']",
 'n:_L6 n:_L5',
 '}except(KeyError){',
 'h:pass',
 'pass',
 '}',
 'h:_L2 = self.error_task_class(self, _L6)',
 'n:_L2 n:_L6',
 'try{',
 'h:_L2.service()',
 'n:_L2 call:service()',
 '}except(ClientDisconnected){',
 'h:_L2.close_on_finish = True',
 'n:_L2 w:close_on_finish const:True',
 '}except(BaseException){',
 "h:self.logger.exception('S')",
 'h:_L2.close_on_finish = True',
 'n:_L2 w:close_on_finish const:True',
 '}',
 '}else{',
 'h:_L2.close_on_finish = True',
 'n:_L2 w:close_on_finish const:True',
 '}',
 '}',
 'if(n:_L2 r:close_on_finish){',
 'with(self.requests_lock){',
 'w:close_when_flushed const:True',
 'for(r:requests){',
 'n:_L1 call:close()',
 '}',
 'w:requests',
 '}',
 '}else{',
 'if(r:requests cmp:Gt){',
 'call:_flush_outbufs_below_high_watermark()',
 '}',
 'if(r:current_outbuf_count cmp:Gt){',
 'w:current_outbuf_count',
 '}',
 'n:_L1 call:close()',
 'with(self.requests_lock){',
 'r:requests call:pop()',
 'if(bool:And r:connected r:requests){',
 'call:add_task()',
 '}else{',
 'if(bool:And r:connected r:request cmp:IsNot const:None r:request r:expect_continue r:request r:headers_finished '
 'not r:sent_continue){',
 'const:False call:send_continue(do_close=False)',
 '}',
 '}',
 '}',
 '}',
 'if(r:connected){',
 'call:pull_trigger()',
 '}']
