"""K-chanfault: the tie between coq/Model/ChanFault.v (property C13) and the code.

Two worlds drive REAL waitress classes; nothing under /repo is modified, module
globals (threading, time, select) are replaced for the duration of a case.

FaultWorld (extends harness/chan_world.World; deterministic scheduler)
    1 or 2 real HTTPChannel objects (fds 7 and 8 = the model's channels A and
    B) in one socket map with a trigger stand-in, the real ThreadedTaskDispatcher
    and the real wasyncore.poll / poll2 loop.  Every socket call (recv, send,
    close, getsockopt(SO_ERROR)) of a channel, every operation on its two locks,
    every select and every pull_trigger is a scheduling point.  The environment
    is scripted per channel: client steps, a send plan, recv faults, an
    exceptional-condition plan, HUP.  The fake select refuses a closed
    descriptor with EBADF at call time like the kernel does (poll reports
    POLLNVAL instead).
    Logical threads:  io | waitress-N (the pool) | client7 | client8
    Notes (semantic events, (thread, kind, detail)):
      hclose fd | bufs_closed (fd, len left) | map_del fd | act_del fd | close fd
      | wire (fd, n) | send_continue fd | service_start fd | service_end fd
      | write_soon (fd, n) | task_done (fd, close_on_finish) | task_exc (fd, wrote_header)
      | app_raise fd | parsed (fd, expect, completed, empty) | rx_begin fd | rx_end fd
      | recv_ans / send_ans / soerr_ans (fd, answer token) | selected (r, w, e, h)
      | add_task_begin fd | add_task_end fd | io_loop_died repr | worker_died name

ListenerWorld (single-threaded)
    the real TcpWSGIServer with its real trigger over a fake listening socket;
    accept / setsockopt / getsockopt(SO_SNDBUF) / setblocking of every accepted
    connection and its later recv/send answer from a script.

tokens(world) turns a finished run into the token list of ocaml/chanfault/driver.ml
(one token per scheduling block, with the environment's answers observed in that
block), expected(world) into the labels and the abstract state the model must
show after each token; conform() runs the extracted model and compares.
"""
import ast
import errno
import hashlib
import logging
import os
import socket as _socket

from harness.sched import Scheduler, Op, ThreadKilled, explore
from harness.fake_threading import FakeThreading, FakeTime, patched
from harness.chan_world import World, FakeTrigger, TRIG_FD, simple_app

logging.disable(logging.CRITICAL)

FDS = {7: "A", 8: "B"}
CHAN_FDS = (7, 8)
ERRNO_TOK = {
    errno.ECONNRESET: "econnreset", errno.EPIPE: "epipe", errno.ENOTCONN: "enotconn", errno.EBADF: "ebadf",
    errno.EINVAL: "einval", errno.EWOULDBLOCK: "ewouldblock", errno.ECONNABORTED: "econnaborted",
}
FAULT_ERRNOS = [errno.ECONNRESET, errno.EPIPE, errno.ENOTCONN, errno.EBADF, errno.EINVAL, errno.EIO]


def errtok(e):
    return ERRNO_TOK.get(e, "eother")


def fdl(fd):
    if fd in ("T", "L"):
        return fd
    return {TRIG_FD: "T", 100: "L"}.get(fd) or FDS[fd]


def fds_tok(l):
    return "".join(fdl(f) for f in l) or "-"


# ---------------------------------------------------------------------------------
# the scheduler world


class FSock:
    """The accepted socket of one channel.
    send_plan : list, one entry per send(): int n | None (all) | ("err", errno)
    recv_faults: {k: errno} the k-th recv() (0-based) raises instead of delivering
    soerr_plan : list, one entry per getsockopt(SO_ERROR): 0 | int errno value | ("err", errno)"""

    def __init__(self, world, fd, send_plan=(), recv_faults=None, soerr_plan=(), sndbuf=1 << 16):
        self.w = world
        self.fd = fd
        self.rx = []
        self.client_gone = False
        self.client_reading = True
        self.oob = False
        self.hup = False
        self.send_plan = list(send_plan)
        self.recv_faults = dict(recv_faults or {})
        self.soerr_plan = list(soerr_plan)
        self.nrecv = 0
        self.nsend = 0
        self.closed = False
        self.nclose = 0
        self.sndbuf = sndbuf
        self.wire = b""
        self.calls = []     # (op, thread) for the monitor

    def _me(self):
        me = self.w.sched.me()
        return me.name if me else "-"

    def fileno(self):
        return self.fd

    def setblocking(self, flag):
        pass

    def setsockopt(self, *a):
        pass

    def getpeername(self):
        return ("127.0.0.1", 40000 + self.fd)

    def getsockopt(self, level, opt, buflen=None):
        if opt == _socket.SO_SNDBUF:
            return self.sndbuf
        if opt == _socket.SO_ERROR:
            w = self.w
            w.sched.yield_(Op("sock_soerr", self.fd))
            self.calls.append(("soerr", self._me()))
            if self.closed:
                w.sched.note("soerr_ans", (self.fd, "kernel-ebadf"))
                raise OSError(errno.EBADF, "closed")
            plan = self.soerr_plan.pop(0) if self.soerr_plan else 0
            if isinstance(plan, tuple):
                w.sched.note("soerr_ans", (self.fd, "ex:" + errtok(plan[1])))
                raise OSError(plan[1], "injected")
            w.sched.note("soerr_ans", (self.fd, "en" if plan else "ez"))
            return plan
        return 0

    def recv(self, n):
        w = self.w
        w.sched.yield_(Op("sock_recv", self.fd))
        self.calls.append(("recv", self._me()))
        if self.closed:
            w.sched.note("recv_ans", (self.fd, "kernel-ebadf"))
            raise OSError(errno.EBADF, "closed")
        k = self.nrecv
        self.nrecv += 1
        if k in self.recv_faults:
            e = self.recv_faults[k]
            w.sched.note("recv_ans", (self.fd, "rx:" + errtok(e)))
            raise OSError(e, "injected")
        if self.rx:
            data = self.rx[0][:n]
            rest = self.rx[0][n:]
            if rest:
                self.rx[0] = rest
            else:
                self.rx.pop(0)
            w.sched.note("recv_ans", (self.fd, "rd"))
            return data
        if self.client_gone:
            w.sched.note("recv_ans", (self.fd, "re"))
            return b""
        w.sched.note("recv_ans", (self.fd, "rx:ewouldblock"))
        raise OSError(errno.EWOULDBLOCK, "would block")

    def send(self, data):
        w = self.w
        w.sched.yield_(Op("sock_send", (self.fd, len(data))))
        self.calls.append(("send", self._me()))
        self.nsend += 1
        if self.closed:
            w.sched.note("send_ans", (self.fd, "kernel-ebadf"))
            raise OSError(errno.EBADF, "closed")
        plan = self.send_plan.pop(0) if self.send_plan else None
        if isinstance(plan, tuple):
            w.sched.note("send_ans", (self.fd, "sx:" + errtok(plan[1])))
            raise OSError(plan[1], "injected")
        if self.client_gone:
            w.sched.note("send_ans", (self.fd, "sx:epipe"))
            raise OSError(errno.EPIPE, "gone")
        n = len(data) if plan is None else min(plan, len(data))
        if not self.client_reading or n == 0:
            w.sched.note("send_ans", (self.fd, "sx:ewouldblock"))
            raise OSError(errno.EWOULDBLOCK, "would block")
        chunk = bytes(data[:n])
        self.wire += chunk
        w.sched.note("send_ans", (self.fd, "sk:%d" % n))
        w.sched.note("wire", (self.fd, n))
        return n

    def close(self):
        self.w.sched.yield_(Op("sock_close", self.fd))
        self.calls.append(("close", self._me()))
        self.closed = True
        self.nclose += 1
        self.w.sched.note("close", self.fd)

    def read_ready(self):
        return bool(self.rx) or self.client_gone or bool(self.recv_faults.get(self.nrecv))

    def write_ready(self):
        return self.client_reading or self.client_gone


class FSelect:
    """select.select / select.poll over the world's descriptors.  Two scheduling
    points per call: "select_call" (always enabled; select refuses a closed
    descriptor with EBADF here) and "select" (enabled when something is ready)."""
    POLLIN, POLLPRI, POLLOUT, POLLERR, POLLHUP, POLLNVAL = 1, 2, 4, 8, 16, 32
    error = OSError

    def __init__(self, world):
        self.w = world

    def _ready(self, r, w_, e):
        W = self.w
        rr, ww, ee = [], [], []
        for fd in r:
            if fd == TRIG_FD:
                if W.trigger.pulled:
                    rr.append(fd)
            elif fd in W.socks and not W.socks[fd].closed and W.socks[fd].read_ready():
                rr.append(fd)
        for fd in w_:
            if fd in W.socks and not W.socks[fd].closed and W.socks[fd].write_ready():
                ww.append(fd)
        for fd in e:
            if fd in W.socks and not W.socks[fd].closed and W.socks[fd].oob:
                ee.append(fd)
        return rr, ww, ee

    def select(self, r, w_, e, timeout=None):
        W = self.w
        W.sched.note("select_asked", (list(r), list(w_), list(e)))
        W.sched.yield_(Op("select_call", None))
        for fd in list(r) + list(w_) + list(e):
            if fd in W.socks and W.socks[fd].closed:
                W.sched.note("select_ebadf", fd)
                raise OSError(errno.EBADF, "Bad file descriptor")
        W.sched.yield_(Op("select", None, enabled=lambda: any(self._ready(r, w_, e)) or W.stopping))
        if W.stopping:
            raise ThreadKilled()
        rr, ww, ee = self._ready(r, w_, e)
        for fd in ee:
            W.socks[fd].oob = False
        W.sched.note("selected", ("sel", rr, ww, ee))
        return rr, ww, ee

    def poll(self):
        outer = self
        W = self.w

        class _P:
            def __init__(self):
                self.reg = {}

            def register(self, fd, flags):
                self.reg[fd] = flags

            def _state(self):
                r = [fd for fd, f in self.reg.items() if f & outer.POLLIN]
                w_ = [fd for fd, f in self.reg.items() if f & outer.POLLOUT]
                rr, ww, ee = outer._ready(r, w_, r)
                hh = [fd for fd in self.reg if fd in W.socks and (W.socks[fd].hup or W.socks[fd].closed)]
                return r, w_, rr, ww, ee, hh

            def poll(self, timeout=None):
                r, w_, _, _, _, _ = self._state()
                W.sched.note("select_asked", (r, w_, r + w_))
                W.sched.yield_(Op("select_call", None))
                W.sched.yield_(Op("select", None, enabled=lambda: any(self._state()[2:]) or W.stopping))
                if W.stopping:
                    raise ThreadKilled()
                _, _, rr, ww, ee, hh = self._state()
                for fd in ee:
                    W.socks[fd].oob = False
                out = {}
                for fd in rr:
                    out[fd] = out.get(fd, 0) | outer.POLLIN
                for fd in ww:
                    out[fd] = out.get(fd, 0) | outer.POLLOUT
                for fd in ee:
                    out[fd] = out.get(fd, 0) | outer.POLLPRI
                for fd in hh:
                    out[fd] = out.get(fd, 0) | (outer.POLLNVAL if W.socks[fd].closed else outer.POLLHUP)
                res = [(fd, out[fd]) for fd in self.reg if fd in out]
                W.sched.note("selected", ("p2", [(fd, fd in rr, fd in ww, fd in ee, fd in hh) for fd, _ in res]))
                return res
        return _P()


class FServer:
    def __init__(self, world, adj, dispatcher):
        self.w = world
        self.adj = adj
        self.active_channels = {}
        self.task_dispatcher = dispatcher
        self.effective_port = 8080
        self.effective_host = "127.0.0.1"
        self.server_name = "localhost"
        self.application = world._app
        self.trigger = world.trigger

    def add_task(self, task):
        fd = self.w.fd_of(task)
        self.w.sched.note("add_task_begin", fd)
        self.task_dispatcher.add_task(task)
        self.w.sched.note("add_task_end", fd)

    def pull_trigger(self):
        self.w.sched.yield_(Op("pull_trigger", None))
        self.w.trigger.pulled = True


class FaultWorld(World):
    """scripts: {fd: client script}; per-fd plans in dicts keyed by fd."""

    def __init__(self, app, scripts, schedule=(), policy=None, adj_kw=None, n_workers=1,
                 send_plans=None, recv_faults=None, soerr_plans=None, use_poll=False, max_steps=20000,
                 sndbuf=1 << 16):
        World.__init__(self, app, [], schedule=schedule, policy=policy, adj_kw=adj_kw, n_workers=n_workers,
                       use_poll=use_poll, max_steps=max_steps, sndbuf=sndbuf)
        self.scripts = {int(fd): list(s) for fd, s in scripts.items()}
        send_plans = send_plans or {}
        recv_faults = recv_faults or {}
        soerr_plans = soerr_plans or {}
        self.socks = {fd: FSock(self, fd, send_plans.get(fd, ()), recv_faults.get(fd), soerr_plans.get(fd, ()), sndbuf)
                      for fd in sorted(self.scripts)}
        self.channels = {}
        self.snaps = []          # abstract state before every scheduled operation
        self.sched.observer = self._observe
        self.app_raises = set()  # PATH_INFO values for which the application raises

    # -- instrumentation ---------------------------------------------------------
    def fd_of(self, ch):
        for fd, c in self.channels.items():
            if c is ch:
                return fd
        return None

    def _app(self, environ, start_response):
        path = environ.get("PATH_INFO")
        self.sched.note("app_call", path)
        if path in self.app_raises:
            self.sched.note("app_raise", self._cur_service.get(self.sched.me().name))
            raise RuntimeError("application failure")
        return self.app_fn(environ, start_response)

    def _make_channel_class(self):
        from waitress.channel import HTTPChannel, ClientDisconnected
        from waitress.task import WSGITask, ErrorTask
        from waitress.parser import HTTPRequestParser
        world = self
        note = world.sched.note
        self._cur_service = {}

        def tname():
            me = world.sched.me()
            return me.name if me else "-"

        class TParser(HTTPRequestParser):
            def received(self, data):
                n = HTTPRequestParser.received(self, data)
                note("parsed", (world._rx_fd, bool(self.expect_continue and self.headers_finished),
                                bool(self.completed), bool(self.empty)))
                return n

        def task_service(cls):
            def service(self):
                fd = world.fd_of(self.channel)
                try:
                    cls.service(self)
                except ClientDisconnected:
                    raise
                except Exception:
                    note("task_exc", (fd, bool(self.wrote_header)))
                    raise
                note("task_done", (fd, bool(self.close_on_finish)))
            return service

        class TTask(WSGITask):
            pass
        TTask.service = task_service(WSGITask)

        class TErrorTask(ErrorTask):
            pass
        TErrorTask.service = task_service(ErrorTask)

        class TChannel(HTTPChannel):
            task_class = TTask
            error_task_class = TErrorTask
            parser_class = TParser
            _in_hclose = ()
            _bufs_closed = False

            def service(self):
                fd = world.fd_of(self)
                world._cur_service[tname()] = fd
                note("service_start", fd)
                try:
                    return HTTPChannel.service(self)
                finally:
                    note("service_end", fd)
                    world._cur_service.pop(tname(), None)

            def received(self, data):
                world._rx_fd = world.fd_of(self)
                note("rx_begin", world._rx_fd)
                try:
                    return HTTPChannel.received(self, data)
                finally:
                    note("rx_end", world._rx_fd)

            def send_continue(self):
                note("send_continue", world.fd_of(self))
                return HTTPChannel.send_continue(self)

            def write_soon(self, data):
                if data:
                    note("write_soon", (world.fd_of(self), len(data)))
                return HTTPChannel.write_soon(self, data)

            def handle_close(self):
                note("hclose", world.fd_of(self))
                me = tname()
                object.__setattr__(self, "_in_hclose", self._in_hclose + (me,))
                try:
                    return HTTPChannel.handle_close(self)
                finally:
                    l = list(self._in_hclose)
                    l.remove(me)
                    object.__setattr__(self, "_in_hclose", tuple(l))

            def del_channel(self, map=None):
                fd = self._fileno
                m = self._map if map is None else map
                in_map = fd in m
                in_act = fd in self.server.active_channels
                r = HTTPChannel.del_channel(self, map)
                myfd = world.fd_of(self)
                if in_map and fd not in m:
                    note("map_del", myfd)
                if in_act and fd not in self.server.active_channels:
                    note("act_del", myfd)
                return r

            def __setattr__(self, name, value):
                object.__setattr__(self, name, value)
                if name == "total_outbufs_len" and value == 0 and self._in_hclose and tname() in self._in_hclose:
                    object.__setattr__(self, "_bufs_closed", True)
                    left = sum(b.__len__() for b in self.outbufs)
                    note("bufs_closed", (world.fd_of(self), left))

        return TChannel

    def _chan_state(self, fd):
        ch = self.channels.get(fd)
        if ch is None:
            return None
        g = lambda n: object.__getattribute__(ch, n)
        sk = self.socks[fd]
        ol = ch.outbuf_lock.lock
        rl = ch.requests_lock
        req = g("request")
        return {
            "in_map": self.map.get(fd) is ch,
            "in_act": self.server.active_channels.get(fd) is ch,
            "fileno": g("_fileno") is not None,
            "sock": "n" if g("socket") is None else ("c" if sk.closed else "o"),
            "conn": bool(g("connected")), "wc": bool(g("will_close")), "cwf": bool(g("close_when_flushed")),
            "bufc": bool(g("_bufs_closed")),
            "pend": g("total_outbufs_len"),
            "buf": sum(b.__len__() for b in g("outbufs")),
            "nreq": len(g("requests")),
            "pexp": bool(req is not None and req.expect_continue and req.headers_finished),
            "sentc": bool(g("sent_continue")),
            "olock": None if ol.owner is None else (ol.owner.name, ol.count),
            "rlock": None if rl.owner is None else rl.owner.name,
            "nclose": sk.nclose, "wire": len(sk.wire),
        }

    def _observe(self, sched, lthread, op):
        if not self.tracing:
            self.snaps.append(None)
            return None
        self.snaps.append({fd: self._chan_state(fd) for fd in self.socks})
        return None

    # -- threads -------------------------------------------------------------------
    def _client_main_for(self, fd):
        def main():
            sk = self.socks[fd]
            for step in self.scripts[fd]:
                kind = step[0]
                if kind == "send":
                    self.sched.yield_(Op("client:send", (fd, len(step[1]))))
                    sk.rx.append(bytes(step[1]))
                elif kind == "close":
                    self.sched.yield_(Op("client:close", fd))
                    sk.client_gone = True
                elif kind == "stall":
                    self.sched.yield_(Op("client:stall", fd))
                    sk.client_reading = False
                elif kind == "resume":
                    self.sched.yield_(Op("client:resume", fd))
                    sk.client_reading = True
                elif kind == "oob":
                    self.sched.yield_(Op("client:oob", fd))
                    sk.oob = True
                elif kind == "hup":
                    self.sched.yield_(Op("client:hup", fd))
                    sk.hup = True
                elif kind == "wait_wire":
                    n = step[1]
                    self.sched.yield_(Op("client:wait_wire", (fd, n), enabled=lambda n=n: len(sk.wire) >= n or sk.closed))
                else:  # pragma: no cover
                    raise ValueError(step)
        return main

    def _io_main(self):
        import waitress.wasyncore as wasyncore
        fn = wasyncore.poll2 if self.use_poll else wasyncore.poll
        try:
            while self.map and not self.stopping:
                fn(None, self.map)
            self.sched.note("io_loop_exit", None)
        except ThreadKilled:
            raise
        except BaseException as e:
            self.io_error = e
            self.sched.note("io_loop_died", repr(e))

    def run(self):
        import waitress.channel as wchannel
        import waitress.task as wtask
        import waitress.wasyncore as wasyncore
        from waitress.adjustments import Adjustments
        fsel = FSelect(self)
        with patched(wchannel, threading=self.ft, time=self.ftime), \
                patched(wtask, threading=self.ft, time=self.ftime), \
                patched(wasyncore, select=fsel, time=self.ftime):
            adj = Adjustments(**self.adj_kw)
            self.adj = adj
            dispatcher = wtask.ThreadedTaskDispatcher()
            self.dispatcher = dispatcher
            self.server = FServer(self, adj, dispatcher)
            self.map[TRIG_FD] = self.trigger
            cls = self._make_channel_class()
            verdict = None
            try:
                def boot():
                    dispatcher.set_thread_count(self.n_workers)
                    for fd in sorted(self.socks):
                        self.channels[fd] = cls(self.server, self.socks[fd], ("127.0.0.1", 40000 + fd), adj, map=self.map)
                    self.lock_names = {}
                    for fd, ch in self.channels.items():
                        self.lock_names[ch.outbuf_lock.lock.name] = ("O", fd)
                        self.lock_names[ch.outbuf_lock.name] = ("O", fd)
                        self.lock_names[ch.requests_lock.name] = ("R", fd)
                    self.tracing = True
                    self.sched.spawn("io", self._io_main)
                    for fd in sorted(self.socks):
                        self.sched.spawn("client%d" % fd, self._client_main_for(fd))
                self.sched.spawn("boot", boot)
                verdict = self.sched.run()
                self.blocked_at_end = self.sched.blocked()
                self.final_snap = {fd: self._chan_state(fd) for fd in self.socks}
                self.final = {
                    "blocked": self.blocked_at_end,
                    "trigger_in_map": self.map.get(TRIG_FD) is self.trigger,
                    "map": sorted(self.map),
                    "active": sorted(self.server.active_channels),
                    "queue": len(dispatcher.queue),
                    "workers_alive": sorted(t.name for t in self.sched.threads
                                            if t.name.startswith("waitress") and not t.done),
                    "workers_dead": sorted(t.name for t in self.sched.threads
                                           if t.name.startswith("waitress") and t.done),
                }
            finally:
                self.tracing = False
                self.stopping = True
                self.sched.kill()
        self.verdict = verdict
        return verdict


# ---------------------------------------------------------------------------------
# from a finished run to model tokens and expectations


class TieError(Exception):
    pass


def _blocks(world):
    """[(index into world.snaps, thread, kind, detail, notes of the block)]"""
    ev = world.sched.events
    ops = sorted(world.sched.snaps)     # indices of the scheduled operations in ev
    out = []
    for k, i in enumerate(ops):
        j = ops[k + 1] if k + 1 < len(ops) else len(ev)
        t, kind, detail = ev[i]
        out.append((k, t, kind, detail, ev[i + 1:j]))
    return out


MODEL_NOTES = {"hclose", "bufs_closed", "map_del", "act_del", "close", "wire", "send_continue", "write_soon",
               "task_done", "task_exc", "app_raise", "parsed", "recv_ans", "send_ans", "soerr_ans", "selected",
               "io_loop_died", "select_ebadf"}


def notes_to_model(notes, tid, items):
    """the environment's answers and the model labels carried by the notes of one block, in order"""
    answers, labels = [], []
    for (_, nk, nd) in notes:
        if nk == "recv_ans":
            a = nd[1]
            if a == "rd":
                a = "rd:" + "".join(items())
            if a != "kernel-ebadf":
                answers.append(a)
        elif nk in ("send_ans", "soerr_ans"):
            if nd[1] != "kernel-ebadf":
                answers.append(nd[1])
        elif nk == "selected":
            if nd[0] == "sel":
                answers.append("sel:%s/%s/%s" % tuple(fds_tok(x) for x in nd[1:]))
            else:
                answers.append("p2:" + ".".join(
                    fdl(fd) + ("i" if i else "") + ("o" if o else "") + ("p" if p_ else "") + ("h" if h else "")
                    for fd, i, o, p_, h in nd[1]))
        elif nk == "accept_ans":
            answers.append(nd)
            if nd.startswith("ac:"):
                labels.append("acc:" + nd[3:])
        elif nk == "setup_ans":
            answers.append(nd[2])
            if nd[2] != "c0" and nd[1] in ("getsockopt", "setblocking"):
                labels.append("sfault:" + FDS[nd[0]])
        elif nk == "chan_added":
            labels.append("add:" + FDS[nd])
        elif nk == "trigger_closed":
            labels += (["mapdel:%s:T" % tid] if nd else []) + ["tclosed"]
        elif nk == "listener_closed":
            labels += (["mapdel:%s:L" % tid] if nd[0] else []) + (["lclosed"] if nd[1] else [])
        elif nk == "bufs_closed":
            answers.append("bl:%d" % nd[1])
            labels.append("bufs:%s:%s" % (tid, FDS[nd[0]]))
        elif nk == "write_soon":
            answers.append("aw:%d" % nd[1])
        elif nk == "task_done":
            answers.append("ad:%d" % int(nd[1]))
        elif nk == "app_raise":
            answers.append("ar")
        elif nk == "task_exc":
            answers.append("k1" if nd[1] else "k0")
        elif nk == "hclose":
            labels.append("hclose:%s:%s" % (tid, FDS[nd]))
        elif nk == "map_del":
            labels.append("mapdel:%s:%s" % (tid, FDS[nd]))
        elif nk == "act_del":
            labels.append("actdel:%s:%s" % (tid, FDS[nd]))
        elif nk == "close":
            labels.append("close:%s:%s" % (tid, FDS[nd]))
        elif nk == "wire":
            labels.append("wire:%s:%d" % (FDS[nd[0]], nd[1]))
        elif nk == "send_continue" and tid != "io":
            labels.append("wcont:%s" % FDS[nd])
        elif nk == "io_loop_died":
            labels.append("died")
        elif nk == "io_loop_exit":
            labels.append("exit")
    return answers, labels


def tokens(world):
    """-> (tokens, expectations): expectations[i] = (labels, snapshot after the block)"""
    blocks = _blocks(world)
    serving = {}          # pool thread -> fd
    in_add = {}           # thread -> fd while inside server.add_task
    toks, exps = [], []
    nsn = len(world.snaps)

    def tid_of(t):
        if t == "io":
            return "io"
        if t in serving:
            return "w" + FDS[serving[t]]
        return None

    # items of a received(): the "parsed" notes of the I/O thread up to rx_end
    def items_from(bi):
        its = []
        for (_, t, _, _, notes) in blocks[bi:]:
            if t != "io":
                continue
            for (_, nk, nd) in notes:
                if nk == "parsed":
                    its.append("%d%d%d" % (int(nd[1]), int(nd[2]), int(nd[3])))
                if nk == "rx_end":
                    return its
        return its

    for bi, (k, t, kind, detail, notes) in enumerate(blocks):
        # bookkeeping that precedes the classification of this block
        took = None
        for (_, nk, nd) in notes:
            if nk == "service_start":
                took = nd
        mk = None          # model kind of the scheduling point
        chan = None
        if t.startswith("client") or t == "boot" or kind in ("thread_start",):
            mk = None
        elif kind == "begin":
            mk = "poll" if t == "io" else None
        elif kind in ("acquire", "release", "try_acquire", "wait", "wake", "notify", "notify_all", "reacquire"):
            name = detail[0] if isinstance(detail, (list, tuple)) else detail
            which = world.lock_names.get(name)
            if which is None:
                # the dispatcher's lock: add_task is one model step (its last operation), a worker
                # taking a channel is one model step (the release before service())
                if kind == "release" and t in in_add:
                    mk = "addtask"
                elif kind == "release" and took is not None:
                    serving[t] = took
                    mk = "take"
                else:
                    mk = None
            else:
                lk, fd = which
                chan = fd
                if lk == "O":
                    mk = {"acquire": "acqO", "release": "relO", "try_acquire": "tryO", "wait": "wait",
                          "wake": "wake", "notify": "notify"}.get(kind)
                else:
                    mk = {"acquire": "acqR", "release": "relR"}.get(kind)
                if mk is None:
                    raise TieError("unexpected lock operation %s on %s" % (kind, name))
        elif kind == "select_call":
            mk = "select"
        elif kind == "select":
            mk = "selwait"
        elif kind == "sock_recv":
            mk = "recv"
        elif kind == "sock_send":
            mk = "send"
        elif kind == "sock_close":
            mk = "sclose"
        elif kind == "sock_soerr":
            mk = "soerr"
        elif kind == "pull_trigger":
            mk = "pull"
        else:
            raise TieError("unknown scheduled operation %r" % (kind,))
        # track add_task brackets and service ends (after classification: the release inside add_task
        # is the last dispatcher operation before add_task_end)
        for (_, nk, nd) in notes:
            if nk == "add_task_begin":
                in_add[t] = nd
            elif nk == "add_task_end":
                in_add.pop(t, None)
        if kind == "release" and mk == "addtask":
            pass
        tid = tid_of(t)
        if mk is None or tid is None:
            bad = [n for n in notes if n[1] in MODEL_NOTES]
            if bad and not (t.startswith("client") or t == "boot"):
                raise TieError("block of %s after %s (not modelled) contains modelled events %r" % (t, kind, bad[:3]))
            for (_, nk, nd) in notes:
                if nk == "service_end":
                    serving.pop(t, None)
            continue
        # answers and labels of the block, in order
        answers, labels = notes_to_model(notes, tid, lambda: items_from(bi))
        for (_, nk, nd) in notes:
            if nk == "service_end":
                serving.pop(t, None)
        toks.append("%s;%s;%s" % (tid, mk, ",".join(answers) or "-"))
        snap = world.snaps[k + 1] if k + 1 < nsn else world.final_snap
        exps.append((labels, snap, (t, kind)))
    return toks, exps


def _norm_model_labels(field):
    out = []
    for l in ([] if field == "-" else field.split(",")):
        if l.startswith("caught:"):
            continue
        if l.startswith("died:"):
            l = "died"
        out.append(l)
    return out


def _parse_digest(d):
    out = {}
    for part in d.split(" "):
        k, _, v = part.partition("=")
        out[k] = v
    res = {}
    for c in "AB":
        f = out[c].split(",")
        flags = f[0]
        res[c] = {
            "in_map": flags[2] == "1", "in_act": flags[3] == "1", "fileno": flags[4] == "1", "sock": flags[5],
            "conn": flags[6] == "1", "wc": flags[7] == "1", "cwf": flags[8] == "1", "bufc": flags[9] == "1",
            "pend": int(f[1]), "buf": int(f[2]), "nreq": int(f[3]),
            "pexp": f[4][0] == "1", "sentc": f[4][1] == "1",
            "olock": f[5], "rlock": f[6], "nclose": int(f[8]), "wire": int(f[9]),
        }
    res["dead"] = out["D"] == "1"
    return res


def _lock_tok(world_names, v, with_count):
    if v is None:
        return "-"
    name = v[0] if with_count else v
    return name


def compare(world, toks, exps, answers_line):
    """answers_line: the runner's answer for `run ... toks`.  -> None or a description of the first difference"""
    fields = answers_line.split("|")
    if len(fields) != len(toks):
        return "runner answered %d fields for %d tokens" % (len(fields), len(toks))
    serving_name = {}
    for i, (f, tok, (labels, snap, where)) in enumerate(zip(fields, toks, exps)):
        if f.startswith("X:"):
            return "token %d %s (real: %s): model refuses: %s" % (i, tok, where, f)
        lab, _, dig = f.partition(";")
        got = _norm_model_labels(lab)
        if got != labels:
            return "token %d %s (real: %s): labels model=%r real=%r" % (i, tok, where, got, labels)
        if snap is None:
            continue
        d = _parse_digest(dig)
        for fd, st in snap.items():
            if st is None:
                continue
            m = d[FDS[fd]]
            for key in ("in_map", "in_act", "fileno", "sock", "conn", "wc", "cwf", "bufc", "pend", "buf", "nreq",
                        "pexp", "sentc", "nclose", "wire"):
                if m[key] != st[key]:
                    return "token %d %s (real: %s): channel %s field %s model=%r real=%r" % (
                        i, tok, where, FDS[fd], key, m[key], st[key])
            if (m["olock"] == "-") != (st["olock"] is None):
                return "token %d %s (real: %s): channel %s outbuf_lock model=%r real=%r" % (
                    i, tok, where, FDS[fd], m["olock"], st["olock"])
            if st["olock"] is not None:
                want_io = st["olock"][0] == "io"
                if (m["olock"].startswith("io/")) != want_io or int(m["olock"].split("/")[1]) != st["olock"][1]:
                    return "token %d %s: channel %s outbuf_lock owner/depth model=%r real=%r" % (
                        i, tok, FDS[fd], m["olock"], st["olock"])
            if (m["rlock"] == "-") != (st["rlock"] is None):
                return "token %d %s (real: %s): channel %s requests_lock model=%r real=%r" % (
                    i, tok, where, FDS[fd], m["rlock"], st["rlock"])
    return None


def run_line(world, toks, nchan):
    adj = world.adj
    return "run %d %d %d %d %d y %d %s" % (
        adj.channel_request_lookahead, adj.send_bytes, adj.outbuf_high_watermark, world.socks[7].sndbuf,
        1 if world.use_poll else 0, nchan, " ".join(toks))


# ---------------------------------------------------------------------------------
# the listener world (single-threaded): real TcpWSGIServer + real trigger


class _Me:
    name = "io"


class NullSched:
    """Stands in for the scheduler where there is one thread: notes are recorded,
    scheduling points are no-ops."""

    def __init__(self):
        self.events = []
        self._me = _Me()

    def me(self):
        return self._me

    def note(self, kind, detail=None):
        self.events.append((self._me.name, kind, detail))

    def yield_(self, op):
        pass


class LSock(FSock):
    """An accepted socket whose set-up calls can fail: setup_faults maps
    "setsockopt" / "getsockopt" / "setblocking" to an errno."""

    def __init__(self, world, fd, setup_faults=None, **kw):
        FSock.__init__(self, world, fd, **kw)
        self.setup_faults = dict(setup_faults or {})

    def _setup(self, call):
        e = self.setup_faults.get(call)
        self.w.sched.note("setup_ans", (self.fd, call, "c0" if e is None else "cx:" + errtok(e)))
        if e is not None:
            raise OSError(e, "injected " + call)

    def setblocking(self, flag):
        self._setup("setblocking")

    def setsockopt(self, *a):
        self._setup("setsockopt")

    def getsockopt(self, level, opt, buflen=None):
        if opt == _socket.SO_SNDBUF:
            self._setup("getsockopt")
            return self.sndbuf
        return FSock.getsockopt(self, level, opt, buflen)


class ListenSock:
    def __init__(self, world, fd=100):
        self.w = world
        self.fd = fd
        self.backlog = []
        self.closed = False

    def fileno(self):
        return self.fd

    def setblocking(self, f):
        pass

    def getsockopt(self, *a):
        return 0

    def setsockopt(self, *a):
        pass

    def bind(self, addr):
        pass

    def listen(self, n):
        pass

    def getsockname(self):
        return ("127.0.0.1", 8080)

    def accept(self):
        if not self.backlog:
            self.w.sched.note("accept_ans", "ax:ewouldblock")
            raise OSError(errno.EWOULDBLOCK, "would block")
        c = self.backlog.pop(0)
        if isinstance(c, int):
            self.w.sched.note("accept_ans", "ax:" + errtok(c))
            raise OSError(c, "injected accept")
        self.w.sched.note("accept_ans", "ac:" + FDS[c.fd])
        return c, ("127.0.0.1", 40000 + c.fd)

    def close(self):
        self.closed = True


class _Queue:
    def __init__(self):
        self.queue = []

    def add_task(self, task):
        self.queue.append(task)

    def shutdown(self, *a, **kw):
        return True

    def set_thread_count(self, n):
        pass


class ListenerWorld(FaultWorld):
    """steps: ("connect", setup_faults | None) | ("accept_err", errno) | ("send", fd, bytes) | ("close", fd)
             | ("oob", fd) | ("plan", fd, send_plan, recv_faults, soerr_plan) | ("turn",) | ("serve", fd)"""

    def __init__(self, app, steps, adj_kw=None, sndbuf=4096):
        self.app_fn = app
        self.steps = list(steps)
        self.sched = NullSched()
        self.adj_kw = dict(adj_kw or {})
        self.sndbuf = sndbuf
        self.socks = {}
        self.channels = {}
        self.map = {}
        self.app_raises = set()
        self.use_poll = False
        self.tracing = True
        self.stopping = False
        self.trigger = None
        self.io_error = None

    def _observe(self, *a):
        return None

    def _chan_state(self, fd):
        ch = self.channels.get(fd)
        if ch is None:
            return None
        g = lambda n: object.__getattribute__(ch, n)
        sk = self.socks[fd]
        req = g("request")
        return {
            "in_map": self.map.get(fd) is ch,
            "in_act": self.server.active_channels.get(fd) is ch,
            "fileno": g("_fileno") is not None,
            "sock": "n" if g("socket") is None else ("c" if sk.closed else "o"),
            "conn": bool(g("connected")), "wc": bool(g("will_close")), "cwf": bool(g("close_when_flushed")),
            "bufc": bool(g("_bufs_closed")),
            "pend": g("total_outbufs_len"),
            "buf": sum(b.__len__() for b in g("outbufs")),
            "nreq": len(g("requests")),
            "pexp": bool(req is not None and req.expect_continue and req.headers_finished),
            "sentc": bool(g("sent_continue")),
            "olock": None, "rlock": None,
            "nclose": sk.nclose, "wire": len(sk.wire),
        }

    def srv_state(self):
        srv = self.server
        return {"lst_in_map": self.map.get(100) is srv, "trg_in_map": srv.trigger in self.map.values(),
                "lst_open": not self.lsock.closed, "trg_open": not srv.trigger._closed}

    def run(self):
        """-> (tokens, expectations)"""
        import threading
        import time
        import waitress.channel as wchannel
        import waitress.server as wserver
        import waitress.wasyncore as wasyncore
        from waitress.adjustments import Adjustments
        world = self
        note = self.sched.note
        self.ft = threading
        cls = self._make_channel_class()
        self.lsock = ListenSock(self)

        class TChan(cls):
            def add_channel(self, map=None):
                fd = self._fileno
                world.channels[fd] = self
                r = cls.add_channel(self, map)
                note("chan_added", fd)
                return r

        class TServer(wserver.TcpWSGIServer):
            channel_class = TChan

            def set_socket_options(self, conn):
                conn.setsockopt(_socket.SOL_TCP, _socket.TCP_NODELAY, 1)

            def close(self):
                trg_was = (not self.trigger._closed, self.trigger._fileno in self._map)
                lst_was = (self._map.get(100) is self, not world.lsock.closed)
                if trg_was[0]:
                    pass
                r = wserver.TcpWSGIServer.close(self)
                if trg_was[0]:
                    note("trigger_closed", trg_was[1])
                note("listener_closed", lst_was)
                return r

        class Sel:
            error = OSError

            def select(self_, r, w_, e, timeout=None):
                trg = world.server.trigger._fileno
                rr, ww, ee = [], [], []
                for fd in r:
                    if fd == 100:
                        if world.lsock.backlog:
                            rr.append(fd)
                    elif fd in world.socks:
                        if world.socks[fd].read_ready():
                            rr.append(fd)
                    elif fd == trg:
                        import select as _s
                        if _s.select([fd], [], [], 0)[0]:
                            rr.append(fd)
                for fd in w_:
                    if fd in world.socks and world.socks[fd].write_ready():
                        ww.append(fd)
                for fd in e:
                    if fd in world.socks and world.socks[fd].oob:
                        ee.append(fd)
                        world.socks[fd].oob = False
                nm = lambda l: [("T" if fd == trg else fd) for fd in l]
                note("selected", ("sel", nm(rr), nm(ww), nm(ee)))
                return rr, ww, ee

        adj = Adjustments(**self.adj_kw)
        self.adj = adj
        self.dispatcher = _Queue()
        toks, exps = [], []
        with patched(wasyncore, select=Sel()):
            self.server = TServer(self._app, map=self.map, _sock=self.lsock, dispatcher=self.dispatcher, adj=adj,
                                  sockinfo=(_socket.AF_INET, _socket.SOCK_STREAM, None, ("127.0.0.1", 8080)))
            try:
                next_fd = 7
                for step in self.steps:
                    kind = step[0]
                    if kind == "connect":
                        if next_fd > 8:
                            continue
                        sk = LSock(self, next_fd, setup_faults=step[1], sndbuf=self.sndbuf)
                        self.socks[next_fd] = sk
                        self.lsock.backlog.append(sk)
                        next_fd += 1
                    elif kind == "accept_err":
                        self.lsock.backlog.append(step[1])
                    elif kind == "send":
                        if step[1] in self.socks:
                            self.socks[step[1]].rx.append(bytes(step[2]))
                    elif kind == "close":
                        if step[1] in self.socks:
                            self.socks[step[1]].client_gone = True
                    elif kind == "oob":
                        if step[1] in self.socks:
                            self.socks[step[1]].oob = True
                    elif kind == "plan":
                        if step[1] in self.socks:
                            sk = self.socks[step[1]]
                            sk.send_plan = list(step[2] or [])
                            sk.recv_faults = {int(k) + sk.nrecv: v for k, v in dict(step[3] or {}).items()}
                            sk.soerr_plan = list(step[4] or [])
                    elif kind == "turn":
                        mark = len(self.sched.events)
                        if self.map:
                            try:
                                wasyncore.poll(0.0, self.map)
                            except BaseException as e:  # the loop would have died
                                self.io_error = e
                                note("io_loop_died", repr(e))
                        else:
                            # `while map:` ends the loop; the model has said so already (label exit)
                            continue
                        notes = self.sched.events[mark:]
                        its = ["%d%d%d" % (int(nd[1]), int(nd[2]), int(nd[3])) for (_, nk, nd) in notes if nk == "parsed"]
                        # several recv per turn: split the items at the rx_end marks
                        groups, cur = [], []
                        for (_, nk, nd) in notes:
                            if nk == "parsed":
                                cur.append("%d%d%d" % (int(nd[1]), int(nd[2]), int(nd[3])))
                            elif nk == "rx_end":
                                groups.append(cur)
                                cur = []
                        gi = iter(groups)
                        answers, labels = notes_to_model(notes, "io", lambda: next(gi))
                        toks.append("io;-;%s" % (",".join(answers) or "-"))
                        exps.append((labels, {fd: self._chan_state(fd) for fd in self.socks}, ("turn", self.srv_state())))
                        if self.io_error is not None:
                            break
                    elif kind == "serve":
                        fd = step[1]
                        ch = self.channels.get(fd)
                        if ch is None or ch not in self.dispatcher.queue:
                            continue
                        self.dispatcher.queue.remove(ch)
                        mark = len(self.sched.events)
                        self.sched._me = type("M", (), {"name": "w" + FDS[fd]})()
                        try:
                            ch.service()
                        except BaseException as e:
                            note("service_exc", repr(e))
                        finally:
                            self.sched._me = _Me()
                        notes = self.sched.events[mark:]
                        answers, labels = notes_to_model(notes, "w" + FDS[fd], lambda: [])
                        toks.append("w%s;take;%s" % (FDS[fd], ",".join(answers) or "-"))
                        exps.append((labels, {f: self._chan_state(f) for f in self.socks}, ("serve", self.srv_state())))
                self.final = {"srv": self.srv_state(), "map": sorted(str(k) for k in self.map)}
            finally:
                try:
                    self.server.trigger.close()
                except Exception:
                    pass
                for ch in list(self.channels.values()):
                    try:
                        for b in ch.outbufs:
                            b.close()
                    except Exception:
                        pass
        return toks, exps


def run_line_listener(world, toks):
    adj = world.adj
    return "run %d %d %d %d 0 a 0 %s" % (
        adj.channel_request_lookahead, adj.send_bytes, adj.outbuf_high_watermark, world.sndbuf, " ".join(toks))


def compare_listener(toks, exps, answers_line):
    fields = answers_line.split("|")
    if len(fields) != len(toks):
        return "runner answered %d fields for %d tokens" % (len(fields), len(toks))
    for i, (f, tok, (labels, snap, (what, srv))) in enumerate(zip(fields, toks, exps)):
        if f.startswith("X:"):
            return "token %d %s: model refuses: %s" % (i, tok, f)
        lab, _, dig = f.partition(";")
        got = [l for l in _norm_model_labels(lab) if l != "exit"]
        if got != labels:
            return "token %d %s: labels model=%r real=%r" % (i, tok, got, labels)
        d = _parse_digest(dig)
        parts = dict(p.partition("=")[::2] for p in dig.split(" "))
        L = parts["L"]
        msrv = {"lst_in_map": L[0] == "1", "trg_in_map": L[1] == "1", "lst_open": L[2] == "1", "trg_open": L[3] == "1"}
        if msrv != srv:
            return "token %d %s: server state model=%r real=%r" % (i, tok, msrv, srv)
        for fd, st in snap.items():
            if st is None:
                continue
            m = d[FDS[fd]]
            for key in ("in_map", "in_act", "fileno", "sock", "conn", "wc", "cwf", "bufc", "pend", "buf", "nreq",
                        "pexp", "sentc", "nclose", "wire"):
                if m[key] != st[key]:
                    return "token %d %s: channel %s field %s model=%r real=%r" % (i, tok, FDS[fd], key, m[key], st[key])
    return None
