"""Shared machinery of the /verif checks: translators, Coq build, extraction
and OCaml runners, known findings, replays and evidence files."""
import fcntl
import glob
import hashlib
import json
import os
import random
import re
import shutil
import subprocess
import sys
import time

VERIF = os.path.dirname(os.path.dirname(os.path.abspath(__file__)))
REPO = os.environ.get("WAITRESS_REPO", "/repo")
SRC = os.path.join(REPO, "src")
PY = "/venv/bin/python"
COQ = os.path.join(VERIF, "coq")
BUILD = os.path.join(VERIF, "_build")
WORK = os.path.join(VERIF, "_work")
NPROC = os.cpu_count() or 4

COQ_DIRS = ["Lib", "Gen", "Model", "Spec", "Proof", "Props"]
FORBIDDEN = re.compile(
    r"\b(Admitted|admit|Axiom|Axioms|Parameter|Parameters|Conjecture|Conjectures|Hypothesis|Hypotheses|Variable|Variables"
    r"|bypass_check)\b|Unset\s+Guard|Unset\s+Positivity|Unset\s+Universe|Admit\s+Obligations|type-in-type|impredicative-set"
)
ALLOWED_AXIOMS = set()  # the development is intended to be axiom free

TRUSTED_BASE_COMMON = [
    "Coq 8.16.1 kernel (coqc); vm_compute is used by the reflective proofs, native_compute is not; no -type-in-type / -impredicative-set, no guard/positivity/universe switch",
    "axioms: none -- Print Assumptions of every property theorem must say 'Closed under the global context' (checked on every run)",
    "the translators under /verif/translate (Python ast / CPython re._parser) that regenerate coq/Gen/*.v from /repo on every run",
    "extraction: ExtrOcamlBasic only (bool, option, unit, list, prod, sumbool, sumor mapped to OCaml; andb/orb inlined); N, Z, positive, nat stay inductive; OCaml drivers + ocamlfind ocamlopt are trusted for the correspondence only",
    "the correspondence harness (generators, canonicalisers, fakes) decides whether the hand-written model speaks for the code; its coverage is sampled and reported here",
    "modelled, not verified: CPython (bytes/str/int/dict/re), the kernel's sockets, logging",
]


def sh(cmd, timeout=600, cwd=None, env=None, input=None):
    e = dict(os.environ)
    if env:
        e.update(env)
    try:
        p = subprocess.run(
            cmd, shell=isinstance(cmd, str), cwd=cwd, env=e, input=input,
            stdout=subprocess.PIPE, stderr=subprocess.STDOUT, timeout=timeout, text=True,
        )
        return p.returncode, p.stdout
    except subprocess.TimeoutExpired as ex:
        out = ex.stdout or ""
        if isinstance(out, bytes):
            out = out.decode("latin-1")
        return 124, out + "\n[timeout after %ss]" % timeout


class Lock:
    def __init__(self, name):
        os.makedirs(BUILD, exist_ok=True)
        self.path = os.path.join(BUILD, name + ".lock")

    def __enter__(self):
        self.f = open(self.path, "w")
        fcntl.flock(self.f, fcntl.LOCK_EX)
        return self

    def __exit__(self, *a):
        fcntl.flock(self.f, fcntl.LOCK_UN)
        self.f.close()


def py_env():
    return {
        "PYTHONPATH": SRC + ":" + VERIF,
        "PYTHONHASHSEED": "0",
        "WAITRESS_REPO": REPO,
        "PYTHONDONTWRITEBYTECODE": "1",
    }


# ----------------------------------------------------------------------------
# translators


TRANSLATORS = {
    "GenRegex": "translate/gen_regex.py",
    "GenTables": "translate/gen_tables.py",
    "GenPreds": "translate/gen_preds.py",
    "GenAdjust": "translate/gen_adjust.py",
}


def run_translators(which=None):
    """Regenerate coq/Gen/*.v from /repo's working tree.  Returns the list of
    problems (strings) the translators reported."""
    problems = []
    with Lock("gen"):
        for name, script in TRANSLATORS.items():
            if which is not None and name not in which:
                continue
            path = os.path.join(VERIF, script)
            if not os.path.exists(path):
                continue
            out = os.path.join(COQ, "Gen", name + ".v")
            rc, txt = sh([PY, path, out], timeout=120, env=py_env())
            for line in txt.splitlines():
                if line.startswith("TRANSLATOR-PROBLEM"):
                    problems.append(line)
            if rc != 0:
                problems.append("TRANSLATOR-PROBLEM %s: exit %d: %s" % (name, rc, txt[-400:]))
    return problems


# ----------------------------------------------------------------------------
# Coq


def coq_files():
    files = []
    for d in COQ_DIRS:
        files += sorted(glob.glob(os.path.join(COQ, d, "*.v")))
    return [os.path.relpath(f, COQ) for f in files]


def ensure_makefile():
    files = coq_files()
    proj = "-Q . WV\n-arg -w -arg -deprecated-since-8.16,-abstract-large-number\n" + "\n".join(files) + "\n"
    pp = os.path.join(COQ, "_CoqProject")
    old = open(pp).read() if os.path.exists(pp) else None
    if old != proj or not os.path.exists(os.path.join(COQ, "Makefile")):
        open(pp, "w").write(proj)
        rc, out = sh("coq_makefile -f _CoqProject -o Makefile", cwd=COQ, timeout=60)
        if rc != 0:
            raise RuntimeError("coq_makefile failed: " + out)


def _strip_comments(txt):
    depth = 0
    out = []
    i = 0
    while i < len(txt):
        if txt.startswith("(*", i):
            depth += 1
            i += 2
        elif txt.startswith("*)", i) and depth > 0:
            depth -= 1
            i += 2
        else:
            if depth == 0:
                out.append(txt[i])
            i += 1
    return "".join(out)


def cone_of(vfile):
    """The .v files (relative to coq/) that vfile transitively Requires from
    this development (logical prefix WV)."""
    seen = []
    todo = [vfile]
    while todo:
        f = todo.pop()
        if f in seen or not os.path.exists(os.path.join(COQ, f)):
            continue
        seen.append(f)
        code = _strip_comments(open(os.path.join(COQ, f)).read())
        for m in re.finditer(r"From\s+WV\s+Require\s+(?:Import|Export)?\s*([^.]*(?:\.[A-Za-z_][^.]*)*?)\.(?:\s|$)", code):
            for name in m.group(1).split():
                todo.append(name.replace(".", "/") + ".v")
        for m in re.finditer(r"Require\s+(?:Import|Export)?\s+((?:WV\.[\w.]+\s*)+)\.(?:\s|$)", code):
            for name in m.group(1).split():
                todo.append(name[3:].replace(".", "/") + ".v")
    return seen


def grep_gate(files=None):
    """No Admitted/admit/Axiom/Parameter/... in the given files (default: the
    whole development)."""
    bad = []
    if files is None:
        files = []
        for d in COQ_DIRS + ["Extract", "Findings"]:
            files += sorted(glob.glob(os.path.join(COQ, d, "*.v")))
    else:
        files = [os.path.join(COQ, f) for f in files]
    for f in files:
        if not os.path.exists(f):
            continue
        code = _strip_comments(open(f).read())
        for m in FORBIDDEN.finditer(code):
            # Section-local Variable/Hypothesis are allowed only inside a Section
            word = m.group(0)
            if word.split()[0] in ("Variable", "Variables", "Hypothesis", "Hypotheses"):
                before = code[: m.start()]
                if len(re.findall(r"\bSection\s+\w+", before)) > len(re.findall(r"\bEnd\s+\w+", before)):
                    continue
            bad.append("%s: %s" % (os.path.relpath(f, VERIF), word))
    return bad


def coq_make(targets, timeout=1500):
    """make the given .vo targets (paths relative to coq/).  Returns
    (ok, failing_file, log)."""
    with Lock("coq"):
        ensure_makefile()
        rc, out = sh(
            ["timeout", str(timeout), "make", "-j%d" % NPROC, "-k"] + list(targets),
            cwd=COQ, timeout=timeout + 30,
        )
    failing = None
    m = re.search(r'File "\./([^"]+)", line (\d+)', out)
    if rc != 0:
        if m:
            failing = m.group(1)
        else:
            failing = "?"
    return rc == 0, failing, out


def coq_compile_capture(vfile, timeout=600):
    """Compile one file again, separately, to capture what it prints
    (Print Assumptions).  Dependencies must be built already."""
    d = os.path.join(BUILD, "tmp", "cap%d" % os.getpid())
    os.makedirs(d, exist_ok=True)
    out_vo = os.path.join(d, os.path.basename(vfile) + "o")
    rc, out = sh(["timeout", str(timeout), "coqc", "-Q", ".", "WV", "-w", "-deprecated-since-8.16,-abstract-large-number", "-o", out_vo, vfile], cwd=COQ, timeout=timeout + 30)
    shutil.rmtree(d, ignore_errors=True)
    return rc == 0, out


def parse_assumptions(out):
    """-> (n_closed, list_of_axiom_blocks)"""
    closed = out.count("Closed under the global context")
    axioms = []
    for m in re.finditer(r"Axioms:\n((?:.+\n)+?)(?=\S|\Z)", out):
        axioms.append(m.group(1).strip())
    return closed, axioms


def theorem_names(vfile):
    txt = open(os.path.join(COQ, vfile)).read()
    return re.findall(r"^\s*Theorem\s+(\w+)", txt, flags=re.M)


# ----------------------------------------------------------------------------
# extraction + OCaml runners


def build_runner(comp, extract_v, timeout=900):
    """Extract coq/Extract/<extract_v> into ocaml/<comp>/model.ml and build
    ocaml/<comp>/runner.  The Coq dependencies must be built.  Returns
    (path|None, log)."""
    d = os.path.join(VERIF, "ocaml", comp)
    with Lock("ocaml-" + comp):
        srcs = [os.path.join(COQ, "Extract", extract_v), os.path.join(d, "driver.ml"),
                os.path.join(VERIF, "ocaml", "common", "wvio.ml")]
        # dependency stamp: all .vo files under coq (cheap) + sources
        h = hashlib.sha1()
        for f in srcs:
            h.update(open(f, "rb").read())
        for f in sorted(glob.glob(os.path.join(COQ, "*", "*.vo"))):
            if "/Props/" in f or "/Proof/" in f:
                continue
            st = os.stat(f)
            h.update(("%s:%d:%d" % (f, st.st_size, st.st_mtime_ns)).encode())
        stamp = os.path.join(d, ".stamp")
        runner = os.path.join(d, "runner")
        if os.path.exists(runner) and os.path.exists(stamp) and open(stamp).read() == h.hexdigest():
            return runner, "up to date"
        log = ""
        sh("cp ../common/wvio.ml .", cwd=d)
        tmpd = os.path.join(BUILD, "tmp", "ext_%s_%d" % (comp, os.getpid()))
        os.makedirs(tmpd, exist_ok=True)
        tmpvo = os.path.join(tmpd, extract_v + "o")
        rc, out = sh(["timeout", str(timeout), "coqc", "-Q", COQ, "WV", "-w", "-deprecated-since-8.16,-abstract-large-number,-extraction", "-o", tmpvo, srcs[0]], cwd=d, timeout=timeout + 30)
        log += out
        shutil.rmtree(tmpd, ignore_errors=True)
        if rc != 0:
            return None, log
        # build under a private name and rename: a check of another tier / another
        # process may be executing the old binary at this very moment
        tmpbin = "runner.new.%d" % os.getpid()
        rc, out = sh("ocamlfind ocamlopt -O3 -w -a model.mli model.ml wvio.ml driver.ml -o %s 2>&1 || ocamlfind ocamlopt -w -a model.mli model.ml wvio.ml driver.ml -o %s" % (tmpbin, tmpbin), cwd=d, timeout=timeout)
        log += out
        if rc != 0 or not os.path.exists(os.path.join(d, tmpbin)):
            return None, log
        os.replace(os.path.join(d, tmpbin), runner)
        open(stamp, "w").write(h.hexdigest())
        return runner, log


class Runner:
    """Line-oriented conversation with an extracted-model runner."""

    def __init__(self, path):
        self.path = path

    def query(self, lines, timeout=900):
        if not lines:
            return []
        inp = "\n".join(lines) + "\n"
        p = subprocess.run([self.path], input=inp, stdout=subprocess.PIPE, stderr=subprocess.PIPE,
                           timeout=timeout, text=True, env={"OCAMLRUNPARAM": "l=8G"})
        out = p.stdout.split("\n")
        if out and out[-1] == "":
            out.pop()
        if len(out) != len(lines):
            raise RuntimeError("runner %s answered %d lines for %d queries (rc=%s, stderr=%s)" % (
                self.path, len(out), len(lines), p.returncode, p.stderr[-300:]))
        return out


def hexb(b):
    return b.hex() if b else "-"


def unhexb(s):
    return b"" if s == "-" else bytes.fromhex(s)


# ----------------------------------------------------------------------------
# known findings


def known_findings(prop):
    path = os.path.join(VERIF, "KNOWN_FINDINGS.txt")
    out = []
    if not os.path.exists(path):
        return out
    for line in open(path):
        line = line.strip()
        if not line.startswith("finding:"):
            continue
        head, _, text = line[len("finding:"):].partition("::")
        kv = dict(t.split("=", 1) for t in head.split() if "=" in t)
        if kv.get("property") == prop:
            kv["text"] = text.strip()
            out.append(kv)
    return out


# ----------------------------------------------------------------------------
# the per-run context


class Ctx:
    def __init__(self, prop, tier, seed):
        self.prop = prop
        self.tier = tier
        self.seed = seed
        self.rng = random.Random(seed)
        self.t0 = time.time()
        self.obligations = []  # (name, ok, detail)
        self.violations = []   # dicts
        self.known_printed = []
        self.coverage = {}
        self.assumptions = []
        self.checker_cmds = []
        self.notes = []

    # -- obligations
    def oblige(self, name, ok, detail=""):
        self.obligations.append((name, bool(ok), detail))
        return bool(ok)

    # -- standard pipeline pieces
    def translate(self, which=None):
        probs = run_translators(which)
        self.oblige("translators accept the source", not probs, "; ".join(probs))
        return probs

    def gate(self, extra=()):
        """Grep gate over everything the property's theorems depend on (the
        Require cone of Props/<prop>.v), the Extract and Findings files, and any
        extra files named by the check.  tools/gate_all.py applies the same gate
        to the whole development."""
        cone = cone_of("Props/%s.v" % self.prop)
        for e in extra:
            cone += [f for f in cone_of(e) if f not in cone]
        others = [os.path.relpath(f, COQ) for d in ("Extract", "Findings") for f in sorted(glob.glob(os.path.join(COQ, d, "*.v")))]
        bad = grep_gate(cone + [f for f in others if f not in cone])
        self.coverage["gate_files"] = len(cone)
        self.oblige("no Admitted/admit/Axiom/Parameter/... in the %d files the theorems depend on (nor in Extract/, Findings/)" % len(cone), not bad, "; ".join(bad))
        return bad

    def build(self, targets):
        ok, failing, log = coq_make(targets)
        self.checker_cmds.append("make -C coq -j%d %s" % (NPROC, " ".join(targets)))
        self.last_build_log = log
        return ok, failing, log

    def props(self, vfile=None):
        """Build Props/<prop>.v and everything under it, capture Print
        Assumptions.  One obligation per Theorem in the file."""
        vfile = vfile or "Props/%s.v" % self.prop
        names = theorem_names(vfile)
        ok, failing, log = self.build([vfile + "o"])
        if not ok:
            tail = "\n".join(log.strip().splitlines()[-12:])
            for n in names:
                self.oblige("theorem %s" % n, False, "build failed in %s" % failing)
            self.notes.append("coq build failed in %s:\n%s" % (failing, tail))
            return False, failing, log
        ok2, out = coq_compile_capture(vfile)
        self.checker_cmds.append("coqc -Q . WV %s  (Print Assumptions captured)" % vfile)
        closed, axioms = parse_assumptions(out)
        self.assumptions = ["%s: Closed under the global context" % n for n in names[:closed]]
        for a in axioms:
            self.assumptions.append("AXIOMS: " + a)
        all_closed = ok2 and closed == len(names) and not axioms
        for n in names:
            self.oblige("theorem %s (Qed, closed under the global context)" % n, all_closed,
                        "" if all_closed else "Print Assumptions: closed=%d of %d, axioms=%r" % (closed, len(names), axioms))
        if all_closed and self.tier == "thorough":
            # independent re-check of the compiled cone and of the axioms it relies on
            mod = "WV." + vfile[:-2].replace("/", ".")
            rc, chk = sh(["timeout", "1500", "coqchk", "-silent", "-Q", ".", "WV", "-o", mod], cwd=COQ, timeout=1600)
            self.checker_cmds.append("coqchk -silent -Q . WV -o %s" % mod)
            m = re.search(r"\* Axioms:(.*?)\n\s*\n\* Constants", chk, flags=re.S)
            ax = m.group(1).strip() if m else "?"
            okc = rc == 0 and ax == "<none>"
            self.assumptions.append("coqchk -o %s: axioms %s" % (mod, ax))
            self.oblige("coqchk re-checks %s and its dependencies; axioms: none" % mod, okc,
                        "" if okc else chk[-600:])
        return all_closed, None, out

    def findings(self, vfiles):
        """Compile coq/Findings/*.v witnesses of open known findings separately.
        A failure is a note (the finding stopped reproducing in the model), never
        a violation."""
        for vf in vfiles:
            ok, out = coq_compile_capture(vf)
            self.coverage.setdefault("findings_witnesses", {})[vf] = "compiles (finding still reproduces in the model)" if ok else "does NOT compile: " + out[-300:]
            if not ok:
                self.notes.append("finding witness %s no longer compiles (note, not a violation)" % vf)

    def runner(self, comp, extract_v):
        path, log = build_runner(comp, extract_v)
        self.checker_cmds.append("coqc Extract/%s (ExtrOcamlBasic) && ocamlfind ocamlopt -> ocaml/%s/runner" % (extract_v, comp))
        if path is None:
            self.notes.append("runner %s failed to build:\n%s" % (comp, log[-1500:]))
            return None
        return Runner(path)

    # -- violations
    def report(self, key, what, replay, kf_class=None):
        """Record a violation.  `key` is a short stable identifier of *what
        fails* (used for de-duplication), `replay` a JSON-able dict.  If
        kf_class names the class of an open known finding of this property the
        violation is printed as KNOWN-FINDING instead."""
        self.violations.append({"key": key, "what": what, "replay": replay, "kf_class": kf_class})

    def finish(self, level="proof", extra_assumptions=None):
        os.makedirs(os.path.join(VERIF, "evidence"), exist_ok=True)
        os.makedirs(os.path.join(VERIF, "replays"), exist_ok=True)
        kfs = known_findings(self.prop)
        kf_classes = {k.get("class"): k for k in kfs}
        nviol = 0
        seen = set()
        lines = []
        MAXV = 5
        def vsize(v):
            r = v["replay"]
            return (0 if r.get("failing_input_found", True) else 1, len(json.dumps(r)))
        for v in sorted(self.violations, key=vsize):
            dk = (v["key"], v["kf_class"] if (v["kf_class"] and v["kf_class"] in kf_classes) else None)
            if dk in seen:
                continue
            if nviol >= MAXV and not (v["kf_class"] and v["kf_class"] in kf_classes):
                nviol += 1
                continue
            seen.add(dk)
            if v["kf_class"] and v["kf_class"] in kf_classes:
                k = kf_classes[v["kf_class"]]
                tag = "KNOWN-FINDING: property=%s %s" % (self.prop, k["text"])
                if tag not in lines:
                    lines.append(tag)
                continue
            nviol += 1
            body = dict(v["replay"])
            body.setdefault("property", self.prop)
            body.setdefault("what", v["what"])
            body.setdefault("replay_cmd", "cd /verif && ./check %s --replay <this file>" % self.prop)
            blob = json.dumps(body, sort_keys=True, indent=1)
            h = hashlib.sha1(blob.encode()).hexdigest()[:10]
            path = os.path.join(VERIF, "replays", "%s-%s.json" % (self.prop, h))
            open(path, "w").write(blob + "\n")
            suffix = "" if body.get("failing_input_found", True) else " no-failing-input-found"
            lines.append("VIOLATION property=%s replay=%s%s" % (self.prop, path, suffix))
        for l in lines:
            print(l)
        nob = len(self.obligations)
        ndis = sum(1 for _, ok, _ in self.obligations if ok)
        cov = dict(self.coverage)
        cov.setdefault("obligations", nob)
        cov.setdefault("discharged", ndis)
        cov["obligation_list"] = [
            {"name": n, "discharged": ok, **({"detail": d} if d else {})} for n, ok, d in self.obligations
        ]
        cov.setdefault("checker_cmd", " ; ".join(self.checker_cmds) or "none")
        cov.setdefault("trusted_base", TRUSTED_BASE_COMMON + self.assumptions)
        if self.notes:
            cov["notes"] = self.notes
        ev = {
            "property_id": self.prop,
            "tier": self.tier,
            "seed": self.seed,
            "level": level,
            "coverage": cov,
            "assumptions": (extra_assumptions or []),
            "wall_s": round(time.time() - self.t0, 2),
            "violations": nviol,
        }
        with open(os.path.join(VERIF, "evidence", self.prop + ".json"), "w") as f:
            json.dump(ev, f, indent=1, sort_keys=True)
            f.write("\n")
        print("%s tier=%s seed=%d obligations=%d discharged=%d violations=%d wall=%.1fs" % (
            self.prop, self.tier, self.seed, nob, ndis, nviol, time.time() - self.t0))
        return 1 if nviol else 0
