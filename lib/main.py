import argparse
import importlib
import json
import os
import sys
import traceback

from lib import vcommon


def main():
    ap = argparse.ArgumentParser()
    ap.add_argument("prop")
    ap.add_argument("--tier", default=os.environ.get("VERIF_TIER", "quick"))
    ap.add_argument("--replay", default=None)
    a = ap.parse_args()
    tier = a.tier if a.tier in ("quick", "thorough") else "quick"
    try:
        seed = int(os.environ.get("VERIF_SEED", "0"))
    except ValueError:
        seed = 0
    mod = importlib.import_module("checks." + a.prop)
    if a.replay:
        data = json.load(open(a.replay))
        return mod.replay(data)
    ctx = vcommon.Ctx(a.prop, tier, seed)
    try:
        mod.run(ctx)
    except Exception:
        tb = traceback.format_exc()
        print(tb)
        ctx.oblige("check machinery ran to completion", False, tb[-800:])
    # safety net: something no longer checks but no violation was produced
    undis = [(n, d) for n, ok, d in ctx.obligations if not ok]
    kf_classes = {k.get("class") for k in vcommon.known_findings(a.prop)}
    real = [v for v in ctx.violations if not (v["kf_class"] and v["kf_class"] in kf_classes)]
    if undis and not real:
        ctx.report(
            "undischarged:" + undis[0][0],
            "obligations no longer check: " + "; ".join(n for n, _ in undis),
            {"failing_input_found": False,
             "broken": [{"obligation": n, "detail": d} for n, d in undis],
             "notes": ctx.notes},
        )
    return ctx.finish(level=getattr(mod, "LEVEL", "proof"),
                      extra_assumptions=getattr(mod, "ASSUMPTIONS", []))


if __name__ == "__main__":
    sys.exit(main())
