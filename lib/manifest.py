"""Writes MANIFEST.json from the table below (python3 lib/manifest.py)."""
import json
import os

VERIF = os.path.dirname(os.path.dirname(os.path.abspath(__file__)))

CHECKS = {
    "C10": dict(
        text="Each acceptance gate (chunk-size, chunk-ext, Content-Length, header line, request line) is a regex term regenerated from the source on every run together with the way its call site applies it; language equality with the RFC grammar is decided by a verified derivative-based equivalence checker inside the Coq kernel, for all byte strings of every length. The tie to the code is the translator (cross-checked against CPython re on the same strings) and call-site conformance of the real receiver/parser.",
        design_ref="DESIGN.md section 7, C10",
        note="Trusted: Coq kernel + vm_compute, translate/gen_regex.py and CPython's re._parser, the extracted matcher used for the cross-check, sampled call-site conformance. The code between the wire and each gate (line splitting, stripping) is modelled by hand (Receiver.v/Parser.v) and compared by execution, not verified. Request-line surrounding whitespace is an open known finding (kf_c10_reqline_ws).",
        technique="reflective regular-language equivalence proof in Coq (Brzozowski derivatives, verified bisimulation check) over generated terms + differential call-site conformance",
    ),
    "C17": dict(
        text="Model/Buffers.v transliterates OverflowableBuffer / FileBasedBuffer / ReadOnlyFileBasedBuffer (files as content/pos/closed with real seek/tell/read/write semantics); STRBUF_LIMIT and the overflow threshold are universally quantified. Coq proves, by induction over operation histories of any length: the representation invariant, refinement of the FIFO byte queue of Spec/Fifo.v (peek returns a prefix at least as long as requested or everything, consume removes exactly that many), exactly-once / in-order / unmodified accounting with len = appended - consumed, the skip error branch, representation bounds, close, the channel's peek-then-skip flush pattern, and the read-only buffer's clamp and file positioning. Tie: differential execution of the extracted model against the real classes (real BytesIO / TemporaryFile) after every operation, plus a direct search of the implementation against the extracted spec and an independent Python queue.",
        design_ref="DESIGN.md section 7 C17, Appendix C (Buffers refine a FIFO)",
        note="Trusted: Coq kernel (vm_compute only in examples), ExtrOcamlBasic extraction + OCaml driver, the harness and its sampled coverage (exhaustive for histories of 3-5 operations over small alphabets), CPython BytesIO/TemporaryFile as represented by the file model. Domain: skip(n >= 0); read-only get(n >= -1) on a seekable file with size None or >= 0; the caller does not use the getfile() file while the buffer is in use; the COPY_BYTES loop is modelled as a whole copy (the real loop is exercised with COPY_BYTES in {1, 5, real}); prune() excluded (outside the property).",
        technique="Coq refinement proof (invariant + abstraction function, induction over histories) with extracted-model differential correspondence and exhaustive short-history enumeration",
    ),
    "C20": dict(
        text="The mutual-exclusion chain, the proxy cross-checks, the socket checks, _params, the CLI name mangling and the documented option lists are regenerated from adjustments.py / runner.py / server.py / docs/arguments.rst on every run (translate/gen_adjust.py) and consumed through interface lemmas decided by vm_compute over their finite domains (all 32 subsets of the exclusive options, all 64 rows of the proxy table) lifted with forallb_forall; universal theorems over all strings, lists and keyword dictionaries (casts, asbool spellings, aslist = split, repeated --listen accumulation, --x=v / --x v / --x / --no-x equal to the keyword form, getopt totality) are proved by induction over an executable model of Adjustments.__init__, getopt and parse_args. Tie: the translator and K-adj differential execution of the extracted model against the real Adjustments / parse_args / casts, plus a specification-versus-implementation search.",
        design_ref="DESIGN.md section 7 C20, section 4.1",
        note="All theorems closed under the global context. Multi-option command lines are covered by differential execution only. getaddrinfo, app resolution and socket objects are stubbed. Documentation is compared on option names and flag-vs-value form (plus six defaults). int() of non-ASCII decimal digits and lower() outside latin-1 are not modelled (the harness checks on every run that str.lower() maps no non-latin-1 character onto a letter used by truthy / KNOWN_PROXY_HEADERS). The defect 'ipv4=False with ipv6=False silently binds both families' was found by this package and repaired in /repo (fix 535fe10).",
        technique="Coq proofs over terms regenerated from the source (finite truth tables by vm_compute + forallb_forall; universal lemmas by induction) + extracted-model differential correspondence",
    ),
    "C07": dict(
        text="For every sequence of received() calls that ends in an accepted request and every server configuration, the environ built by the transliterated get_environment over the parser model is proved equal, key by key, to an independent PEP 3333 / RFC 3875 specification computed from the field lines (CGI naming, '_' names dropped, OWS-stripped values joined by ', ' in arrival order, Transfer-Encoding removed on 1.1, chunked -> str(decoded length)), the request line (percent-decoded path incl. invalid escapes, leading-slash collapse, url_prefix split, raw query) and the body; no header name can produce a server-defined key (finite key-disjointness check lifted to all names); all strings are latin-1; CONTENT_LENGTH equals the number of bytes behind wsgi.input. Tie: differential execution of the extracted model AND of the extracted specification against the real HTTPRequestParser + WSGITask.get_environment (and HTTPChannel) on generated requests x configurations.",
        design_ref="DESIGN.md section 7 C07",
        note="Trusted: Coq kernel/vm_compute; the hand-written parser/receiver/urlsplit models (compared by execution: K-parse/K-env); the body buffer is modelled as the appended bytes (tempfile path exercised by K-env; C17 proves the buffer a FIFO separately); the framing verdict and decoded body are inputs of the specification (C01's subject). Specification decisions: visible-ASCII targets, SERVER_PROTOCOL only for 1.0/1.1, obs-fold joins lines keeping the white space, bracketed IPv6 authorities unmodelled (skipped and counted). ident=None yields SERVER_SOFTWARE=None (configuration outside the quantifier).",
        technique="inductive invariants over the header loop and over all received() runs, reflective regex inclusion for the method token, finite key-disjointness check, functional equality with an independent specification in Coq + differential model/spec-versus-implementation execution",
    ),
    "C14": dict(
        text="Model/Dispatcher.v is an executable interleaving model of ThreadedTaskDispatcher (workers, submitters, resizers, shutdown, task bodies that submit follow-ups or raise; one critical section under self.lock = one atomic step, which is sound because every access to queue/threads/stop_count/active_count is under that lock - audited by ast on every run). For ALL schedules (no bound on length, tasks, workers or set_thread_count arguments) an inductive invariant proves: the ledger is a function (each submitted task is in exactly one of queued / running / done / cancelled, service count 1 iff running or done, cancel count 1 iff cancelled, never both), tasks are taken in submission order, in every quiescent state a non-empty queue implies no worker exists (no lost wake-up inside the pool), live workers = requested count at quiescence, and the shutdown theorems. Tie: the real class runs under a deterministic baton-passing scheduler (harness/sched.py, fake_threading.py); every observed critical section is checked against the extracted model's step and abstract state; the property monitor runs on the real trace; bounded exhaustive schedule exploration on small scenarios.",
        design_ref="DESIGN.md section 7 C14, section 4.3, Appendix C (Pool ledger)",
        note="Theorems are about Model/Dispatcher.v at critical-section granularity under sequential consistency; notify wakes ANY waiter (over-approximates CPython's FIFO); timeouts are environment choices; convergence is stated as absence of bad quiescent states, not liveness under fairness. The tie is sampled (random + PCT schedules, exhaustive up to 3 pre-emptions on small scenarios). CPython-internal races, the real threading primitives and pre-emption inside C code are not covered.",
        technique="Coq inductive invariant over an executable interleaving model, for all schedules + deterministic-scheduler conformance of the real class against the extracted model, trace monitor, ast lock-discipline audit",
    ),
    "C15": dict(
        text="Model/Proxy.v transliterates proxy_headers.py (translate_proxy_headers, parse_proxy_headers with every try/except, undquote via the regex terms regenerated from the source, strip_brackets, clear_untrusted_headers) and the middleware install condition of server.py. Coq proves, for ALL configurations, environs and header values: when the peer is not the trusted proxy (and trust is not '*'), two requests that differ only in the six proxy headers are both handed to the application and agree on every other key - in particular the seven metadata keys are untouched - and the result equals that of the request with the six headers deleted; with clearing on none of the six reaches the application; the wrapper is installed exactly when trusted_proxy is set or clearing is on. Tie: differential execution of the extracted model against the real middleware and against the application as wrapped by create_server, multi-request histories through one middleware instance, and an end-to-end two-run search through the real parser and task environ.",
        design_ref="DESIGN.md section 7 C15",
        note="Trusted: Coq kernel, extraction + driver, the sampled correspondence. environ values are modelled as str; the construction of the environ from header lines (rename/drop of names, underscore aliases) is the parser/task's (C07) and is exercised here end to end only by sampling. The quoted-string tie relies on the C10 regex translator.",
        technique="Coq two-run non-interference theorem over an executable model of the proxy middleware + extracted-model differential correspondence and two-run search on the real middleware",
    ),
    "C16": dict(
        text="Over the same model as C15, Coq proves for ALL header values, list lengths n >= 1 and counts k >= 1: totality (for every environ with REMOTE_ADDR and wsgi.url_scheme the trusted path returns Ok or Malformed/400, never an exception); the hop indexing law (client, host and proto come from element n - min k n, the k-th from the right, the leftmost if fewer; for Forwarded the code's reversed 'x or previous' fold equals 'first non-empty field of the trusted suffix'); pruning (the forwarded header handed on is the join of the last k raw elements; hops further left never influence any output key - a two-run theorem); per-kind non-interference for kinds not in trusted_proxy_headers; the 400 categories (bad quoting, pair without '=', padded token/value, several values where one is required, unsupported scheme, empty host, empty client address) and undquote = the RFC quoted-string reading via a reflective regex equivalence on the regenerated terms. Tie: K-proxy differential execution of the extracted model against the real middleware (whole environ / 400 header / exception class) and the executable spec predicates searched on the real middleware, including two-run searches.",
        design_ref="DESIGN.md section 7 C16",
        note="Hop/prune theorems are for trusted_proxy_count >= 1, which Adjustments now enforces (fix c9ae1a8); other counts are modelled and covered by K-proxy only. A converse to the 400 categories (a 400 arises only from the listed categories) is not proved. The HTTP_HOST port-formatting rules are covered as a frame property and by K-proxy. Two defects found by this package were repaired in /repo (12a41a9 IndexError on an empty client address, 11c18eb empty forwarded host accepted).",
        technique="Coq: totality, indexing law for all n,k, two-run pruning/kind non-interference, 400 categories, reflective regex equivalence for quoted-string + extracted-model differential correspondence and spec search on the real middleware",
    ),
    "C18": dict(
        text="Model/Server.v is an executable model of the socket map (N listeners each with its trigger slot, client channels, a fake kernel with backlogs / receive queues / send-buffer room, an integer clock) in which one wasyncore.poll turn is one event and whose boolean decisions (HTTPChannel.readable/writable, handle_write's flush selection and close tail, the maintenance test, BaseWSGIServer.readable with its overflow-flag update) are regenerated from the source on every run (translate/gen_preds.py) and consumed through interface lemmas. Coq proves for ALL event histories and parameter values: map size <= max(2L, connection_limit + L - 1), which is the property's bound limit + (L-1) whenever limit >= L+1 (and the bound is reached); nothing is accepted in a turn that starts at or above the limit and accepting resumes in the first turn below it; a channel with a request queued or executing is never marked and survives every event except its own disconnect, however far the clock advances; maintenance recurs within cleanup_interval of a poll; an idle expired connection is closed by the first poll turn at or after the due maintenance PROVIDED its socket is writable when polled (deadline t + cleanup_interval + P under a stated loop-period hypothesis). Tie: differential execution of the real create_server / TcpWSGIServer / MultiSocketServer / HTTPChannel / wasyncore.loop / trigger over a fake kernel and clock against the extracted model after every event, predicate cross-check on all field combinations, and property monitors on the real trace.",
        design_ref="DESIGN.md section 7 C18",
        note="The reaping clause is proved as _partial under the explicit hypothesis that the socket is writable when polled (unconditionally when its send buffer has room); the unconditional statement is refuted in the model (C18_reap_refuted, C18_stalled_never_closed) and on the real classes: open known finding kf_c18_stalled_peer (F21). Time is an integer clock; the loop period P and socket readiness are environment hypotheses; worker threads are represented by an atomic 'application finishes' event (the interleaving side is C04/C05/C11). connection_limit <= number of listeners is a degenerate configuration in which nothing is ever accepted (observation).",
        technique="inductive Coq proofs over event histories about a model whose decisions are regenerated from the source + extracted-model differential correspondence against the real server/channel/poll loop over a fake kernel and clock + trace monitors",
    ),
    "C01": dict(
        text="Spec/Ref9112.v is an independent, whole-stream, non-incremental RFC 9112 reference (lines up to CRLF, field lines checked character by character, framing per section 6.3 clause by clause, recursive-descent chunked decoder, trailers as field lines, named RFC tolerances: leading empty lines, obs-fold, request-line whitespace). The transliterated parser / receiver / task models are proved equal to it layer by layer, for ALL inputs: T1 field lines, request line and head-block cutting; T3 the framing decision {no body, Content-Length n, chunked, refuse 400, refuse 501} for all header dicts and versions; T2 fixed bodies and one-call chunked bodies (decoded bytes, end offset, verdict) against the recursive-descent decoder; T4a the head boundary; T5 the close-after decision (CL+TE, Transfer-Encoding on a non-1.1 request, close anywhere in a Connection list, 1.0 without keep-alive); and the refusal implications of the statement (bare CR/LF, bad field name, repeated single fields, bad Content-Length, bad Transfer-Encoding, non-ASCII target). Tie: K-chanseq (models vs the real HTTPChannel.received under >= 3 segmentations) and S-ref: the extracted reference run against the real channel + service() on grammar, mutation and exhaustive small-alphabet streams.",
        design_ref="DESIGN.md section 7 C01, section 0.5",
        note="T1, T3, T5 and T13 hold for all inputs against the strict reference; T2 chunked holds outside the open finding kf_c01_trailer_unvalidated (F10: trailer lines are not validated as field lines; witness in Findings/C01_witnesses.v); the whole-stream composition over a pipelined stream (C01_full_dev: the channel loop's offset accounting chaining the per-message theorems) is stated and tested by S-ref, not proved. Seven defects found by this package were repaired in /repo (c72b27e de76ee8 31e2659 272e5a4 e9cbb98 96bc60d 574dcaf). The tie to the Python is sampled.",
        technique="layered refinement proofs in Coq of transliterated parser/receiver/task models to an independent RFC 9112 reference + differential execution of the extracted reference and models against the real channel",
    ),
    "C13": dict(
        text="Model/ChanFault.v is a stack-machine interleaving model (I/O thread, two workers; frames for try/except/with/finally, one lock operation / socket call / shared-attribute access per instruction) of wasyncore's event wrappers and send/recv errno mapping, HTTPChannel's read/write/close paths, service()'s worker-side flushes and handle_accept with channel construction, in which the environment answers every recv/send/accept/getsockopt/setsockopt/setblocking/select with a normal result, EOF or any errno, at any step. For ALL schedules and fault placements Coq proves: no worker is ever killed; no exception other than the three re-raised ones escapes the I/O loop; the listening socket and its trigger stay in the map; every teardown step (socket close, map delete, active_channels delete, buffer close) is performed by the I/O thread, at most one socket.close() per channel, and afterwards the descriptor is out of the map and active_channels and the buffers are closed; isolation as step-level unwinding conditions (locality + two-run determinism). The headline theorems are stated for the configuration the source has NOW: two knobs (do_close of the worker-side send_continue flush; whether channel construction is guarded in handle_accept) are regenerated from the source into coq/Gen/GenChanKnobs.v on every run, so a regression of either repair stops the file compiling. Tie: AST shape audit of 45 methods, step-by-step replay of real HTTPChannel / ThreadedTaskDispatcher / wasyncore.poll+poll2 / TcpWSGIServer runs on the extracted model under the deterministic scheduler, fault-placement x schedule search with the property monitor, model BFS explorer.",
        design_ref="DESIGN.md section 7 C13, section 0.5",
        note="Isolation is proved per step (unwinding conditions); the composition into one statement about two whole runs is not mechanised - the real two-run property (connection B's wire equals its B-alone reference under all faults on A) is measured. Assumptions: select raises EBADF for a closed fd at call time, poll reports POLLNVAL; descriptor numbers are not reused while a stale reference exists; socket.close() and logging do not fail. Two defects found by this package were repaired in /repo (8a2ea3a F17, da3bf3a F18 worker-side close). The interleaving of the I/O thread's unlocked flush with the worker's locked flush in send_continue (duplicate send) is C04's open subject; no C13 clause depends on it.",
        technique="inductive invariants in Coq over a stack-machine interleaving model with exception frames + knobs regenerated from the source + deterministic-scheduler step replay of the real code on the extracted model, AST shape audit, fault x schedule search",
    ),
}

NOT_YET = {}


def main():
    props = [json.loads(l) for l in open(os.path.join(VERIF, "properties.jsonl"))]
    checks = []
    na = []
    for p in props:
        pid = p["id"]
        if pid in CHECKS:
            c = CHECKS[pid]
            checks.append({
                "property_id": pid,
                "quick_cmd": "./check %s --tier quick" % pid,
                "thorough_cmd": "./check %s --tier thorough" % pid,
                "evidence_file": "/verif/evidence/%s.json" % pid,
                "replay_cmd_template": "./check %s --replay {path}" % pid,
                "engine": "coq-proof+correspondence",
                "level_claimed": {"category": c.get("category", "proof"), "text": c["text"], "design_ref": c["design_ref"]},
                "level_note": c["note"],
                "technique": c["technique"],
            })
        else:
            na.append({"property_id": pid, "reason": NOT_YET.get(pid, "not claimed yet: model, theorems and correspondence for this property are not built at this commit (planned, see DESIGN.md section 9)")})
    m = {
        "version": 1,
        "setup_cmd": "./setup.sh",
        "hooks": {
            "guard": "WAITRESS_VERIF",
            "enable": "no source hooks: all instrumentation is injected from the harness by replacing module globals; checks import /repo/src directly (PYTHONPATH)",
            "baseline_off_cmd": "cd /repo && /venv/bin/python -m pytest -ra -q -p no:cacheprovider --timeout=900 --continue-on-collection-errors",
            "source_commits": [],
            "add_only": True,
        },
        "engines": [
            {"name": "coq-proof+correspondence", "path": "/verif/check",
             "serves_properties": [c["property_id"] for c in checks],
             "kind_free_text": "Coq 8.16.1 theorems over executable Gallina models; models tied to /repo by translators (coq/Gen regenerated every run) and by differential execution of extracted models against the real classes"},
        ],
        "checks": checks,
        "notes": "Every check regenerates coq/Gen/*.v from /repo's working tree, rebuilds the Coq cone of its property, captures Print Assumptions, runs the correspondence suites against /repo/src, and writes evidence/<id>.json. KNOWN_FINDINGS.txt lists open findings and fixed defects.",
        "not_applicable": na,
    }
    with open(os.path.join(VERIF, "MANIFEST.json"), "w") as f:
        json.dump(m, f, indent=1)
        f.write("\n")


if __name__ == "__main__":
    main()
