"""Writes MANIFEST.json from the table below (python3 lib/manifest.py)."""
import json
import os

VERIF = os.path.dirname(os.path.dirname(os.path.abspath(__file__)))

CHECKS = {
    "C10": dict(
        text="Each acceptance gate (chunk-size, chunk-ext, Content-Length, header line, request line) is a regex term regenerated from the source on every run together with the way its call site applies it; language equality with the RFC grammar is decided by a verified derivative-based equivalence checker inside the Coq kernel, for all byte strings of every length. The tie to the code is the translator (cross-checked against CPython re on the same strings) and call-site conformance of the real receiver/parser.",
        design_ref="DESIGN.md section 7, C10",
        note="Trusted: Coq kernel + vm_compute, translate/gen_regex.py and CPython's re._parser, the extracted matcher used for the cross-check, sampled call-site conformance. The code between the wire and each gate (line splitting, stripping) is modelled by hand (Receiver.v/Parser.v) and compared by execution, not verified. Request-line surrounding whitespace is an open known finding (kf_c10_reqline_ws).",
        technique="reflective regular-language equivalence proof in Coq (Brzozowski derivatives, verified bisimulation check) over generated terms + differential call-site conformance",
    ),
}

NOT_YET = {}


def main():
    props = [json.loads(l) for l in open(os.path.join(VERIF, "properties.jsonl"))]
    checks = []
    na = []
    for p in props:
        pid = p["id"]
        if pid in CHECKS:
            c = CHECKS[pid]
            checks.append({
                "property_id": pid,
                "quick_cmd": "./check %s --tier quick" % pid,
                "thorough_cmd": "./check %s --tier thorough" % pid,
                "evidence_file": "/verif/evidence/%s.json" % pid,
                "replay_cmd_template": "./check %s --replay {path}" % pid,
                "engine": "coq-proof+correspondence",
                "level_claimed": {"category": c.get("category", "proof"), "text": c["text"], "design_ref": c["design_ref"]},
                "level_note": c["note"],
                "technique": c["technique"],
            })
        else:
            na.append({"property_id": pid, "reason": NOT_YET.get(pid, "not claimed yet: model, theorems and correspondence for this property are not built at this commit (planned, see DESIGN.md section 9)")})
    m = {
        "version": 1,
        "setup_cmd": "./setup.sh",
        "hooks": {
            "guard": "WAITRESS_VERIF",
            "enable": "no source hooks: all instrumentation is injected from the harness by replacing module globals; checks import /repo/src directly (PYTHONPATH)",
            "baseline_off_cmd": "cd /repo && /venv/bin/python -m pytest -ra -q -p no:cacheprovider --timeout=900 --continue-on-collection-errors",
            "source_commits": [],
            "add_only": True,
        },
        "engines": [
            {"name": "coq-proof+correspondence", "path": "/verif/check",
             "serves_properties": [c["property_id"] for c in checks],
             "kind_free_text": "Coq 8.16.1 theorems over executable Gallina models; models tied to /repo by translators (coq/Gen regenerated every run) and by differential execution of extracted models against the real classes"},
        ],
        "checks": checks,
        "notes": "Every check regenerates coq/Gen/*.v from /repo's working tree, rebuilds the Coq cone of its property, captures Print Assumptions, runs the correspondence suites against /repo/src, and writes evidence/<id>.json. KNOWN_FINDINGS.txt lists open findings and fixed defects.",
        "not_applicable": na,
    }
    with open(os.path.join(VERIF, "MANIFEST.json"), "w") as f:
        json.dump(m, f, indent=1)
        f.write("\n")


if __name__ == "__main__":
    main()
