(* C17 -- Buffers are faithful byte queues across all representation changes.
   This file contains only the statements; the proofs are in Proof/Buffers.v
   (files, FileBasedBuffer), Proof/BuffersRefine.v (OverflowableBuffer refines
   the FIFO queue of Spec/Fifo.v, by induction over histories) and
   Proof/BuffersRo.v (ReadOnlyFileBasedBuffer); satisfiability examples are in
   Proof/BuffersExamples.v.  Model: Model/Buffers.v, a transliteration of
   /repo/src/waitress/buffers.py that the check drives side by side with the
   real classes after every operation (K-buf).

   [limit] is STRBUF_LIMIT and [ovf] the overflow threshold: both universally
   quantified.  [exec limit ovf o_new ops] is the state after the history [ops]
   (a fold_left of [step]); [run] also collects the outputs.  [live] excludes
   close(), which is not an operation of the queue; it is treated by
   C17_after_close.  [abs] is the abstraction function (the queued bytes),
   [inv] the representation invariant (file open, pos <= |content|,
   remain = |content| - pos, strbuf empty once a file is used, overflowed iff
   temporary file). *)
From Coq Require Import List NArith ZArith.
From WV Require Import Lib.PyBytes Model.Buffers Spec.Fifo
  Proof.Buffers Proof.BuffersRefine Proof.BuffersRo Proof.BuffersFault Proof.BuffersExamples.
Import ListNotations.
Local Open Scope Z_scope.

(* Refinement, for all histories and all thresholds: the invariant holds, the
   bytes held are the specification's queue, len is its length, and every output
   -- of the next operation after any history, and along the whole trace --
   refines the specification's output ([out_refines]: a non-consuming get returns
   a prefix of the queue at least as long as requested or all of it; a consuming
   get exactly the requested prefix; skip(n) succeeds iff n <= len). *)
Theorem C17_refinement : forall limit ovf ops, Forall live ops ->
  let o := exec limit ovf o_new ops in
  inv o /\ abs o = q_exec_op q_empty ops /\
  o_len o = q_len (q_exec_op q_empty ops) /\
  (forall p, live p -> out_ok (q_exec_op q_empty ops) p (snd (step limit ovf o p))) /\
  fst (run limit ovf o_new ops) = o /\
  trace_ok q_empty ops (snd (run limit ovf o_new ops)).
Proof. exact history_refines. Qed.
Print Assumptions C17_refinement.

(* Bytes come out exactly once, in order and unmodified; len = appended - consumed:
   after any history the buffer holds the appended stream A minus its first C
   bytes, C being the number consumed so far, and the next output is judged
   against exactly that suffix. *)
Theorem C17_exactly_once : forall limit ovf ops, Forall live ops ->
  let o := exec limit ovf o_new ops in
  let A := appended_of ops in
  let C := consumed_of q_empty ops in
  (C <= length A)%nat /\
  abs o = skipn C A /\
  o_len o = Z.of_nat (length A) - Z.of_nat C /\
  (forall p, live p -> out_ok (skipn C A) p (snd (step limit ovf o p))).
Proof. exact exactly_once. Qed.
Print Assumptions C17_exactly_once.

(* Under the guard of the real code (skip only what is queued) nothing raises. *)
Theorem C17_no_exception : forall limit ovf ops p, Forall live ops ->
  let o := exec limit ovf o_new ops in
  respects (abs o) p -> forall e, snd (step limit ovf o p) <> RExn e.
Proof. exact no_exception. Qed.
Print Assumptions C17_no_exception.

(* The way channel._flush_some drains an output buffer: chunk = get(n);
   m = send(chunk) <= len(chunk); skip(m, True).  The peek changes nothing, the
   skip does not raise, and exactly the sent part of the chunk is removed. *)
Theorem C17_flush_pattern : forall limit ovf ops n m ap chunk, Forall live ops ->
  let o := exec limit ovf o_new ops in
  snd (step limit ovf o (OGet n false)) = RBytes chunk ->
  (N.to_nat m <= length chunk)%nat ->
  fst (step limit ovf o (OGet n false)) = o /\
  snd (step limit ovf o (OSkip m ap)) = RUnit /\
  inv (fst (step limit ovf o (OSkip m ap))) /\
  abs o = firstn (N.to_nat m) chunk ++ abs (fst (step limit ovf o (OSkip m ap))).
Proof. exact flush_pattern. Qed.
Print Assumptions C17_flush_pattern.

(* The error branch: skip(n) with n > len raises ValueError; invariant, queued
   bytes and len are unchanged; a file representation is not touched at all; a
   plain-bytes buffer has been migrated to a file representation on the way. *)
Theorem C17_skip_error_branch : forall limit ovf ops n ap, Forall live ops ->
  let o := exec limit ovf o_new ops in
  q_len (abs o) < Z.of_N n ->
  snd (step limit ovf o (OSkip n ap)) = RExn ValueErrorSkip /\
  inv (fst (step limit ovf o (OSkip n ap))) /\
  abs (fst (step limit ovf o (OSkip n ap))) = abs o /\
  o_len (fst (step limit ovf o (OSkip n ap))) = o_len o /\
  (ob_buf o <> None -> fst (step limit ovf o (OSkip n ap)) = o) /\
  ob_buf (fst (step limit ovf o (OSkip n ap))) <> None.
Proof. exact skip_error_branch. Qed.
Print Assumptions C17_skip_error_branch.

(* Which representation holds how much: plain bytes stay below STRBUF_LIMIT, an
   in-memory file below the overflow threshold, and [overflowed] is set exactly
   for the temporary file. *)
Theorem C17_representation_bounds : forall limit ovf ops, Forall live ops ->
  let o := exec limit ovf o_new ops in
  match rep_of o with
  | Str s => ob_overflowed o = false /\ (s = [] \/ lenZ s < Z.of_N limit)
  | Bio f r => ob_overflowed o = false /\ r < Z.of_N ovf
  | Tmp f r => ob_overflowed o = true
  end.
Proof. exact representation_bounds. Qed.
Print Assumptions C17_representation_bounds.

(* close(): nothing happens to plain bytes; a file representation is closed, len
   becomes 0 and no later operation yields bytes. *)
Theorem C17_after_close : forall limit ovf ops more, Forall live ops ->
  let o := exec limit ovf o_new ops in
  let oc := o_close o in
  (ob_buf o = None -> oc = o) /\
  (ob_buf o <> None ->
     o_len oc = 0 /\
     let o' := exec limit ovf oc more in
     dead o' /\ o_len o' = 0 /\
     forall p b, snd (step limit ovf o' p) <> RBytes b).
Proof. exact after_close. Qed.
Print Assumptions C17_after_close.

(* Operating-system faults at a representation change (Proof/BuffersFault.v; the
   code after /repo commit c9585b7).  [step_f flt] is [step] with the environment
   interfering while the operation constructs or fills a file based buffer;
   [step] is [step_f FNone].

   For EVERY fault of the model -- FCtor k: creating the file object of the new
   buffer of kind k raises (KTmp: TemporaryFile() with EMFILE / ENOSPC / EACCES;
   KBio: BytesIO() with MemoryError); FCopyWrite: the copy loop's file.write raises
   while a BytesIO is spilled to a temporary file; FCreateWrite: the write of
   _create_buffer's buf.append(self.strbuf) raises; FAppendWrite: the write of
   append()'s buf.append(s) raises -- at any operation of any history:  if the
   operation answers the fault, the exception has propagated, the invariant holds,
   the buffer holds the queue it held before -- or, for an append() in a file
   representation whose bytes were written before the spill was attempted, that
   queue plus the appended bytes --, len is truthful, and every continuation
   refines the FIFO queue again.  If it does not answer the fault the operation is
   [step]. *)
Theorem C17_fault_atomicity :
  forall flt limit ovf ops p more, Forall live ops -> live p -> Forall live more ->
  let o := exec limit ovf o_new ops in
  let q := q_exec_op q_empty ops in
  let r := step_f flt limit ovf o p in
  let o' := fst r in
  (snd r <> RExn OSFault -> r = step limit ovf o p) /\
  (snd r = RExn OSFault ->
     inv o' /\
     (abs o' = q \/ exists s, p = OAppend s /\ abs o' = q ++ s) /\
     o_len o' = q_len (abs o') /\
     let o'' := exec limit ovf o' more in
     inv o'' /\ abs o'' = q_exec_op (abs o') more /\ o_len o'' = q_len (abs o'') /\
     forall p', live p' -> out_ok (abs o'') p' (snd (step limit ovf o'' p'))).
Proof. exact fault_history. Qed.
Print Assumptions C17_fault_atomicity.

(* Every clause of the theorem above is met by a concrete history: each fault is
   answered somewhere, and the "plus the appended bytes" case is real. *)
Theorem C17_fault_cases_reachable :
  let o := exec 4 6 o_new [OAppend [1;2;3;4;5]%N] in
  (forall flt, In flt [FCtor KTmp; FCopyWrite] ->
     snd (step_f flt 4 6 o (OAppend [6;7]%N)) = RExn OSFault /\
     abs (fst (step_f flt 4 6 o (OAppend [6;7]%N))) = abs o ++ [6;7]%N) /\
  snd (step_f FAppendWrite 4 6 o (OAppend [6;7]%N)) = RExn OSFault /\
  fst (step_f FAppendWrite 4 6 o (OAppend [6;7]%N)) = o /\
  step_f FCreateWrite 4 6 (exec 4 6 o_new [OAppend [1;2]%N]) (OGet 1 true) =
    (exec 4 6 o_new [OAppend [1;2]%N], RExn OSFault).
Proof. exact fault_append_case_reachable. Qed.
Print Assumptions C17_fault_cases_reachable.

(* The shape of FileBasedBuffer.__init__ before c9585b7 (the source file is put
   back to its read position only when the copy succeeds): with the copy loop's
   write failing the surviving BytesIO was left at its end -- remain 7, nothing
   readable -- while the repaired constructor leaves it exactly as it was.  A
   revert of the repair makes K-buf-fault disagree with [step_f] on this history. *)
Theorem C17_fault_old_shape_refuted :
  exists b, fb_inv b /\
    match fb_init_old FCopyWrite KTmp (Some b) with
    | InitExn OSFault (Some b') =>
        ~ fb_inv b' /\ fb_remain b' = 7 /\ fb_abs b' = [] /\ f_content (fb_file b') = f_content (fb_file b)
    | _ => False
    end /\
    fb_init FCopyWrite KTmp (Some b) = InitExn OSFault (Some b).
Proof. exact fault_copy_write_refuted_old. Qed.
Print Assumptions C17_fault_old_shape_refuted.

(* ReadOnlyFileBasedBuffer: prepare(size) leaves the wrapped file where it was and
   answers P <= size; from then on the buffer is the FIFO queue that initially
   holds the window of P bytes at the file position: outputs are exactly the
   specification's (so never more than the prepared size in total), a
   non-consuming get changes nothing (file position restored), and after
   consuming k = P - len bytes the wrapped file is positioned at start + k. *)
Theorem C17_readonly_clamp : forall c p0 size ops,
  (p0 <= length c)%nat -> size_ok size -> Forall ro_valid ops ->
  exists b0 P,
    ro_prepare (ro_init (mkfile c p0 false)) size = Ok (b0, P) /\
    fb_file b0 = mkfile c p0 false /\
    0 <= P <= Z.of_nat (length c) - Z.of_nat p0 /\
    (forall sz, size = Some sz -> P <= sz) /\
    let b := ro_exec b0 ops in
    let left := q_exec (ro_window c p0 P) (map ro_spec_of ops) in
    ro_abs b = left /\ fb_len b = q_len left /\ q_len left <= P /\
    f_content (fb_file b) = c /\ f_closed (fb_file b) = false /\
    Z.of_nat (f_pos (fb_file b)) = Z.of_nat p0 + (P - q_len left) /\
    (forall p, ro_valid p -> ro_out_ok (snd (q_step left (ro_spec_of p))) (snd (ro_step b p))) /\
    (forall n, -1 <= n -> fst (ro_step b (ROGet n false)) = b).
Proof. exact ro_clamp. Qed.
Print Assumptions C17_readonly_clamp.
