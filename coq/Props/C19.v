(* C19 -- Expect: 100-continue is answered correctly and the request is never lost.

   Two layers.  (1) Model/ChanSeq.v (HTTPChannel.received, sequential, tied to
   the code by K-chanseq) and Model/Parser.v; (2) Model/ChanExpect.v, the narrow
   interleaving model of received() / the tail of service() / send_continue()
   (tied to the code by K-chanexpect: trace conformance under the deterministic
   scheduler + ast shape audit).  Layer (1) is proved to be the I/O thread of
   layer (2) (C19_seq_refines), the abstract parser of (2) to over-approximate
   Model/Parser.v (C19_parser_sim).

   Findings F5/F6 (send_continue used to overwrite completed = True) were repaired
   in the code (fix e3537e2); the statement is gone from both models and the
   theorems hold for ALL requests, including those complete or refused at the end
   of their header block (C19_send_then_queue, C19_former_F5, C19_former_F6). *)
From Coq Require Import List NArith ZArith Bool.
From RecordUpdate Require Import RecordUpdate.
From WV Require Import Model.ChanExpect.
From WV Require Import Lib.PyBytes Model.Receiver Model.Parser Model.ChanSeq.
From WV Require Import Proof.ChanExpectBase Proof.ChanExpectLog Proof.ChanExpectCount Proof.ChanExpectParse.
From WV Require Proof.ChanExpect Proof.ChanExpectSeq.
Import ListNotations.

Module CE := WV.Model.ChanExpect.
Module CP := WV.Proof.ChanExpect.
Module CS := WV.Proof.ChanExpectSeq.

(* ---- the interleaving model: every schedule ------------------------------ *)

(* at most one interim response per request (parser object) *)
Theorem C19_count : forall sched i, cnt i (CE.outlog (CE.run sched)) <= 1.
Proof. exact CP.count_le_one. Qed.
Print Assumptions C19_count.

(* exactly one, and nobody is left waiting: at every point where no thread is
   inside a critical section of requests_lock, if the connection is up and not
   closing and the request under construction has finished an asking header
   block and nothing is queued or in service before it, its interim response has
   been appended (by the I/O thread or by the worker that finished the
   preceding request), exactly once *)
Theorem C19_wait : forall sched q,
  let s := CE.run sched in
  CE.rlock s = false -> CE.connected s = true -> CE.close_when_flushed s = false ->
  CE.requests s = [] -> CE.request s = Some q -> CE.a_hf q = true -> CE.g_asked q = true ->
  cnt (CE.rid q) (CE.outlog s) = 1 /\ CE.a_expect q = false /\ CE.sent_continue s = true.
Proof. exact CP.never_left_waiting. Qed.
Print Assumptions C19_wait.

(* while it is not yet its turn nothing has been sent for it *)
Theorem C19_deferred : forall sched q,
  let s := CE.run sched in
  CE.rlock s = false -> CE.request s = Some q -> CE.a_expect q = true ->
  cnt (CE.rid q) (CE.outlog s) = 0.
Proof. exact CP.deferred_while_queued. Qed.
Print Assumptions C19_deferred.

(* the two sending sites exclude each other; one worker at a time *)
Theorem C19_exclusive : forall sched,
  let s := CE.run sched in
  (CE.rlock s = true <-> (CE.io s <> CE.IOIdle \/ In CE.WSend (CE.active s))) /\
  length (CE.active s) + CE.queued s <= 1 /\
  ~ (CE.io s <> CE.IOIdle /\ In CE.WSend (CE.active s)).
Proof. exact CP.senders_exclusive. Qed.
Print Assumptions C19_exclusive.

(* where an interim response is appended: under requests_lock, for the object under
   construction, header block finished, asked, nothing queued or in service *)
Theorem C19_site : forall sched c s' l i w,
  CE.step (CE.run sched) c = Some (s', l) -> In (CE.LInterim i w) l ->
  let s := CE.run sched in
  CE.rlock s = true /\ CE.requests s = [] /\
  (exists q, CE.request s = Some q /\ CE.rid q = i /\ CE.a_hf q = true /\ CE.g_asked q = true) /\
  CE.outlog s' = CE.outlog s ++ [CE.TInterim i w] /\
  (c = CE.CIOSend /\ w = false \/ exists k, c = CE.CWSend k /\ w = true).
Proof. exact CP.interim_site. Qed.
Print Assumptions C19_site.

(* position in the sequence of appends: after every chunk of every earlier final
   response, before every chunk of its own and of later final responses *)
Theorem C19_place : forall sched l1 i w l2,
  CE.outlog (CE.run sched) = l1 ++ CE.TInterim i w :: l2 ->
  (forall j, In (CE.TFinal j) l1 -> j < i) /\
  (forall j, In (CE.TFinal j) l2 -> i <= j) /\
  (forall j w', In (CE.TInterim j w') l1 -> j <= i) /\
  (forall j w', In (CE.TInterim j w') l2 -> i <= j).
Proof. exact CP.interim_position. Qed.
Print Assumptions C19_place.

(* HTTP/1.0 and requests that did not ask: none *)
Theorem C19_none : forall sched,
  (forall ev more, In (CE.CIOParse ev more) sched -> CP.ev_asks ev = false) ->
  forall i w, ~ In (CE.TInterim i w) (CE.outlog (CE.run sched)).
Proof. exact CP.no_interim_unless_asked. Qed.
Print Assumptions C19_none.

Theorem C19_asked : forall sched i w,
  In (CE.TInterim i w) (CE.outlog (CE.run sched)) -> In i (CE.askers (CE.run sched)).
Proof. exact CP.interim_only_if_asked. Qed.
Print Assumptions C19_asked.

(* a queued request is complete, not empty and only its own header block was parsed into it *)
Theorem C19_own : forall sched r,
  In r (CE.requests (CE.run sched)) ->
  CE.a_completed r = true /\ CE.a_empty r = false /\ CE.g_heads r <= 1.
Proof. exact CP.queued_own_head. Qed.
Print Assumptions C19_own.

(* the request is never lost: a completed request does not stay under construction *)
Theorem C19_not_lost : forall sched q,
  (forall m, CE.io (CE.run sched) <> CE.IOSend m) -> CE.request (CE.run sched) = Some q ->
  CE.a_completed q = false.
Proof. exact CP.completed_never_kept. Qed.
Print Assumptions C19_not_lost.

(* ... in particular one that was complete (or refused) at the end of its header
   block while at the head of the line is queued by the step that sends its
   interim response (the class of the former findings F5/F6) *)
Theorem C19_send_then_queue : forall sched s' l,
  CE.step (CE.run sched) CE.CIOSend = Some (s', l) ->
  forall q, CE.request (CE.run sched) = Some q -> CE.a_completed q = true ->
  CE.request s' = None /\ CE.sent_continue s' = false /\
  (CE.a_empty q = false -> CE.requests s' = [q] /\ In (CE.LQueue (CE.rid q)) l /\ In CE.LAddTask l).
Proof. exact CP.send_then_queue. Qed.
Print Assumptions C19_send_then_queue.

(* ---- the parser and the sequential channel: every byte stream, every segmentation *)

Theorem C19_parser_sim : forall a p data p' n q,
  Parser.received a p data = ROk p' n -> CS.flags_eq q p -> CS.sim_goal q p p'.
Proof. exact CS.abs_sim. Qed.
Print Assumptions C19_parser_sim.

Theorem C19_flag_only_11 : forall a p data p' n,
  Parser.received a p data = ROk p' n ->
  expect_continue p = false -> expect_continue p' = true ->
  version p' = s_1_1 /\ expect_value p' = true /\ body p = None /\ completed p = false.
Proof. exact CS.flag_only_11. Qed.
Print Assumptions C19_flag_only_11.

Theorem C19_seq_refines : forall a reads c rs,
  CS.feed_obs a chan_init reads = (COk c, rs) ->
  exists sched, CS.mrel c (CE.run sched) /\ CE.io (CE.run sched) = CE.IOIdle /\
                CE.rlock (CE.run sched) = false /\ CS.justified rs sched.
Proof. exact CS.seq_refines. Qed.
Print Assumptions C19_seq_refines.

Theorem C19_seq_obs_is_feed : forall a reads c, fst (CS.feed_obs a c reads) = feed a c reads.
Proof. exact CS.feed_obs_fst. Qed.
Print Assumptions C19_seq_obs_is_feed.

Theorem C19_seq_none : forall a reads c rs,
  CS.feed_obs a chan_init reads = (COk c, rs) ->
  (forall r, In r rs -> version r = s_1_1 -> expect_value r = true -> False) ->
  outlog c = [].
Proof. exact CS.seq_no_interim. Qed.
Print Assumptions C19_seq_none.

(* for all pipelines and all segmentations the object under construction is
   well-formed: not completed; header block finished => it has a body receiver
   (it never parses a second header block); before that, no header field *)
Theorem C19_seq_wf : forall a reads c0 c,
  feed a c0 reads = COk c -> CS.wf_cur c0 -> CS.wf_cur c.
Proof. exact CS.seq_wf_run. Qed.
Print Assumptions C19_seq_wf.

(* ---- the pipelines of the former findings F5/F6 -------------------------------- *)

Theorem C19_former_F5 : exists c,
  feed CS.adj_default chan_init [CS.req_a_expect_nobody ++ CS.req_b_plain] = COk c /\
  outlog c = continue_bytes /\
  map path (requests c) = [[47;97]%N; [47;98]%N] /\
  map (fun r => hget (headers r) s_EXPECT) (requests c) = [Some s_100_continue; None] /\
  add_task_calls c = 1%nat /\ request c = None /\ sent_continue c = false.
Proof. exact CS.ex_former_F5. Qed.
Print Assumptions C19_former_F5.

Theorem C19_former_F6 : exists c r,
  feed CS.adj_small_body chan_init [CS.req_a_expect_big] = COk c /\
  outlog c = continue_bytes /\ requests c = [r] /\ add_task_calls c = 1%nat /\
  request c = None /\ error r = Some EBodyTooLarge /\ completed r = true.
Proof. exact CS.ex_former_F6. Qed.
Print Assumptions C19_former_F6.

(* ---------------------------------------------------------------------------------------------
   Placement of the interim response at BYTE level (Model/ChanOut.v: send_continue appends the 25
   bytes to self.outbufs[-1] and flushes; write_soon / _flush_some over the buffer model of C17;
   proofs in Proof/ChanOut.v).  For every configuration, every history before and after the
   send_continue() call (responses written as bytes or handed over as file-wrapper buffers, partial
   sends, socket errors), the bytes on the socket followed by the bytes still queued are: everything
   written before, then "HTTP/1.1 100 Continue\r\n\r\n" once, then everything written after -- the
   interim response is never inside another response, also when the previous response is a file
   buffer that is still queued (C19_continue_behind_file). *)
From WV Require Model.Buffers Model.ChanOut Proof.ChanOut.
Module CO := WV.Model.ChanOut.
Module COP := WV.Proof.ChanOut.

Theorem C19_continue_bytes_in_order : forall (c : CO.cfg) (ps1 ps2 : list CO.cop) (ans : list CO.answer),
  COP.cfg_ok c -> Forall COP.cop_ok ps1 -> Forall COP.cop_ok ps2 ->
  let r := CO.crun c CO.chan_new (ps1 ++ CO.CContinue ans :: ps2) in
  snd r ++ COP.cabs (fst r) =
    concat (map CO.written_by ps1) ++ CO.continue_payload ++ concat (map CO.written_by ps2).
Proof. exact COP.continue_in_order. Qed.
Print Assumptions C19_continue_bytes_in_order.

Theorem C19_continue_behind_file :
  let r := CO.crun COP.ex_cfg CO.chan_new
             [CO.CWrite (CO.WBytes [1;2]%N) []; CO.CWrite (CO.WFile COP.ex_file) [];
              CO.CContinue (CO.Sent 1 :: repeat (CO.Sent 100) 20)] in
  snd r = [1;2;8;7;6;5]%N ++ CO.continue_payload /\ COP.cabs (fst r) = [].
Proof. exact COP.ex_continue_behind_file. Qed.
Print Assumptions C19_continue_behind_file.
