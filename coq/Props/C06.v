(* C06 -- Oversize and malformed input is refused totally: error response, close, no crash.
   Statements only; proofs in Proof/ReceiverTotal.v (chunked loop), Proof/ParserTotal.v
   (HTTPRequestParser.received), Proof/ParserTotalChan.v (HTTPChannel.received) and
   Proof/ParserTotalLimits.v (limits).  The error response itself (ErrorTask) is checked on
   the real code by checks/C06.py (harness/limit_search.py, P3) and, since the C03 package
   proved its frame theorems for error tasks, proved here by composition
   (Proof/C06ErrWf.v: C06_error_response_wf). *)
From Coq Require Import String.
From Coq Require Import List NArith ZArith Bool.
From RecordUpdate Require Import RecordUpdate.
From WV Require Import Lib.PyBytes Model.Receiver Model.Parser Model.ChanSeq
  Proof.ReceiverTotal Proof.ParserTotal Proof.ParserTotalChan Proof.ParserTotalLimits
  Proof.ParserTotalExamples
  Gen.GenTables Model.Task Spec.ClientParse Proof.TaskHead Proof.TaskFrameClient Proof.TaskFrame2Err Proof.C06ErrWf
  Gen.GenPreds Proof.ServerBase Proof.ServerLoop.
Import ListNotations.
Local Open Scope N_scope.

(* the chunked loop terminates on every state and every input *)
Theorem C06_chunked_terminates : forall st s, chunked_received st s <> None.
Proof. exact chunked_received_total. Qed.
Print Assumptions C06_chunked_terminates.

(* on a well-formed state it consumes between 1 and len(data) bytes (all of them
   unless it completed), stays well-formed, and its carry fields grow by at most
   the number of bytes consumed *)
Theorem C06_chunked_consumed : forall st s, wf_c st -> c_completed st = false -> s <> [] ->
  exists st' n, chunked_received st s = Some (st', n) /\ wf_c st'
    /\ (1 <= n <= Z.of_nat (length s))%Z
    /\ (Z.of_nat (phi st') <= Z.of_nat (phi st) + n)%Z
    /\ (c_completed st' = false -> n = Z.of_nat (length s)).
Proof. exact chunked_received_spec. Qed.
Print Assumptions C06_chunked_consumed.

(* HTTPRequestParser.received is total on every well-formed open parser and every
   non-empty read: never REscapes (an exception leaving received()), never
   ROutOfFuel; it consumes between 1 and len(data) bytes and the parser is then
   completed or well-formed again.  RUnmodelled = request-target with a bracketed
   host, outside UrlSplit.v (a modelling gap, not an outcome of the code). *)
Theorem C06_parser_total : forall a p data, wf_p a p -> data <> [] ->
  received a p data = RUnmodelled \/
  exists p' n, received a p data = ROk p' n /\ (1 <= n <= Z.of_nat (length data))%Z /\
               (completed p' = true \/ wf_p a p').
Proof. exact received_total. Qed.
Print Assumptions C06_parser_total.

(* HTTPChannel.received: no CEscapes, no COutOfFuel (every iteration of the
   `while data` loop consumes at least one byte), for every channel state whose
   request under construction is well-formed, and that is an invariant *)
Theorem C06_total : forall a c data, wf_chan a c ->
  chan_received a c data = CUnmodelled \/
  exists c', chan_received a c data = COk c' /\ wf_chan a c'.
Proof. exact chan_received_total. Qed.
Print Assumptions C06_total.

(* ... hence for every sequence of reads from a fresh connection *)
Theorem C06_total_reads : forall a reads,
  feed a chan_init reads = CUnmodelled \/
  exists c', feed a chan_init reads = COk c' /\ wf_chan a c'.
Proof. intros a reads. apply feed_total. apply wf_chan_init. Qed.
Print Assumptions C06_total_reads.

(* header limit: the message is completed with 431 exactly when the head seen so
   far (position just after the first CRLFCRLF, or all bytes while there is none)
   reaches max_request_header_size; boundary is >= *)
Theorem C06_header_limit : forall a hp data p' n,
  received a (P0 hp) data = ROk p' n ->
  (max_request_header_size a <= head_pos (hp ++ data) <->
   (completed p' = true /\ error p' = Some EHeaderTooLarge)).
Proof. exact header_limit. Qed.
Print Assumptions C06_header_limit.

(* declared length: 413 at the end of the head only if 0 < Content-Length and
   Content-Length >= max_request_body_size; a request that leaves the head phase
   without error has Content-Length 0 or < max_request_body_size *)
Theorem C06_body_limit_declared : forall a hp data p' n,
  received a (P0 hp) data = ROk p' n ->
  (error p' = Some EBodyTooLarge ->
     completed p' = true /\ 0 < content_length p' /\ max_request_body_size a <= content_length p') /\
  (error p' = None ->
     content_length p' = 0 \/ content_length p' < max_request_body_size a).
Proof. exact body_limit_declared. Qed.
Print Assumptions C06_body_limit_declared.

(* running count (chunked wire bytes, or fixed body bytes): 413 exactly when the
   count reaches max_request_body_size *)
Theorem C06_body_limit_running : forall a p br data p' n,
  wf_p a p -> body p = Some br -> received a p data = ROk p' n ->
  body_bytes_received p' = (body_bytes_received p + n)%Z /\
  ((Z.of_N (max_request_body_size a) <= body_bytes_received p + n)%Z <->
     (completed p' = true /\ error p' = Some EBodyTooLarge)).
Proof. exact body_limit_running. Qed.
Print Assumptions C06_body_limit_running.

(* a closing channel consumes nothing (the close decision itself is C11's) *)
Theorem C06_stop : forall a c data,
  will_close c || close_when_flushed c = true -> chan_received a c data = COk c.
Proof. exact chan_stop. Qed.
Print Assumptions C06_stop.

(* memory: an open request holds less than max_request_header_size head bytes and,
   in a chunked body, control line + chunk terminator + trailer carry is bounded by
   the wire bytes counted, which stay below max_request_body_size *)
Theorem C06_carry_bounded : forall a p, wf_p a p ->
  (header_plus p = [] \/ lenN (header_plus p) < max_request_header_size a) /\
  (forall c, body p = Some (BChunked c) ->
     (Z.of_nat (length (control_line c) + length (chunk_end c) + length (trailer c)) <= body_bytes_received p)%Z /\
     (body_bytes_received p = 0 \/ body_bytes_received p < Z.of_N (max_request_body_size a))%Z).
Proof. exact carry_bounded. Qed.
Print Assumptions C06_carry_bounded.

(* the three boundaries on concrete streams, whole and byte-wise (limit - 1: delivered
   without error; limit: refused), computed in the model *)
Theorem C06_boundaries :
  (errs (adjx 262144 10) [cl_9] = [None] /\ errs (adjx 262144 10) [cl_10] = [Some EBodyTooLarge]) /\
  (errs (adjx 40 1000) [head_39] = [None] /\ errs (adjx 40 1000) [head_40] = [Some EHeaderTooLarge]) /\
  (errs (adjx 262144 20) [chunked_19] = [None] /\ errs (adjx 262144 20) [chunked_20] = [Some EBodyTooLarge]).
Proof.
  split; [split; [exact (proj1 declared_below) | exact (proj1 declared_at)]|].
  split; [split; [exact (proj1 head_below) | exact (proj1 head_at)]|].
  split; [exact (proj1 chunked_below) | exact (proj1 chunked_at)].
Qed.
Print Assumptions C06_boundaries.

(* The error response.  Every refusal tag e of the parser model stands for an
   instance of one of the four error classes of waitress/utilities.py, whose
   (code, reason) pairs are regenerated from the source on every run
   (Gen/GenTables.v); the class table agrees with the numeric code the limit and
   framing theorems speak about ... *)
Theorem C06_error_class_code : forall e, dec_value (fst (perr_class e)) = perr_code e.
Proof. exact perr_class_code. Qed.
Print Assumptions C06_error_class_code.

(* ... and for EVERY tag, every message text (it may quote request bytes, CR and
   LF included), every configuration with a clean ident / date and every request
   version, the task the channel runs for a request with that error (Model/Task.v,
   ErrorTask) writes bytes that an independent client (Spec/ClientParse.v) reads
   as exactly one complete response with that status line, exactly
   Content-Length body bytes, a single "Connection: close", nothing left over -
   and the connection is closed, no further request is served.  (o_raw res = None:
   the write itself did not fail, i.e. the client was still there.) *)
Theorem C06_error_response_wf : forall c r a e body,
  cfg_clean c -> r_error r = Some (perr_class e, body) -> r_head r = false ->
  let res := run_task c r a None in
  o_raw res = None ->
  let code := fst (perr_class e) in let reason := snd (perr_class e) in
  let bodyb := err_body c reason body in
  exists fields,
    parse_one false (wire (o_writes res))
    = Some (mkResponse (sl_err (r_version r) (code ++ [32] ++ reason)) fields (FLength (lenN bodyb)) bodyb, [])
    /\ filter (field_is (lit "connection"%string)) fields = [(lit "Connection"%string, lit "close"%string)]
    /\ o_close res = true /\ o_next res = false /\ o_served_500 res = false /\ o_escaped res = None.
Proof. exact error_response_wf. Qed.
Print Assumptions C06_error_response_wf.

(* the same for a refused HEAD request: head only (fix 7243240) *)
Theorem C06_error_response_wf_head : forall c r a e body,
  cfg_clean c -> r_error r = Some (perr_class e, body) -> r_head r = true ->
  let res := run_task c r a None in
  o_raw res = None ->
  let code := fst (perr_class e) in let reason := snd (perr_class e) in
  exists fields,
    parse_one true (wire (o_writes res))
    = Some (mkResponse (sl_err (r_version r) (code ++ [32] ++ reason)) fields FNoBody [], [])
    /\ filter (field_is (lit "connection"%string)) fields = [(lit "Connection"%string, lit "close"%string)]
    /\ o_close res = true /\ o_next res = false /\ o_served_500 res = false /\ o_escaped res = None.
Proof. exact error_response_wf_head. Qed.
Print Assumptions C06_error_response_wf_head.

(* "Stops consuming" at the level of the I/O loop.  C06_stop: received() consumes
   nothing once the connection is closing.  The loop-level half: the loop does not
   even dispatch a read event then.  HTTPChannel.readable and BOTH loop bodies
   (wasyncore.poll; poll2 + readwrite, used when asyncore_use_poll is on) are
   regenerated from the source on every run (Gen/GenPreds.v) and Proof/ServerLoop.v
   proves that a read event reaches an object only if its readable() held at scan
   time.  Composed: a channel that is marked will_close or close_when_flushed, has
   output pending, or has more than `lookahead` requests queued gets no
   handle_read_event in that turn - for every answer of the kernel within the
   stated select / poll contract (sub-lists of what was passed; POLLIN / POLLPRI /
   POLLOUT only if registered, error flags unconstrained). *)
Theorem C06_no_read_event_select : forall wc cwf n la tot w a ret_r ret_w ret_e,
  (wc || cwf || (la <? n)%Z || negb (tot =? 0)%Z) = true ->
  select_returns (gen_poll_r (gen_chan_readable wc cwf n la tot) w a)
                 (gen_poll_w (gen_chan_readable wc cwf n la tot) w a)
                 (gen_poll_e (gen_chan_readable wc cwf n la tot) w a) ret_r ret_w ret_e ->
  sel_read (select_turn ret_r ret_w ret_e) = false.
Proof. exact no_read_when_not_readable_select. Qed.
Print Assumptions C06_no_read_event_select.

Theorem C06_no_read_event_poll2 : forall wc cwf n la tot w a rv,
  (wc || cwf || (la <? n)%Z || negb (tot =? 0)%Z) = true ->
  poll_returns (gen_poll2_reg (gen_chan_readable wc cwf n la tot) w a) rv ->
  p2_read (poll2_turn rv) = false.
Proof. exact no_read_when_not_readable_poll2. Qed.
Print Assumptions C06_no_read_event_poll2.
