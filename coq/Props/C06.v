(* C06 -- Oversize and malformed input is refused totally.
   Statements only; proofs in Proof/ReceiverTotal.v, Proof/ParserTotal.v. *)
From Coq Require Import List NArith ZArith.
From WV Require Import Lib.PyBytes Model.Receiver Proof.ReceiverTotal.
Import ListNotations.

(* the chunked loop terminates on every state and every input *)
Theorem C06_chunked_terminates : forall st s, chunked_received st s <> None.
Proof. exact chunked_received_total. Qed.
Print Assumptions C06_chunked_terminates.

(* on a well-formed state it consumes between 1 and len(data) bytes (all of them
   unless it completed), stays well-formed, and its carry fields grow by at most
   the number of bytes consumed *)
Theorem C06_chunked_consumed : forall st s, wf_c st -> c_completed st = false -> s <> [] ->
  exists st' n, chunked_received st s = Some (st', n) /\ wf_c st'
    /\ (1 <= n <= Z.of_nat (length s))%Z
    /\ (Z.of_nat (phi st') <= Z.of_nat (phi st) + n)%Z
    /\ (c_completed st' = false -> n = Z.of_nat (length s)).
Proof. exact chunked_received_spec. Qed.
Print Assumptions C06_chunked_consumed.
