(* C15 -- Untrusted peers cannot influence connection metadata.
   Statements only; proofs in Proof/ProxyC15.v over Model/Proxy.v (a
   transliteration of waitress/proxy_headers.py and of the install condition
   in server.BaseWSGIServer.__init__, tied to the code by K-proxy). *)
From Coq Require Import List NArith ZArith Bool.
From WV Require Import Lib.PyBytes Lib.PyStrProxy Model.Proxy Spec.ProxySpec Proof.ProxyC15.
Import ListNotations.
Local Open Scope N_scope.

(* Two requests of a peer that is not the trusted proxy (none configured, or
   another address; "*" excluded) that differ at most in the six proxy headers
   -- any values, well-formed or not, present or absent -- and any
   configuration (count, trusted kinds, clearing on or off, middleware
   installed or not): both are handed to the application; the two environs
   agree on every key other than those six; every other key -- in particular
   REMOTE_ADDR, REMOTE_HOST, REMOTE_PORT, SERVER_NAME, SERVER_PORT, HTTP_HOST,
   wsgi.url_scheme -- is what it was in the request; with clearing on none of
   the six reaches the application and the two environs are equal on every
   key; with clearing off the environ is untouched. *)
Theorem C15_two_runs : forall c e e' peer,
  lookup k_remote_addr e = Some peer ->
  trusted_proxy c <> Some peer /\ trusted_proxy c <> Some s_star ->
  agree_off is_proxy_key e e' ->
  exists o o',
    serve c e = Ok o /\ serve c e' = Ok o' /\
    agree_off is_proxy_key o o' /\
    (forall k, is_proxy_key k = false -> lookup k o = lookup k e) /\
    (forall k, In k metadata_keys -> lookup k o = lookup k e) /\
    (clear_untrusted c = true -> (forall k, is_proxy_key k = true -> lookup k o = None) /\
                                 (forall k, lookup k o = lookup k o')) /\
    (clear_untrusted c = false -> o = e).
Proof. exact c15_two_runs. Qed.
Print Assumptions C15_two_runs.

(* The property as worded: against the same request with those headers deleted. *)
Theorem C15_same_as_deleted : forall c e peer,
  lookup k_remote_addr e = Some peer ->
  trusted_proxy c <> Some peer /\ trusted_proxy c <> Some s_star ->
  exists o o',
    serve c e = Ok o /\ serve c (delete_proxy_headers e) = Ok o' /\
    agree_off is_proxy_key o o' /\
    (forall k, In k metadata_keys -> lookup k o = lookup k e /\ lookup k o' = lookup k e) /\
    (clear_untrusted c = true -> (forall k, is_proxy_key k = true -> lookup k o = None) /\
                                 (forall k, lookup k o = lookup k o')).
Proof. exact c15_deleted. Qed.
Print Assumptions C15_same_as_deleted.

(* deleting really deletes exactly the six *)
Theorem C15_deleted_is_deleted : forall k e,
  lookup k (delete_proxy_headers e) = if is_proxy_key k then None else lookup k e.
Proof. exact lookup_delete. Qed.
Print Assumptions C15_deleted_is_deleted.

(* The install condition: the application is wrapped exactly when a trusted
   proxy (a non-empty string) or clearing is configured; otherwise nothing is
   parsed or removed at all. *)
Theorem C15_install_condition : forall c,
  (installed c = true <-> (exists x t, trusted_proxy c = Some (x :: t)) \/ clear_untrusted c = true) /\
  (installed c = false -> forall e, serve c e = Ok e).
Proof. exact c15_install. Qed.
Print Assumptions C15_install_condition.
