(* C15 -- Untrusted peers cannot influence connection metadata.
   Statements only; proofs in Proof/ProxyC15.v over Model/Proxy.v (a
   transliteration of waitress/proxy_headers.py and of the install condition
   in server.BaseWSGIServer.__init__, tied to the code by K-proxy). *)
From Coq Require Import List NArith ZArith Bool.
From WV Require Import Lib.PyBytes Lib.PyStrProxy Model.Proxy Spec.ProxySpec Proof.ProxyC15.
Import ListNotations.
Local Open Scope N_scope.

(* Two requests of a peer that is not the trusted proxy (none configured, or
   another address; "*" excluded) that differ at most in the six proxy headers
   -- any values, well-formed or not, present or absent -- and any
   configuration (count, trusted kinds, clearing on or off, middleware
   installed or not): both are handed to the application; the two environs
   agree on every key other than those six; every other key -- in particular
   REMOTE_ADDR, REMOTE_HOST, REMOTE_PORT, SERVER_NAME, SERVER_PORT, HTTP_HOST,
   wsgi.url_scheme -- is what it was in the request; with clearing on none of
   the six reaches the application and the two environs are equal on every
   key; with clearing off the environ is untouched. *)
Theorem C15_two_runs : forall c e e' peer,
  lookup k_remote_addr e = Some peer ->
  trusted_proxy c <> Some peer /\ trusted_proxy c <> Some s_star ->
  agree_off is_proxy_key e e' ->
  exists o o',
    serve c e = Ok o /\ serve c e' = Ok o' /\
    agree_off is_proxy_key o o' /\
    (forall k, is_proxy_key k = false -> lookup k o = lookup k e) /\
    (forall k, In k metadata_keys -> lookup k o = lookup k e) /\
    (clear_untrusted c = true -> (forall k, is_proxy_key k = true -> lookup k o = None) /\
                                 (forall k, lookup k o = lookup k o')) /\
    (clear_untrusted c = false -> o = e).
Proof. exact c15_two_runs. Qed.
Print Assumptions C15_two_runs.

(* The property as worded: against the same request with those headers deleted. *)
Theorem C15_same_as_deleted : forall c e peer,
  lookup k_remote_addr e = Some peer ->
  trusted_proxy c <> Some peer /\ trusted_proxy c <> Some s_star ->
  exists o o',
    serve c e = Ok o /\ serve c (delete_proxy_headers e) = Ok o' /\
    agree_off is_proxy_key o o' /\
    (forall k, In k metadata_keys -> lookup k o = lookup k e /\ lookup k o' = lookup k e) /\
    (clear_untrusted c = true -> (forall k, is_proxy_key k = true -> lookup k o = None) /\
                                 (forall k, lookup k o = lookup k o')).
Proof. exact c15_deleted. Qed.
Print Assumptions C15_same_as_deleted.

(* deleting really deletes exactly the six *)
Theorem C15_deleted_is_deleted : forall k e,
  lookup k (delete_proxy_headers e) = if is_proxy_key k then None else lookup k e.
Proof. exact lookup_delete. Qed.
Print Assumptions C15_deleted_is_deleted.

(* The install condition: the application is wrapped exactly when a trusted
   proxy (a non-empty string) or clearing is configured; otherwise nothing is
   parsed or removed at all. *)
Theorem C15_install_condition : forall c,
  (installed c = true <-> (exists x t, trusted_proxy c = Some (x :: t)) \/ clear_untrusted c = true) /\
  (installed c = false -> forall e, serve c e = Ok e).
Proof. exact c15_install. Qed.
Print Assumptions C15_install_condition.

(* ======================================================================== *)
(* End to end, from the request BYTES (appended).

   The theorems above speak about environ dictionaries.  The ones below close
   the gap to the wire by composing with the C07 model of the environ
   construction (Model/Parser.v -> Model/Environ.v, tied by K-env) through the
   bridge Model/ProxyEnviron.v; proofs in Proof/C15Compose.v on top of C07's
   lemmas (Proof/Environ*.v) and c15_two_runs.

   Vocabulary.  [feed_all a ds = Some p]: the bytes [ds] (any segmentation)
   offered to a fresh parser under limits/url_scheme [a] leave it in state
   [p]; [accepted p]: completed, no error, not the empty request;
   [head_parts (concat ds) = Some (fl, lines)]: request line and header lines
   (folded lines joined, empty lines dropped) as a FUNCTION of the bytes;
   [ctx]: channel.addr (TCP or unix peer), server_name, effective_port,
   url_prefix, ident; [environ_of ctx p]: the str entries of
   WSGITask.get_environment; [serve_request cfg ctx p]: what
   server.application does with it (middleware installed or not).
   [line_name l]: the text before the first colon; [maps_to n k]: a line named
   n contributes to environ key k; [key_lines k lines]: the lines that do;
   [value_of_lines]: their values stripped of SP/HTAB, joined by ", " in
   arrival order (None when there is none). *)
From RecordUpdate Require Import RecordUpdate.
From WV Require Import Model.Receiver Model.Parser Model.Environ Model.ProxyEnviron Spec.Pep3333
  Proof.EnvironDict Proof.EnvironRun Proof.C15Compose Proof.C15ComposeExamples.

(* (1a) For EVERY parser state -- any header dictionary whatsoever, reachable
   or not -- and every context: REMOTE_ADDR and REMOTE_HOST are channel.addr[0],
   REMOTE_PORT is str(channel.addr[1]), SERVER_NAME / SERVER_PORT are the
   server's, wsgi.url_scheme is the parser's url_scheme attribute (for an
   accepted request that is adj.url_scheme: C15_e2e_environ_keys).  No request
   header line occurs on the right-hand sides. *)
Theorem C15_e2e_context_keys : forall (ctx : Environ.config) (p : parser) (h : hdict),
  let e := environ_of ctx (p <| headers := h |>) in
  lookup k_remote_addr e = Some (addr0 (peer_addr ctx)) /\
  lookup k_remote_host e = Some (addr0 (peer_addr ctx)) /\
  lookup k_remote_port e = Some (str_addr1 (peer_addr ctx)) /\
  lookup k_server_name e = Some (server_name ctx) /\
  lookup k_server_port e = Some (str_port (effective_port ctx)) /\
  lookup k_url_scheme e = Some (url_scheme p).
Proof. exact c15_e2e_context_keys. Qed.
Print Assumptions C15_e2e_context_keys.

(* [meta_fixed a ctx lines o]: in o the seven metadata keys are what the
   context, adj.url_scheme and the Host line(s) alone determine *)
Theorem C15_e2e_meta_fixed_means : forall a ctx lines o,
  meta_fixed a ctx lines o <->
  lookup k_remote_addr o = Some (addr0 (peer_addr ctx)) /\
  lookup k_remote_host o = Some (addr0 (peer_addr ctx)) /\
  lookup k_remote_port o = Some (str_addr1 (peer_addr ctx)) /\
  lookup k_server_name o = Some (server_name ctx) /\
  lookup k_server_port o = Some (str_port (effective_port ctx)) /\
  lookup k_url_scheme o = Some (adj_url_scheme a) /\
  lookup k_http_host o = value_of_lines (filter host_line lines).
Proof. exact meta_fixed_spelled. Qed.
Print Assumptions C15_e2e_meta_fixed_means.

(* (1b) One accepted request, from the bytes.  The task's environ has the
   seven metadata keys fixed as above (HTTP_HOST a function of the lines named
   "host" only); every header key the framing code does not touch -- HTTP_HOST
   and the six proxy keys among them -- is the joined value of exactly the
   lines whose name maps to it; for each of the six proxy keys those lines are
   lines of the request whose name is one of the six names (proxy_line) and
   contains no underscore.  So a proxy key is absent unless such a line was sent. *)
Theorem C15_e2e_environ_keys : forall a ds p fl lines (ctx : Environ.config),
  feed_all a ds = Some p -> accepted p -> head_parts (concat ds) = Some (fl, lines) ->
  meta_fixed a ctx lines (environ_of ctx p) /\
  (forall ek, plain_key ek = true -> lookup ek (environ_of ctx p) = value_of_lines (key_lines ek lines)) /\
  (forall pk, is_proxy_key pk = true ->
     lookup pk (environ_of ctx p) = value_of_lines (key_lines pk lines) /\
     (forall l, In l (key_lines pk lines) -> In l lines /\ proxy_line l = true /\ underscore_name_line l = false)).
Proof. exact e2e_environ_keys. Qed.
Print Assumptions C15_e2e_environ_keys.

(* (1c) Which header names reach which key -- parser.py:232-238 and
   task.py:576-581 composed: the name is compared ASCII case-insensitively with
   the "-" spelling ("x-forwarded-for", ..., "forwarded", "host"), and a name
   containing "_" (X_Forwarded_For, X-Forwarded_For, x_forwarded_for ...) maps
   to NO key at all: the parser drops the line. *)
Theorem C15_e2e_names : forall n,
  maps_to n k_xff = beqb (lower_ascii n) n_xff /\
  maps_to n k_xfh = beqb (lower_ascii n) n_xfh /\
  maps_to n k_xfproto = beqb (lower_ascii n) n_xfproto /\
  maps_to n k_xfport = beqb (lower_ascii n) n_xfport /\
  maps_to n k_xfby = beqb (lower_ascii n) n_xfby /\
  maps_to n k_fwd = beqb (lower_ascii n) n_fwd /\
  maps_to n k_http_host = beqb (lower_ascii n) n_host /\
  (has_underscore n = true -> forall ek, maps_to n ek = false).
Proof. exact e2e_names. Qed.
Print Assumptions C15_e2e_names.

(* ... and [proxy_line], defined by those six names, is exactly "maps to one of
   the six proxy keys" *)
Theorem C15_e2e_proxy_line : forall l, proxy_line l = existsb (maps_to (line_name l)) proxy_keys.
Proof. exact proxy_line_spec. Qed.
Print Assumptions C15_e2e_proxy_line.

(* Whether an accepted request is chunked is decided by its version and its
   Transfer-Encoding line(s) -- lines that are never ignorable; so two requests
   as in (2) below have the same framing verdict, and "same body" there only
   has to say that wsgi.input yields the same bytes. *)
Theorem C15_e2e_framing_verdict : forall a ds p fl lines,
  feed_all a ds = Some p -> accepted p -> head_parts (concat ds) = Some (fl, lines) ->
  chunked p = beqb (version p) s_1_1 && nonnil (te_encodings (te_of_lines lines)) /\
  te_of_lines (kept_lines lines) = te_of_lines lines.
Proof. exact c15_e2e_chunked. Qed.
Print Assumptions C15_e2e_framing_verdict.

(* (2) The composition.  Two byte-level requests (any segmentation each) that
   are both accepted, have the same request line, the same body ([same_body]:
   get_body_stream, what wsgi.input yields, is the same byte string),
   and header lines that differ at most in lines named like one of the six
   proxy headers and in lines whose name contains an underscore (any values,
   any number, anywhere); a peer that is not the trusted proxy ("*" excluded);
   any configuration.  Then both are handed to the application; the two
   environs agree on every key other than the six; in both the seven metadata
   keys are what the context, adj.url_scheme and the Host line determine; with
   clearing on none of the six reaches the application and the two environs are
   equal on every key; with clearing off the environ is the task's, and each of
   the six is exactly what the "-"-spelled lines of that request say. *)
Theorem C15_e2e_two_requests : forall a ds ds' p p' fl lines lines' (ctx : Environ.config) (cfg : Proxy.config),
  feed_all a ds = Some p -> accepted p ->
  feed_all a ds' = Some p' -> accepted p' ->
  head_parts (concat ds) = Some (fl, lines) -> head_parts (concat ds') = Some (fl, lines') ->
  kept_lines lines = kept_lines lines' -> same_body p p' ->
  trusted_proxy cfg <> Some (addr0 (peer_addr ctx)) /\ trusted_proxy cfg <> Some s_star ->
  exists o o',
    serve_request cfg ctx p = Ok o /\ serve_request cfg ctx p' = Ok o' /\
    agree_off is_proxy_key o o' /\
    meta_fixed a ctx lines o /\ meta_fixed a ctx lines' o' /\
    filter host_line lines = filter host_line lines' /\
    (clear_untrusted cfg = true ->
       (forall k, is_proxy_key k = true -> lookup k o = None /\ lookup k o' = None) /\
       (forall k, lookup k o = lookup k o')) /\
    (clear_untrusted cfg = false ->
       o = environ_of ctx p /\ o' = environ_of ctx p' /\
       forall pk, is_proxy_key pk = true ->
         lookup pk o = value_of_lines (key_lines pk lines) /\
         lookup pk o' = value_of_lines (key_lines pk lines')).
Proof. exact c15_e2e_two_requests. Qed.
Print Assumptions C15_e2e_two_requests.

(* ... as the property words it: against the same request with the proxy
   header lines deleted.  That request never carries any of the six. *)
Theorem C15_e2e_same_as_deleted : forall a ds ds' p p' fl lines lines' (ctx : Environ.config) (cfg : Proxy.config),
  feed_all a ds = Some p -> accepted p ->
  feed_all a ds' = Some p' -> accepted p' ->
  head_parts (concat ds) = Some (fl, lines) -> head_parts (concat ds') = Some (fl, lines') ->
  lines' = filter (fun l => negb (proxy_line l)) lines -> same_body p p' ->
  trusted_proxy cfg <> Some (addr0 (peer_addr ctx)) /\ trusted_proxy cfg <> Some s_star ->
  exists o o',
    serve_request cfg ctx p = Ok o /\ serve_request cfg ctx p' = Ok o' /\
    agree_off is_proxy_key o o' /\
    meta_fixed a ctx lines o /\ meta_fixed a ctx lines o' /\
    (forall k, is_proxy_key k = true -> lookup k o' = None) /\
    (clear_untrusted cfg = true ->
       (forall k, is_proxy_key k = true -> lookup k o = None) /\ (forall k, lookup k o = lookup k o')).
Proof. exact c15_e2e_deleted. Qed.
Print Assumptions C15_e2e_same_as_deleted.

(* One request. *)
Theorem C15_e2e_one_request : forall a ds p fl lines (ctx : Environ.config) (cfg : Proxy.config),
  feed_all a ds = Some p -> accepted p -> head_parts (concat ds) = Some (fl, lines) ->
  trusted_proxy cfg <> Some (addr0 (peer_addr ctx)) /\ trusted_proxy cfg <> Some s_star ->
  exists o,
    serve_request cfg ctx p = Ok o /\ meta_fixed a ctx lines o /\
    (forall k, is_proxy_key k = false -> lookup k o = lookup k (environ_of ctx p)) /\
    (clear_untrusted cfg = true -> forall k, is_proxy_key k = true -> lookup k o = None) /\
    (clear_untrusted cfg = false -> o = environ_of ctx p).
Proof. exact c15_e2e_one_request. Qed.
Print Assumptions C15_e2e_one_request.

(* The bridge between the two component models is sound: the environ of the
   task has no repeated key (it is a dict), so the middleware model reads under
   every key exactly the str the task put there (None for a non-str entry). *)
Theorem C15_e2e_bridge : forall (ctx : Environ.config) p k,
  NoDup (map fst (get_environment ctx p)) /\
  lookup k (environ_of ctx p) = match eget (get_environment ctx p) k with Some (VStr s) => Some s | _ => None end.
Proof. exact c15_e2e_bridge. Qed.
Print Assumptions C15_e2e_bridge.

(* [head_parts] really is the head of the run: the header block C07's theorems
   speak about (head_of / head_lines, existentially) is the one computed here. *)
Theorem C15_e2e_head_parts : forall a ds p,
  feed_all a ds = Some p -> accepted p ->
  exists hp fl lines, head_of ds hp /\ EnvironFields.head_lines hp fl lines /\
                      head_parts (concat ds) = Some (fl, lines).
Proof. exact c15_e2e_head_parts. Qed.
Print Assumptions C15_e2e_head_parts.
