(* C05 -- no lost wake-up: responses are delivered without relying on the poll timeout.
   Model: Model/ChanWake.v (the poll timeout does not exist).  For ALL schedules (all
   interleavings of the I/O thread, n workers, the client, the kernel's answers to every
   send/recv and the application's write pattern), all lookaheads, send_bytes and
   high watermarks >= 1, both poll orders: in a quiescent state (I/O thread asleep in
   select, every worker parked on queue_cv or on outbuf_lock's condition) there is no
   undelivered output, no unserviced request or unread client data, no parked producer,
   and a pending close has been carried out -- outside the classes of the three findings
   (outbuf_high_watermark = 0; a producer that starts waiting after handle_close; the flush of
   a worker-side send_continue raising), each of which is refuted by a concrete schedule.
   C05_partial_stuck: the same for "no thread can move at all" (no deadlock on the two
   locks).  C05_app_partial: the same when workers may also sit inside the application, with
   "fewer than send_bytes bytes pending" in place of "no pending output" (send_bytes <=
   high watermark). *)
From Coq Require Import List ZArith Bool.
From WV Require Import Lib.Conc Model.ChanWake Proof.ChanWakeInv Proof.ChanWake Proof.ChanWakeWitness.
Import ListNotations.
Open Scope Z_scope.

Theorem C05_invariant : forall c nw sched,
  0 <= hw c -> (0 < nw)%nat -> taint (runc c nw sched) = false -> Inv c (runc c nw sched).
Proof. exact inv_reachable. Qed.
Print Assumptions C05_invariant.

Theorem C05_partial : forall c nw sched,
  1 <= hw c -> (0 < nw)%nat ->
  quiescent_parked (runc c nw sched) = true ->
  in_kf_class (runc c nw sched) = false ->
  c05_ok (runc c nw sched) = true.
Proof. exact c05_partial. Qed.
Print Assumptions C05_partial.

(* for the widest notion of quiescence -- no thread of the server can move at all: then nobody
   is stuck on a lock (no deadlock), every worker is parked, and the predicate holds *)
Theorem C05_partial_stuck : forall c nw sched,
  1 <= hw c -> (0 < nw)%nat ->
  quiescent (runc c nw sched) = true ->
  in_kf_class (runc c nw sched) = false ->
  quiescent_parked (runc c nw sched) = true /\ c05_ok (runc c nw sched) = true.
Proof. exact c05_partial_stuck. Qed.
Print Assumptions C05_partial_stuck.

(* workers may also sit inside the application (a streaming application that waits for its
   consumer): then at most send_bytes - 1 bytes are left unsent (0 for the default send_bytes = 1) *)
Theorem C05_app_partial : forall c nw sched,
  1 <= hw c -> sb c <= hw c -> (0 < nw)%nat ->
  quiescent_app (runc c nw sched) = true ->
  in_kf_class (runc c nw sched) = false ->
  app_ok c (runc c nw sched) = true.
Proof. exact c05_app_partial. Qed.
Print Assumptions C05_app_partial.

Theorem C05_partial_unfolded : forall c nw sched s,
  1 <= hw c -> (0 < nw)%nat -> s = runc c nw sched ->
  quiescent_parked s = true -> taint s = false -> existsb parked_after_close (ws s) = false ->
  (closed s = false -> total s = 0 /\ pend s = 0) /\
  (closed s = false -> nreq s = 0%nat /\ queue s = 0%nat /\ rx s = []) /\
  (forall j p, nth_error (ws s) j = Some p -> parked_o p = false) /\
  (wc s = true \/ cwf s = true -> closed s = true).
Proof. exact c05_partial_unfolded. Qed.
Print Assumptions C05_partial_unfolded.

Theorem C05_refuted_watermark0 :
  exists c nw sched, hw c = 0 /\
    let s := run (step c) (init nw) sched in
    quiescent_parked s = true /\ in_kf_class s = false /\ no_producer_parked s = false.
Proof. exact refuted_watermark0. Qed.
Print Assumptions C05_refuted_watermark0.

Theorem C05_refuted_park_after_close :
  exists c nw sched, 1 <= hw c /\
    let s := run (step c) (init nw) sched in
    quiescent_parked s = true /\ taint s = false /\ no_producer_parked s = false.
Proof. exact refuted_park_after_close. Qed.
Print Assumptions C05_refuted_park_after_close.

Theorem C05_refuted_worker_continue :
  exists c nw sched, 1 <= hw c /\
    let s := run (step c) (init nw) sched in
    quiescent_parked s = true /\ taint s = true /\ no_pending_output s = false.
Proof. exact refuted_worker_continue. Qed.
Print Assumptions C05_refuted_worker_continue.
