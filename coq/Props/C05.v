(* C05 -- no lost wake-up: responses are delivered without relying on the poll timeout.
   Model: Model/ChanWake.v (the poll timeout does not exist).  For ALL schedules (all
   interleavings of the I/O thread, n workers, the client, the kernel's answers to every
   send/recv and the application's write pattern), all lookaheads, send_bytes and
   high watermarks >= 0, both poll orders: in a quiescent state (I/O thread asleep in
   select, every worker parked on queue_cv or on outbuf_lock's condition) there is no
   undelivered output, no unserviced request or unread client data, no parked producer,
   and a pending close has been carried out.  FULL strength: no class of runs is excluded.
   C05_stuck: the same for "no thread can move at all" (no deadlock on the two locks).
   C05_app: the same when workers may also sit inside the application, with "fewer than
   send_bytes bytes pending" in place of "no pending output".
   (Exclusions of earlier versions -- the I/O thread's unlocked flush, outbuf_high_watermark =
   0, a producer starting to wait after handle_close, send_bytes above the watermark, a send
   error inside the worker-side send_continue -- were findings of this check that have been
   repaired in /repo: 8bcf05e 6aba4bf 7fa6a60 daf1a85 48f7fa0.) *)
From Coq Require Import List ZArith Bool.
From WV Require Import Lib.Conc Model.ChanWake Proof.ChanWakeInv Proof.ChanWake Proof.ChanWakeWitness.
Import ListNotations.
Open Scope Z_scope.

Theorem C05_invariant : forall c nw sched,
  0 <= hw c -> (0 < nw)%nat -> Inv c (runc c nw sched).
Proof. exact inv_reachable. Qed.
Print Assumptions C05_invariant.

Theorem C05 : forall c nw sched,
  0 <= hw c -> (0 < nw)%nat ->
  quiescent_parked (runc c nw sched) = true ->
  c05_ok (runc c nw sched) = true.
Proof. exact c05_full. Qed.
Print Assumptions C05.

(* for the widest notion of quiescence -- no thread of the server can move at all: then nobody
   is stuck on a lock (no deadlock), every worker is parked, and the predicate holds *)
Theorem C05_stuck : forall c nw sched,
  0 <= hw c -> (0 < nw)%nat ->
  quiescent (runc c nw sched) = true ->
  quiescent_parked (runc c nw sched) = true /\ c05_ok (runc c nw sched) = true.
Proof. exact c05_stuck. Qed.
Print Assumptions C05_stuck.

(* workers may also sit inside the application (a streaming application that waits for its
   consumer): then at most send_bytes - 1 bytes are left unsent (0 for the default send_bytes = 1) *)
Theorem C05_app : forall c nw sched,
  0 <= hw c -> (0 < nw)%nat ->
  quiescent_app (runc c nw sched) = true ->
  app_ok c (runc c nw sched) = true.
Proof. exact c05_app. Qed.
Print Assumptions C05_app.

Theorem C05_unfolded : forall c nw sched s,
  0 <= hw c -> (0 < nw)%nat -> s = runc c nw sched ->
  quiescent_parked s = true ->
  (closed s = false -> total s = 0 /\ pend s = 0) /\
  (closed s = false -> nreq s = 0%nat /\ queue s = 0%nat /\ rx s = []) /\
  (forall j p, nth_error (ws s) j = Some p -> parked_o p = false) /\
  (wc s = true \/ cwf s = true -> closed s = true).
Proof. exact c05_unfolded. Qed.
Print Assumptions C05_unfolded.
