(* C20 -- Configuration is validated, and CLI and keyword forms are equivalent.
   Statements only.  Generated terms (Gen/GenAdjust.v, regenerated from
   adjustments.py / runner.py / server.py / docs/arguments.rst on every run):
   excl, proxy_refused, families_*, socks_refused/sock_*, middleware_installed,
   params, cli_*, docs_args, help_opts, truthy, known_proxy_headers.
   Model (Model/Adjust.v): the casts, construct = Adjustments.__init__,
   getopt, parse_args, cli_construct = runner.run up to the Adjustments object.
   Specification (Proof/AdjustSpec.v): two_groups, proxy_spec / proxy_conflict,
   socks_conflict, honours.  Proofs: Proof/AdjustChecks.v, AdjustLists.v, AdjustCli.v. *)
From Coq Require Import List NArith ZArith Bool.
From WV Require Import Lib.PyBytes Gen.GenAdjust Model.Adjust
  Proof.AdjustSpec Proof.AdjustChecks Proof.AdjustLists Proof.AdjustCli Spec.AdjustCli Proof.AdjustCliAll
  Proof.AdjustCliKw Proof.AdjustCliDocs.
Import ListNotations.
Local Open Scope N_scope.

(* ---------- mutually exclusive options ---------- *)

(* complete enumeration: the 2^5 = 32 subsets of {listen, host, port, sockets, unix_socket};
   refused <-> two different groups among {listen} {host,port} {sockets} {unix_socket} are present *)
Theorem C20_excl_table : length (subsets exclusive_names) = 32%nat /\
  forall l, In l (subsets exclusive_names) ->
    (excl (present_of l) = true <-> two_groups (present_of l) = true).
Proof. exact excl_table. Qed.
Print Assumptions C20_excl_table.

(* ... and for every presence function whatsoever (the chain reads no other name) *)
Theorem C20_excl : forall present : str -> bool, excl present = two_groups present.
Proof. exact excl_all. Qed.
Print Assumptions C20_excl.

(* Adjustments(kw) refuses every dictionary whose keys conflict, whatever the values and the other keys *)
Theorem C20_excl_construct : forall e (kw : kwargs),
  two_groups (fun n : list N => memstr n (map (@fst str value) kw)) = true -> construct e kw = Exn ValueError.
Proof. exact construct_refuses_conflict. Qed.
Print Assumptions C20_excl_construct.

(* ---------- unknown option names ---------- *)
Theorem C20_unknown_refused : forall e kw k, In k (map fst kw) -> ~ In k (map fst params) ->
  exists x, construct e kw = Exn x.
Proof. exact unknown_name_refused. Qed.
Print Assumptions C20_unknown_refused.

(* ---------- proxy options ---------- *)
(* all 128 rows over: trusted_proxy is None, trusted_proxy_count is None, the given count is below 1,
   headers non-empty, an unknown header kind, forwarded present, something besides forwarded present *)
Theorem C20_proxy : forall tp_none tpc_none count_below hdrs_nonempty has_unknown has_forwarded has_other,
  proxy_refused tp_none tpc_none count_below hdrs_nonempty has_unknown has_forwarded has_other
  = proxy_spec tp_none tpc_none count_below hdrs_nonempty has_unknown has_forwarded has_other.
Proof. exact proxy_table. Qed.
Print Assumptions C20_proxy.

(* over the configured values, for every count and every list of header names *)
Theorem C20_proxy_values : forall a,
  proxy_stage_refused a = true <-> proxy_conflict (attr_tp_none a) (attr_count a) (attr_headers a).
Proof. exact proxy_stage_spec. Qed.
Print Assumptions C20_proxy_values.

Theorem C20_proxy_accepted : forall e kw a', construct e kw = Ok a' ->
  exists a, assign_loop kw [] = Ok a
            /\ ~ proxy_conflict (attr_tp_none a) (attr_count a) (attr_headers a).
Proof. exact construct_ok_no_proxy_conflict. Qed.
Print Assumptions C20_proxy_accepted.

(* whatever is accepted ends up with a trusted_proxy_count of at least 1 (given or defaulted) *)
Theorem C20_proxy_count_accepted : forall e kw a', construct e kw = Ok a' ->
  exists z, dict_get k_trusted_proxy_count a' = Some (SInt z) /\ (1 <= z)%Z.
Proof. exact construct_ok_count. Qed.
Print Assumptions C20_proxy_count_accepted.

(* defaults applied as documented: count 1; x-forwarded-proto when a proxy is trusted without headers *)
Theorem C20_proxy_defaults : forall a b cb c d e f, proxy_refused a b cb c d e f = false ->
  proxy_count_defaulted a b cb c d e f = b /\ proxy_headers_defaulted a b cb c d e f = (negb c && negb a).
Proof. exact proxy_defaults_table. Qed.
Print Assumptions C20_proxy_defaults.

(* ---------- socket lists: for every list ---------- *)
Theorem C20_sockets : forall e l, check_sockets e l = true <-> socks_conflict e l.
Proof. exact check_sockets_spec. Qed.
Print Assumptions C20_sockets.

(* ---------- address families ---------- *)
(* ipv4=False together with ipv6=False is refused; otherwise the family handed to getaddrinfo
   allows IPv4 iff ipv4 and IPv6 iff ipv6 (AF_UNSPEC allows both) *)
Theorem C20_families : forall ipv4 ipv6 h6,
  (ipv4 = false -> ipv6 = false -> families_refused ipv4 ipv6 h6 = true)
  /\ (families_refused ipv4 ipv6 h6 = false -> honours ipv4 ipv6 (families_value ipv4 ipv6 h6)).
Proof. exact families_full. Qed.
Print Assumptions C20_families.

(* ---------- host/port override, boolean spellings, the defaults the model reads ---------- *)
Theorem C20_hostport : forall hm pm, hostport_override hm pm = hostport_spec hm pm.
Proof. exact hostport_table. Qed.
Print Assumptions C20_hostport.

(* asbool(s) is true exactly for t / true / y / yes / on / 1, whatever the case and the surrounding whitespace *)
Theorem C20_asbool_spelling : forall s,
  asbool (VStr s) = Ok (memstr (lower_latin1 (strip_by is_str_ws s)) spec_truthy).
Proof. exact asbool_spelling. Qed.
Print Assumptions C20_asbool_spelling.

Theorem C20_defaults :
  default_host = [48;46;48;46;48;46;48] /\ default_port = 8080 /\ default_ipv4 = true /\ default_ipv6 = true
  /\ defaults_proxy_and_sockets_empty = true /\ assign_loop_standard = true
  /\ proxy_default_count = 1 /\ proxy_default_headers = [xfwd [112;114;111;116;111]].
Proof. exact defaults_match. Qed.
Print Assumptions C20_defaults.

(* ---------- nothing that is accepted carries one of the listed conflicts ---------- *)
(* for every keyword dictionary: if the model of Adjustments.__init__ accepts it, then no two
   exclusive groups are present, every name is a parameter, the proxy options are consistent
   (incl. trusted_proxy_count >= 1),
   the socket list is homogeneous and supported, at least one address family is enabled and the
   family handed to getaddrinfo honours ipv4 / ipv6 *)
Theorem C20_accepted_sound : forall e kw a', construct e kw = Ok a' ->
  exists a, assign_loop kw [] = Ok a /\ accepted_ok e kw a.
Proof. exact construct_ok_sound. Qed.
Print Assumptions C20_accepted_sound.

(* ---------- the middleware switch in server.py ---------- *)
Theorem C20_middleware : forall tp clear, middleware_installed tp clear = tp || clear.
Proof. exact middleware_table. Qed.
Print Assumptions C20_middleware.

(* ---------- option names ---------- *)
Theorem C20_names : forall p c, In (p, c) params ->
  cli_unmangle (dashdash ++ cli_mangle p) = p
  /\ startswith p no_underscore_prefix = false
  /\ cli_unmangle (dashdash ++ no_dash_prefix ++ cli_mangle p) = no_underscore_prefix ++ p.
Proof. exact names_ok. Qed.
Print Assumptions C20_names.

Theorem C20_names_distinct :
  NoDup (map (fun pc => cli_mangle (fst pc)) params) /\ NoDup cli_long_opts /\ NoDup (map fst params).
Proof. exact names_distinct. Qed.
Print Assumptions C20_names_distinct.

(* ---------- documentation (names; `sockets` is not a command-line option) ---------- *)
Theorem C20_docs :
  (forall p c, In (p, c) params -> In p docs_args)
  /\ (forall p c, In (p, c) params -> p <> s_sockets ->
        exists no_form, In (cli_mangle p, no_form, negb (cast_eqb c CBool)) help_opts)
  /\ (forall d, In d docs_args -> In d (map fst params))
  /\ (forall h, In h help_names -> In h (map (fun pc => cli_mangle (fst pc)) params ++ runner_only)).
Proof. exact docs_ok. Qed.
Print Assumptions C20_docs.

(* ---------- list-valued casts, for all strings ---------- *)
Theorem C20_aslist_is_split : forall s, aslist_str s = split_ws is_str_ws s.
Proof. exact aslist_str_split_ws. Qed.
Print Assumptions C20_aslist_is_split.

Theorem C20_aslist_sep : forall a x b, is_str_ws x = true ->
  aslist_str (a ++ x :: b) = aslist_str a ++ aslist_str b.
Proof. exact aslist_str_app_sep. Qed.
Print Assumptions C20_aslist_sep.

Theorem C20_aslist_accumulated : forall vs,
  aslist_str (accumulated vs) = flat_map aslist_str vs
  /\ aslist_str (accumulated vs) = aslist_str (join [32] vs).
Proof. exact aslist_accumulated_both. Qed.
Print Assumptions C20_aslist_accumulated.

(* ---------- runner form == keyword form ---------- *)
(* for every parameter of _params that is not a flag, every value string, every application
   argument that is not itself an option: --name=v *)
Theorem C20_cli_value_eq : forall p c, In (p, c) params -> forall e v app,
  cast_eqb c CBool = false -> startswith app [45] = false ->
  cli_construct e [opt_eq (cli_mangle p) v; app] = lift Some (construct e [(p, VStr v)]).
Proof. exact cli_value_eq. Qed.
Print Assumptions C20_cli_value_eq.

(* --name v *)
Theorem C20_cli_value_sep : forall p c, In (p, c) params -> forall e v app,
  cast_eqb c CBool = false -> startswith app [45] = false ->
  cli_construct e [opt_plain (cli_mangle p); v; app] = lift Some (construct e [(p, VStr v)]).
Proof. exact cli_value_sep. Qed.
Print Assumptions C20_cli_value_sep.

(* --name  for every flag *)
Theorem C20_cli_flag_on : forall p c, In (p, c) params -> forall e app,
  cast_eqb c CBool = true -> startswith app [45] = false ->
  cli_construct e [opt_plain (cli_mangle p); app] = lift Some (construct e [(p, VBool true)]).
Proof. exact cli_flag_on. Qed.
Print Assumptions C20_cli_flag_on.

(* --no-name *)
Theorem C20_cli_flag_off : forall p c, In (p, c) params -> forall e app,
  cast_eqb c CBool = true -> startswith app [45] = false ->
  cli_construct e [opt_plain (no_dash_prefix ++ cli_mangle p); app] = lift Some (construct e [(p, VBool false)]).
Proof. exact cli_flag_off. Qed.
Print Assumptions C20_cli_flag_off.

(* --listen=v1 ... --listen=vn  ==  listen = "v1 ... vn", for every n >= 1 and all strings *)
Theorem C20_cli_listen_repeated : forall e vs app, vs <> [] -> startswith app [45] = false ->
  cli_construct e (map (opt_eq (cli_mangle k_listen)) vs ++ [app])
  = lift Some (construct e [(k_listen, VStr (join [32] vs))]).
Proof. exact cli_listen_repeated. Qed.
Print Assumptions C20_cli_listen_repeated.

Theorem C20_asbool : asbool (VStr true_s) = Ok true /\ asbool (VStr false_s) = Ok false
  /\ asbool (VStr [32; 84; 82; 85; 69; 10]) = Ok true
  /\ asbool (VStr [89; 101; 115]) = Ok true
  /\ asbool (VStr [116; 32; 114; 117; 101]) = Ok false.
Proof. exact asbool_true_false. Qed.
Print Assumptions C20_asbool.

(* the model of getopt never runs out of fuel *)
Theorem C20_getopt_total : forall args lo, getopt args lo <> Exn OutOfFuel.
Proof. exact getopt_fuel_enough. Qed.
Print Assumptions C20_getopt_total.

(* ====================================================================================
   Command lines of ANY length (Spec/AdjustCli.v is the specification: option table
   derived from `params`, exact-or-unique-prefix resolution, --x=v / --x v / --x / --no-x,
   `--`, first non-option word, repeated options: last wins, --listen accumulates).
   Domain: argv is any list of strings, a string is any list of code points.
   ==================================================================================== *)

(* getopt's long-option lookup is "exact name, else unique prefix" over the option table *)
Theorem C20_long_option_resolution : forall typed, memb 61 typed = false ->
  long_has_args typed cli_long_opts =
  match resolve typed with
  | Found n k => Ok (takes_value k, n)
  | _ => Exn GetoptError
  end.
Proof. exact long_has_args_resolve. Qed.
Print Assumptions C20_long_option_resolution.

(* getopt.getopt(argv, "", long_opts) is the scanner of the specification, for every argv *)
Theorem C20_getopt_scan : forall argv,
  getopt argv cli_long_opts =
  match scan argv with
  | Refused _ => Exn GetoptError
  | Scanned occs pos => Ok (map opt_of occs, pos)
  end.
Proof. exact getopt_scan. Qed.
Print Assumptions C20_getopt_scan.

(* the option loop of parse_args over any recognised occurrences: help/call flags, the last --app,
   and the stored strings (last wins; listen accumulates) *)
Theorem C20_parse_loop : forall occs h c rt app,
  Forall (fun o : occ => In (fst o) option_table) occs ->
  pa_loop (map opt_of occs) (hdr h c ++ vstrs rt) app
  = Ok (hdr (h || has_help occs) (c || has_call occs) ++ vstrs (sfold (settings_of occs) rt),
        app_fold occs app).
Proof. exact pa_loop_occs. Qed.
Print Assumptions C20_parse_loop.

(* what parse_args stores ("true"/"false", " v1 v2" for listen, first-appearance order) and the keyword
   form (True/False, "v1 v2", last occurrence) denote the same Adjustments *)
Theorem C20_raw_keyword_equiv : forall e occs, Forall (fun o : occ => In (fst o) option_table) occs ->
  construct e (vstrs (sfold (settings_of occs) [])) = construct e (keyword_form occs).
Proof. exact raw_keyword_equiv. Qed.
Print Assumptions C20_raw_keyword_equiv.

(* THE theorem: runner.run on argv (getopt, parse_args, help / application checks, clean-up,
   Adjustments(kw as keywords)) is the specification, for every argv and every platform *)
Theorem C20_cli_all : forall e argv, cli_construct e argv = cli_spec e argv.
Proof. exact cli_construct_spec. Qed.
Print Assumptions C20_cli_all.

(* refused <-> a word is refused by the grammar (unknown / ambiguous / missing value / value given to a
   flag / short option), or without --help: no or more than one application, or the keyword form is
   refused by Adjustments *)
Theorem C20_cli_refused_iff : forall e argv,
  (exists x, cli_construct e argv = Exn x) <-> cli_refusal e argv.
Proof. exact cli_refused_iff. Qed.
Print Assumptions C20_cli_refused_iff.

(* accepted -> exactly the Adjustments of the keyword form *)
Theorem C20_cli_accepted : forall e argv a, cli_construct e argv = Ok (Some a) ->
  exists occs pos app, scan argv = Scanned occs pos /\ has_help occs = false
    /\ choose_app occs pos = AppIs app /\ construct e (keyword_form occs) = Ok a.
Proof. exact cli_accepted. Qed.
Print Assumptions C20_cli_accepted.

(* the application handed to resolve_wsgi_app: last --app or else the only positional word; called iff --call *)
Theorem C20_cli_app : forall argv occs pos a, scan argv = Scanned occs pos ->
  has_help occs = false -> choose_app occs pos = AppIs a ->
  exists kw, parse_args argv = Ok kw /\ dict_get k_app kw = Some (VApp a (has_call occs)).
Proof. exact parse_args_app. Qed.
Print Assumptions C20_cli_app.

(* the hypotheses are satisfiable: --li=a:1 --no-ipv6 --listen b:2 --thr 3 --threads=5 --ipv6 --no-ipv6 m:app *)
Theorem C20_cli_all_example :
  exists a, cli_construct {| has_ipv6 := true; has_af_unix := true |} example_argv = Ok (Some a)
    /\ dict_get k_listen a = Some (SAddrs [(false, [97], 1); (false, [98], 2)])
    /\ dict_get k_ipv6 a = Some (SBool false).
Proof. exact example_cli. Qed.
Print Assumptions C20_cli_all_example.

(* ---------- documentation: every stated default, the header kinds ---------- *)
(* every default stated in docs/arguments.rst, docs/runner.rst and runner.HELP -- every row, no exception --
   is the effective default (the attribute of Adjustments() built without arguments), the documented literal
   being read through the cast of its parameter; on every platform *)
Theorem C20_docs_defaults : forall e,
  (forall r, In r docs_defaults -> doc_row_ok e r = true)
  /\ (forall r, In r runner_rst_defaults -> doc_row_ok e r = true)
  /\ (forall r, In r help_defaults -> doc_row_ok e r = true).
Proof. exact docs_defaults_ok. Qed.
Print Assumptions C20_docs_defaults.

(* regression witness of the old HELP text (`--send-bytes ... Default is 18000`, repaired by /repo fix
   fd812c0): that row is wrong on every platform, so C20_docs_defaults stops holding if it comes back *)
Theorem C20_docs_defaults_refuted : forall e, doc_row_ok e old_help_send_bytes_row = false.
Proof. exact old_help_send_bytes_refuted. Qed.
Print Assumptions C20_docs_defaults_refuted.

Theorem C20_docs_defaults_old_row_absent :
  ~ In old_help_send_bytes_row docs_defaults /\ ~ In old_help_send_bytes_row runner_rst_defaults
  /\ ~ In old_help_send_bytes_row help_defaults.
Proof. exact old_help_send_bytes_absent. Qed.
Print Assumptions C20_docs_defaults_old_row_absent.

(* the implemented proxy header kinds are the six the property names; arguments.rst, runner.HELP and
   runner.rst each name exactly those *)
Theorem C20_header_kinds : forall h,
  (In h known_proxy_headers <-> In h spec_known_headers)
  /\ (In h docs_proxy_headers <-> In h spec_known_headers)
  /\ (In h help_proxy_headers <-> In h spec_known_headers)
  /\ (In h runner_rst_proxy_headers <-> In h spec_known_headers).
Proof. exact header_kinds_documented. Qed.
Print Assumptions C20_header_kinds.
