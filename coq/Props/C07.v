(* C07 -- the WSGI environ is the exact PEP 3333 image of the request.
   Statements only; proofs are in Proof/Environ*.v. *)
From Coq Require Import List NArith ZArith Bool.
From RecordUpdate Require Import RecordUpdate.
From WV Require Import Lib.PyBytes Model.Receiver Model.Parser Model.Environ Spec.Pep3333
  Proof.EnvironDict.
Import ListNotations.
Local Open Scope N_scope.

(* No client header can replace a server-defined variable: for every parser
   state (any header dictionary at all) and every configuration, each of the
   21 keys of the dict literal keeps the value the server gave it. *)
Theorem C07_no_override : forall c p k, In k server_keys ->
  eget (get_environment c p) k = eget (base_environ c p) k.
Proof. exact no_override. Qed.
Print Assumptions C07_no_override.
