(* C07 -- the WSGI environ is the exact PEP 3333 image of the request.
   Statements only; proofs are in Proof/Environ*.v, non-vacuity examples in
   Proof/EnvironExamples.v.

   Quantification.  [feed_all a ds = Some p] ranges over every way of offering
   bytes to a fresh parser: any number of received() calls with any data, for
   any limits [a].  "Accepted" is: completed, no error, not the empty
   request.  [head_of ds hp] / [head_lines hp fl lines] tie the header block
   [hp], the request line [fl] and the (unfolded) header [lines] to the bytes
   offered.  [c] ranges over all server configurations (url_prefix,
   server_name, effective_port, ident, TCP and unix peers).  The specification
   side (spec_header, spec_environ, pct_decode, raw_path, raw_query,
   path_info, collapse) is Spec/Pep3333.v, which does not mention the model. *)
From Coq Require Import List NArith ZArith Bool.
From RecordUpdate Require Import RecordUpdate.
From WV Require Import Lib.PyBytes Lib.Regex Gen.GenRegex Model.Receiver Model.UrlSplit Model.Parser
  Model.Environ Spec.Pep3333
  Proof.EnvironDict Proof.EnvironParse Proof.EnvironRun Proof.EnvironFields Proof.EnvironTarget
  Proof.EnvironLatin1 Proof.EnvironBody Proof.EnvironImage Proof.EnvironMain Proof.EnvironExamples.
Import ListNotations.
Local Open Scope N_scope.

(* Header fields.  For every accepted run there are header lines (those of
   the head block of the bytes offered) such that every protocol-specific
   entry of the environ -- every key of the form HTTP_*, CONTENT_LENGTH,
   CONTENT_TYPE, present or absent -- is what the specification computes from
   the field list [map cut_colon lines]: the values of all field lines whose
   name maps to that key (case-insensitively, "-" as "_", names containing
   "_" excluded), stripped of SP / HTAB, joined by ", " in arrival order. *)
Theorem C07_fields : forall a ds p,
  feed_all a ds = Some p -> completed p = true -> error p = None -> empty p = false ->
  exists hp fl lines,
    head_of ds hp /\ head_lines hp fl lines /\
    forall c ek, is_header_key ek = true ->
      eget (get_environment c p) ek = option_map VStr (spec_header (request_of p lines) ek).
Proof. exact fields_image. Qed.
Print Assumptions C07_fields.

(* the [lines] above are the CRLF-separated lines of the header block with
   folded lines joined and empty lines dropped (Spec: unfold_lines) *)
Theorem C07_header_lines : forall header lines,
  get_header_lines header = inr lines -> lines = unfold_lines (split header CRLF).
Proof. exact get_header_lines_unfold. Qed.
Print Assumptions C07_header_lines.

(* ... in particular under the CGI name of any field name at all *)
Theorem C07_field_name : forall name, is_header_key (cgi_key name) = true.
Proof. exact cgi_key_header_form. Qed.
Print Assumptions C07_field_name.

(* Names containing an underscore never appear: deleting every such field
   line leaves the parser's dictionary -- hence the environ -- exactly as it
   was (for any starting dictionary and any list of lines), and the
   specification ignores them too. *)
Theorem C07_no_underscore :
  (forall lines h h', add_header_lines h lines = inr h' ->
     add_header_lines h (filter (fun l => negb (underscore_line l)) lines) = inr h') /\
  (forall rq ek,
     spec_header {| rq_method := rq_method rq; rq_target := rq_target rq; rq_version := rq_version rq;
                    rq_fields := filter (fun nv => negb (has_underscore (fst nv))) (rq_fields rq);
                    rq_chunked := rq_chunked rq; rq_body := rq_body rq |} ek
     = spec_header rq ek).
Proof. exact no_underscore_both. Qed.
Print Assumptions C07_no_underscore.

(* No client header can replace a server-defined variable: for every parser
   state (any header dictionary at all, reachable or not) and every
   configuration, each of the 21 keys of the dict literal keeps the value the
   server gave it, and waitress.client_disconnected is the channel's. *)
Theorem C07_no_override : forall c p k, In k server_keys ->
  eget (get_environment c p) k = eget (base_environ c p) k /\
  (exists v, eget (base_environ c p) k = Some v) /\
  (forall h, eget (get_environment c (p <| headers := h |>)) k = eget (get_environment c p) k) /\
  eget (get_environment c p) k_waitress_client_disconnected = Some VDisconnected.
Proof. exact no_override_full. Qed.
Print Assumptions C07_no_override.

(* ... because no key the header loop can produce is a server key *)
Theorem C07_header_keys_disjoint :
  (forall key, is_header_key (env_key key) = true) /\
  (forall k, In k (k_waitress_client_disconnected :: server_keys) -> is_header_key k = false).
Proof. exact header_keys_disjoint. Qed.
Print Assumptions C07_header_keys_disjoint.

(* Every string of the environ is a latin-1 native string. *)
Theorem C07_latin1 : forall a c ds p,
  ok (adj_url_scheme a) -> ok_config c -> Forall ok ds ->
  feed_all a ds = Some p -> completed p = true -> error p = None -> empty p = false ->
  ok_environ (get_environment c p).
Proof. exact environ_latin1. Qed.
Print Assumptions C07_latin1.

(* The request line.  REQUEST_METHOD is the method token as sent (upper-case
   visible ASCII, the text before the first SP of the request line);
   SCRIPT_NAME is the url_prefix; SERVER_PROTOCOL is "HTTP/" + version for
   1.0 and 1.1; for targets made of visible ASCII characters PATH_INFO is the
   percent-decoded path component, leading slashes collapsed, split at the
   prefix, and QUERY_STRING the raw query component. *)
Theorem C07_target : forall a c ds p,
  Forall ok ds ->
  feed_all a ds = Some p -> completed p = true -> error p = None -> empty p = false ->
  target_statement c p /\
  exists hp fl lines, head_of ds hp /\ head_lines hp fl lines /\
                      request_line_pieces fl (command p) (request_uri p) (version p).
Proof. exact target_image. Qed.
Print Assumptions C07_target.

(* the pieces of C07_target that hold of the functions themselves, for all inputs *)
Theorem C07_target_functions :
  (forall s, unquote_to_bytes s = pct_decode s) /\
  (forall prefix path0, environ_path prefix path0 = path_info prefix (collapse path0)) /\
  (forall t sc nl pa qu fr, wf_target t -> split_uri t = SOk sc nl pa qu fr ->
     pa = pct_decode (raw_path t) /\ qu = raw_query t).
Proof. exact target_functions. Qed.
Print Assumptions C07_target_functions.

(* The body.  wsgi.input yields the receiver's buffer; CONTENT_LENGTH, when
   present, is a digit string whose value is the number of bytes wsgi.input
   yields; for a chunked request it is exactly str(decoded length) whatever
   Content-Length the client sent; without CONTENT_LENGTH wsgi.input is empty;
   on HTTP/1.1 Transfer-Encoding is not in the environ. *)
Theorem C07_body : forall a c ds p,
  feed_all a ds = Some p -> completed p = true -> error p = None -> empty p = false ->
  body_statement c p.
Proof. exact body_image. Qed.
Print Assumptions C07_body.

(* The Content-Length receiver hands on exactly the first cl bytes of what it
   is offered, however the bytes are segmented, and is complete exactly when
   cl bytes have arrived. *)
Theorem C07_body_fixed_exact : forall cl ds, 0 < cl ->
  let f := fixed_feed (fixed_init cl) ds in
  f_buf f = firstn (N.to_nat cl) (concat ds) /\
  f_remain f + lenN (f_buf f) = cl /\
  (f_completed f = true <-> cl <= lenN (concat ds)).
Proof. exact fixed_feed_exact. Qed.
Print Assumptions C07_body_fixed_exact.

(* The whole environ: model and specification are the same finite map, key by
   key, for every accepted run whose target is visible ASCII and whose version
   is 1.0 or 1.1 (the two side conditions of the specification). *)
Theorem C07_environ_image : forall a c ds p,
  Forall ok ds ->
  feed_all a ds = Some p -> completed p = true -> error p = None -> empty p = false ->
  wf_target (request_uri p) -> (version p = s_1_0 \/ version p = s_1_1) ->
  exists hp fl lines,
    head_of ds hp /\ head_lines hp fl lines /\
    forall k, option_map sval_of (eget (get_environment c p) k) =
              slookup (spec_environ (gateway_of a c) (request_of p lines)) k.
Proof. exact environ_image. Qed.
Print Assumptions C07_environ_image.
