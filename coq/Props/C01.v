(* C01 -- Request framing is unambiguous and agrees with RFC 9112.
   Statements only; proofs are in Proof/C01*.v.  The goal statement is
   C01Observe.C01_full (observe (feed a [s]) = ref_run a s); it is refuted for
   the unchanged code (C01_full_is_refuted, known findings) and is proved layer
   by layer: T1 head, T2 bodies, T3 framing decision, T5 close decision, each
   for all inputs.  After the round-2 repairs the only deviation left is F10
   (trailer lines not validated): T2 chunked is stated with that switch (_dev),
   against the strict reference outside it (_partial), with a witness (_refuted). *)
From Coq Require Import List NArith ZArith Bool.
From WV Require Import Lib.PyBytes Lib.Regex Gen.GenRegex Model.Receiver Model.UrlSplit Model.Parser Model.ChanSeq.
From WV Require Import Spec.Ref9112 Proof.C01Lib Proof.C01Framing Proof.C01Head Proof.C01Body Proof.C01Close
  Proof.C01Refuse Proof.C01Boundary Proof.C01ReqLine Proof.C01Block Proof.C01ParseHeader Proof.C01Observe.
Import ListNotations.
Local Open Scope N_scope.

(* ---- T1: the field section ------------------------------------------------ *)

Theorem C01_T1_field_line : forall h l, line_ok l ->
  add_header_line h l = match parse_field_line l with
                        | None => inl EInvalidHeader
                        | Some f => ref_add h f
                        end.
Proof. exact add_header_line_ref. Qed.
Print Assumptions C01_T1_field_line.

Theorem C01_T1_head : forall ls, Forall bytes_ok ls -> Forall (fun l => l <> []) ls ->
  match header_lines_go ls [] with
  | inl e => head_fields ls = None /\ perr_code e = 400
  | inr joined =>
    match add_header_lines [] joined with
    | inl (e, _) => head_fields ls = None /\ perr_code e = 400
    | inr h => exists fs, head_fields ls = Some fs /\ combined fs = h
    end
  end.
Proof. exact head_equiv. Qed.
Print Assumptions C01_T1_head.

Theorem C01_T1_request_line : forall l, bytes_ok l -> has_crlf_byte l = false ->
  match crack_first_line l with
  | None => request_line_shape l = None
  | Some (m, u, v) =>
    if beqb m [] && beqb u [] && beqb v [] then request_line_shape l = None
    else request_line_shape l = Some (m, u, v)
  end.
Proof. exact request_line_equiv. Qed.
Print Assumptions C01_T1_request_line.

(* ---- T2: bodies ----------------------------------------------------------- *)

Theorem C01_T2_fixed : forall n s, 0 < n -> n <= lenN s ->
  fixed_received (fixed_init n) s =
  ({| f_remain := 0; f_buf := firstn (N.to_nat n) s; f_completed := true |}, Z.of_N n).
Proof. exact fixed_equiv_complete. Qed.
Print Assumptions C01_T2_fixed.

Theorem C01_T2_fixed_short : forall n s, lenN s < n ->
  fixed_received (fixed_init n) s =
  ({| f_remain := n - lenN s; f_buf := s; f_completed := false |}, Z.of_N (lenN s)).
Proof. exact fixed_equiv_incomplete. Qed.
Print Assumptions C01_T2_fixed_short.

Theorem C01_T2_chunked_dev : forall s, bytes_ok s ->
  agrees (ref_chunked d_recv s) (chunked_received chunked_init s) (Z.of_nat (length s)) (lenN s).
Proof. exact chunked_equiv_dev. Qed.
Print Assumptions C01_T2_chunked_dev.

Theorem C01_T2_chunked_partial : forall s, bytes_ok s ->
  ref_chunked no_devs s = ref_chunked d_recv s ->
  agrees (ref_chunked no_devs s) (chunked_received chunked_init s) (Z.of_nat (length s)) (lenN s).
Proof. exact chunked_equiv_partial. Qed.
Print Assumptions C01_T2_chunked_partial.

Theorem C01_T2_chunked_done : forall s body rest, bytes_ok s ->
  ref_chunked d_recv s = ChDone body rest ->
  exists st, chunked_received chunked_init s = Some (st, Z.of_nat (length s - length rest))
             /\ c_completed st = true /\ c_error st = None /\ c_buf st = body.
Proof. exact chunked_equiv_done. Qed.
Print Assumptions C01_T2_chunked_done.

Theorem C01_T2_refuted_trailer :
  ref_chunked no_devs f10_body = ChBad (lenN f10_body) /\
  exists st, chunked_received chunked_init f10_body = Some (st, 10%Z) /\ c_completed st = true /\ c_error st = None.
Proof. exact chunked_refuted_trailer. Qed.
Print Assumptions C01_T2_refuted_trailer.

(* ---- T3: the framing decision ---------------------------------------------- *)

Theorem C01_T3_parse_header : forall a p hp index lines h1 cmd uri ver sc nl pa qu fr,
  chunked p = false -> body p = None -> connection_close p = false ->
  find hp CRLF = Some index ->
  let fl := rstrip_by is_reqline_ws (firstn index hp) in
  has_cr_or_lf fl = false ->
  get_header_lines (skipn (index + 2) hp) = inr lines ->
  add_header_lines (headers p) lines = inr h1 ->
  crack_first_line fl = Some (cmd, uri, ver) ->
  beqb cmd [] && beqb uri [] && beqb ver [] = false ->
  split_uri uri = SOk sc nl pa qu fr ->
  let '(p', st) := parse_header a p hp in
  command p' = cmd /\ request_uri p' = uri /\ version p' = ver /\
  match model_framing h1 ver with
  | MRefuse e => st = PSError e
  | MChunked =>
      st = PSOk /\ chunked p' = true /\ body p' = Some (BChunked chunked_init)
      /\ headers p' = hpop (hpop h1 s_TRANSFER_ENCODING) s_CONTENT_LENGTH
      /\ connection_close p' = model_cc h1 ver
  | MLen n =>
      st = PSOk /\ chunked p' = false /\ body p' = Some (BFixed (fixed_init n)) /\ content_length p' = n
      /\ connection_close p' = model_cc h1 ver
  | MNone =>
      st = PSOk /\ chunked p' = false /\ body p' = None /\ content_length p' = 0
      /\ connection_close p' = model_cc h1 ver
  end.
Proof. exact parse_header_framing. Qed.
Print Assumptions C01_T3_parse_header.

Theorem C01_T3_framing : forall h ver,
  (forall v, hget h s_CONTENT_LENGTH = Some v -> clean v = true) ->
  choice_framing (model_framing h ver) = framing_of ver h.
Proof. exact framing_decision. Qed.
Print Assumptions C01_T3_framing.

(* ---- T5: close after the message -------------------------------------------- *)

Theorem C01_T5_close : forall dict ver,
  (forall v, hget dict s_CONTENT_LENGTH = Some v -> clean v = true) ->
  model_close ver (hget_default dict s_CONNECTION []) (model_cc dict ver) = close_after_of ver dict.
Proof. exact close_decision. Qed.
Print Assumptions C01_T5_close.

(* ---- the refusal half --------------------------------------------------------- *)

Theorem C01_refuse_bare_cr_lf : forall ls l r,
  In l ls -> has_cr_or_lf l = true ->
  exists e, header_lines_go ls r = inl e /\ perr_code e = 400.
Proof. exact bare_cr_lf_refused. Qed.
Print Assumptions C01_refuse_bare_cr_lf.

Theorem C01_refuse_bad_field_name : forall pre post h,
  line_ok (pre ++ 58 :: post) ->
  forallb (fun x => negb (x =? 58)) pre = true ->
  nonempty pre && forallb is_tchar pre = false ->
  add_header_line h (pre ++ 58 :: post) = inl EInvalidHeader.
Proof.
  exact (fun pre post h Hl Hc Hn => bad_field_name_refused h _ Hl (non_token_name pre post Hc Hn)).
Qed.
Print Assumptions C01_refuse_bad_field_name.

Theorem C01_refuse_repeated_single : forall h l name value old, line_ok l ->
  parse_field_line l = Some (name, value) -> memb 95 name = false ->
  is_single_key (norm_name name) = true -> hget h (norm_name name) = Some old ->
  add_header_line h l = inl EDuplicateHeader.
Proof. exact repeated_single_line. Qed.
Print Assumptions C01_refuse_repeated_single.

Theorem C01_refuse_repeated_single_ref : forall fs1 n1 v1 fs2 n2 v2 fs3 seen k,
  is_single_key k = true -> norm_name n1 = k -> norm_name n2 = k ->
  no_repeated_single seen (fs1 ++ (n1, v1) :: fs2 ++ (n2, v2) :: fs3) = false.
Proof. exact repeated_single_refused. Qed.
Print Assumptions C01_refuse_repeated_single_ref.

Theorem C01_refuse_bad_content_length : forall h ver v,
  hget h s_TRANSFER_ENCODING = None ->
  hget h s_CONTENT_LENGTH = Some v -> clean v = true ->
  nonempty v && forallb is_dig v = false ->
  model_framing h ver = MRefuse EContentLengthInvalid.
Proof. exact bad_content_length_refused. Qed.
Print Assumptions C01_refuse_bad_content_length.

Theorem C01_refuse_bad_transfer_encoding : forall h,
  te_encodings (hget_default h s_TRANSFER_ENCODING []) <> [] ->
  te_encodings (hget_default h s_TRANSFER_ENCODING []) <> [s_chunked] ->
  exists e, model_framing h s_1_1 = MRefuse e /\ perr_code e = 501.
Proof. exact bad_transfer_encoding_refused. Qed.
Print Assumptions C01_refuse_bad_transfer_encoding.

Theorem C01_cl_with_te_is_chunked : forall h,
  te_encodings (hget_default h s_TRANSFER_ENCODING []) = [s_chunked] ->
  model_framing h s_1_1 = MChunked.
Proof. exact cl_with_te_is_chunked. Qed.
Print Assumptions C01_cl_with_te_is_chunked.

Theorem C01_refuse_non_ascii_target : forall uri,
  existsb (fun x => 128 <=? x) uri = true -> split_uri uri = SBadURI.
Proof. exact non_ascii_target_refused. Qed.
Print Assumptions C01_refuse_non_ascii_target.

(* ---- T4a: where the head ends ---------------------------------------------------- *)

Theorem C01_T4_head_boundary : forall s,
  match read_head s [] [] 0, find_double_newline s with
  | Some (_, rest, n), Some i => n = N.of_nat i /\ rest = skipn i s
  | None, None => True
  | _, _ => False
  end.
Proof. exact head_boundary. Qed.
Print Assumptions C01_T4_head_boundary.

Theorem C01_T4_head_lines : forall s lines rest n,
  read_head s [] [] 0 = Some (lines, rest, n) ->
  s = (block_of lines ++ CRLF) ++ rest /\ forallb crlf_free lines = true.
Proof. exact read_head_lines. Qed.
Print Assumptions C01_T4_head_lines.

(* ---- T1 + T3 over the bytes of a head ------------------------------------------------ *)

Theorem C01_T13_parse_header : forall a rl flines,
  bytes_ok rl -> has_crlf_byte rl = false -> rstrip_by is_reqline_ws rl = rl ->
  Forall bytes_ok flines -> Forall (fun l => l <> []) flines -> forallb crlf_free flines = true ->
  let '(p', st) := parse_header a parser_init (head_block rl flines) in
  match ref_head rl flines with
  | None => exists e, st = PSError e /\ perr_code e = 400
  | Some ((m, t, v), fs) =>
    match split_uri t with
    | SBadURI => st = PSError EBadURI
    | SOk _ _ _ _ _ =>
      command p' = m /\ request_uri p' = t /\ version p' = v /\
      match framing_of v (combined fs) with
      | FrRefuse code => exists e, st = PSError e /\ perr_code e = code
      | FrChunked =>
          st = PSOk /\ chunked p' = true /\ body p' = Some (BChunked chunked_init)
          /\ headers p' = hpop (hpop (combined fs) s_TRANSFER_ENCODING) s_CONTENT_LENGTH
          /\ connection_close p' = model_cc (combined fs) v
      | FrLength n =>
          st = PSOk /\ chunked p' = false /\ body p' = Some (BFixed (fixed_init n)) /\ content_length p' = n
          /\ connection_close p' = model_cc (combined fs) v
      | FrNone => st = PSOk /\ chunked p' = false /\ body p' = None /\ connection_close p' = model_cc (combined fs) v
      end
    | _ => True
    end
  end.
Proof. exact parse_header_equiv. Qed.
Print Assumptions C01_T13_parse_header.

(* ---- the goal statement ---------------------------------------------------------- *)

Theorem C01_full_is_refuted : ~ C01_full.
Proof. exact C01_full_refuted. Qed.
Print Assumptions C01_full_is_refuted.

(* ---- T4: the composition over a whole pipelined stream ------------------------------- *)
(* Proof/C01Compose*.v.  [targets_ok s]: on every substring of s that has the shape of a
   request-target, urlsplit (as modelled) is defined and refuses exactly the targets that
   RFC 3986 (the reference's target_policy) refuses; it holds e.g. for every stream without
   '[' and ']' (C01_targets_ok_no_brackets).  C01_full_dev itself (no side condition) is
   false of the model: C01_full_dev_is_refuted and the witness lemmas (two classes are left: a zero body
   limit, and bracketed hosts the urlsplit model does not cover; the third -- a control byte in the target --
   was closed by the /repo fix that refuses control characters in the request-target). *)
From WV Require Proof.SplitParser Proof.SplitChan.
From WV Require Import Proof.C01ComposeLib Proof.C01ComposeHead Proof.C01ComposeBody Proof.C01Compose Proof.C01ComposeTop.

(* per message, the head: a fresh parser offered the stream consumes exactly the head the
   reference reads and ends in the reference's outcome (empty / refusal / request line,
   field dict, framing decision with the receiver installed) *)
Theorem C01_T4_head_step : forall a s lines rest n,
  bytes_ok s -> targets_ok s -> read_head s [] [] 0 = Some (lines, rest, n) ->
  (max_request_header_size a <=? n) = false ->
  exists p, received a parser_init s = ROk p (Z.of_N n) /\ head_rel a p (ref_head_out (cfg_of a) lines).
Proof. exact head_step. Qed.
Print Assumptions C01_T4_head_step.

(* the channel loop, from any state between two messages: the requests queued so far plus
   what the reference extracts from the rest of the stream *)
Theorem C01_T4_loop : forall a, 0 < max_request_body_size a ->
  forall n s, (length s <= n)%nat -> forall fuel rf c L c',
  s <> [] -> bytes_ok s -> targets_ok s -> (length s < fuel)%nat -> (length s < rf)%nat ->
  request c = None -> cut (map obs_of_parser (requests c)) = (L, false) ->
  received_loop fuel a c s = COk c' ->
  observe (COk c') = Some (L ++ map ref_view (ref_loop rf (cfg_of a) all_devs s)).
Proof. exact compose_loop. Qed.
Print Assumptions C01_T4_loop.

(* C01_full_dev under its two side conditions *)
Theorem C01_full_dev_partial : forall a s,
  0 < max_request_body_size a -> bytes_ok s -> targets_ok s ->
  observe (feed a chan_init [s]) = Some (map ref_view (ref_run_dev (cfg_of a) all_devs s)).
Proof. exact compose_whole. Qed.
Print Assumptions C01_full_dev_partial.

(* C01_full (strict reference) wherever the F10 switch makes no difference on the stream *)
Theorem C01_full_partial : forall a s,
  0 < max_request_body_size a -> bytes_ok s -> targets_ok s ->
  ref_run (cfg_of a) s = ref_run_dev (cfg_of a) all_devs s ->
  observe (feed a chan_init [s]) = Some (map ref_view (ref_run (cfg_of a) s)).
Proof. exact compose_whole_strict. Qed.
Print Assumptions C01_full_partial.

Theorem C01_targets_ok_no_brackets : forall s, memb 91 s = false -> memb 93 s = false -> targets_ok s.
Proof. exact targets_ok_nobracket. Qed.
Print Assumptions C01_targets_ok_no_brackets.

Theorem C01_full_dev_no_brackets : forall a s,
  0 < max_request_body_size a -> bytes_ok s -> memb 91 s = false -> memb 93 s = false ->
  observe (feed a chan_init [s]) = Some (map ref_view (ref_run_dev (cfg_of a) all_devs s)).
Proof. exact compose_whole_nobracket. Qed.
Print Assumptions C01_full_dev_no_brackets.

(* the model never answers "unmodelled" under the hypothesis on targets *)
Theorem C01_feed_modelled : forall a s, bytes_ok s -> targets_ok s -> exists c', feed a chan_init [s] = COk c'.
Proof. exact feed_modelled. Qed.
Print Assumptions C01_feed_modelled.

(* every segmentation, with C02: the events of any division of the stream into reads, up to
   and including the first refused request, are those of the single read; those are the
   queued requests; and they observe as the reference's list *)
Theorem C01_full_dev_any_segmentation : forall a reads,
  0 < max_request_body_size a -> bytes_ok (concat reads) -> targets_ok (concat reads) ->
  SplitChan.cut (snd (SplitChan.feed_tr true a chan_init reads))
  = SplitChan.cut (snd (SplitChan.feed_tr true a chan_init [concat reads]))
  /\ exists c' t, SplitChan.feed_tr true a chan_init [concat reads] = (COk c', t)
       /\ map (SplitParser.obs true) (requests c') = flat_map SplitChan.ev_reqs t
       /\ observe (COk c') = Some (map ref_view (ref_run_dev (cfg_of a) all_devs (concat reads))).
Proof. exact compose_any_segmentation. Qed.
Print Assumptions C01_full_dev_any_segmentation.

(* outside the side conditions the unconditional statement fails *)
Theorem C01_full_dev_is_refuted : ~ C01_full_dev.
Proof. exact full_dev_refuted. Qed.
Print Assumptions C01_full_dev_is_refuted.

Theorem C01_full_dev_refuted_zero_body_limit :
  observe (feed adj_mb0 chan_init [mb0_stream]) = Some [OIncomplete] /\
  map ref_view (ref_run_dev (cfg_of adj_mb0) all_devs mb0_stream) = [ORefuse 413].
Proof. exact full_dev_refuted_zero_body_limit. Qed.
Print Assumptions C01_full_dev_refuted_zero_body_limit.

Theorem C01_full_dev_c0_target_agree :
  observe (feed adj0 chan_init [c0_target_stream]) = Some [ORefuse 400] /\
  map ref_view (ref_run_dev (cfg_of adj0) all_devs c0_target_stream) = [ORefuse 400].
Proof. exact full_dev_c0_target_agree. Qed.
Print Assumptions C01_full_dev_c0_target_agree.

Theorem C01_full_dev_unmodelled_bracket : feed adj0 chan_init [bracket_stream] = CUnmodelled.
Proof. exact full_dev_unmodelled_bracket. Qed.
Print Assumptions C01_full_dev_unmodelled_bracket.
