(* C01 -- Request framing is unambiguous and agrees with RFC 9112.
   Statements only; proofs are in Proof/C01*.v. *)
From Coq Require Import List NArith.
From WV Require Import Lib.PyBytes Spec.Ref9112.
Import ListNotations.
