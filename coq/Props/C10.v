(* C10 -- Framing-critical tokens are accepted exactly per grammar, at any length.
   This file contains only the statements; proofs are in Proof/C10Gates.v
   (regex level, over the terms generated from the source on this run) and
   Proof/C10CallSites.v (composition with the code around each gate). *)
From Coq Require Import List NArith.
From WV Require Import Lib.Regex Gen.GenRegex Spec.Grammar Proof.C10Gates.
Import ListNotations.
Local Open Scope N_scope.

Theorem C10_chunk_size : forall s, bytes_ok s ->
  (Lang gate_chunk_size s <-> Lang spec_chunk_size s).
Proof. exact chunk_size_exact. Qed.
Print Assumptions C10_chunk_size.

Theorem C10_chunk_ext : forall s, bytes_ok s ->
  (Lang gate_chunk_ext s <-> Lang spec_chunk_ext s).
Proof. exact chunk_ext_exact. Qed.
Print Assumptions C10_chunk_ext.

Theorem C10_content_length : forall s, bytes_ok s -> Lang no_crlf s ->
  (Lang gate_content_length s <-> Lang spec_content_length s).
Proof. exact content_length_exact. Qed.
Print Assumptions C10_content_length.

Theorem C10_header_field : forall s, bytes_ok s -> Lang no_crlf s ->
  (Lang gate_header_field s <-> Lang spec_header_field s).
Proof. exact header_field_exact. Qed.
Print Assumptions C10_header_field.

Theorem C10_request_line : forall s, bytes_ok s -> Lang no_crlf s ->
  (Lang gate_request_line s /\ Lang upper_method_prefix s <-> Lang spec_request_line s).
Proof. exact request_line_exact. Qed.
Print Assumptions C10_request_line.
