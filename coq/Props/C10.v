(* C10 -- Framing-critical tokens are accepted exactly per grammar, at any length.
   This file contains only the statements; proofs are in Proof/C10Gates.v
   (regex level, over the terms generated from the source on this run) and
   Proof/C10CallSites.v (composition with the code around each gate). *)
From Coq Require Import List NArith.
From WV Require Import Lib.Regex Lib.PyBytes Gen.GenRegex Spec.Grammar Proof.C10Gates Proof.C10CallSites Proof.C10RequestLine
  Model.Receiver Model.Parser.
Import ListNotations.
Local Open Scope N_scope.

Theorem C10_chunk_size : forall s, bytes_ok s ->
  (Lang gate_chunk_size s <-> Lang spec_chunk_size s).
Proof. exact chunk_size_exact. Qed.
Print Assumptions C10_chunk_size.

Theorem C10_chunk_ext : forall s, bytes_ok s ->
  (Lang gate_chunk_ext s <-> Lang spec_chunk_ext s).
Proof. exact chunk_ext_exact. Qed.
Print Assumptions C10_chunk_ext.

Theorem C10_content_length : forall s, bytes_ok s -> Lang no_crlf s ->
  (Lang gate_content_length s <-> Lang spec_content_length s).
Proof. exact content_length_exact. Qed.
Print Assumptions C10_content_length.

Theorem C10_header_field : forall s, bytes_ok s -> Lang no_crlf s ->
  (Lang gate_header_field s <-> Lang spec_header_field s).
Proof. exact header_field_exact. Qed.
Print Assumptions C10_header_field.

Theorem C10_request_line : forall s, bytes_ok s -> Lang no_crlf s ->
  (Lang gate_request_line s /\ Lang upper_method_prefix s <-> Lang spec_request_line s).
Proof. exact request_line_exact. Qed.
Print Assumptions C10_request_line.

(* ---- call-site layer: the verdict of the code around each gate ---- *)

(* a chunk control line is accepted by the receiver iff it is chunk-size [chunk-ext] *)
Theorem C10_chunk_line_callsite : forall line, bytes_ok line ->
  (chunk_line_accepts line = true <-> Lang spec_chunk_line line).
Proof. exact chunk_line_callsite. Qed.
Print Assumptions C10_chunk_line_callsite.

(* every line the header splitter hands to the header gate is accepted iff it
   is token ":" OWS field-value OWS *)
Theorem C10_header_line_callsite : forall header lines,
  get_header_lines header = inr lines ->
  forall line, In line lines -> bytes_ok line ->
  (header_line_accepts line = true <-> Lang spec_header_field line).
Proof. exact header_line_callsite. Qed.
Print Assumptions C10_header_line_callsite.

Theorem C10_content_length_callsite : forall v, bytes_ok v -> has_cr_or_lf v = false ->
  (matches gate_content_length v = true <-> Lang spec_content_length v).
Proof. exact content_length_callsite. Qed.
Print Assumptions C10_content_length_callsite.

(* numeric conversion after the gates is the positional value *)
Theorem C10_chunk_size_value : forall s x,
  hex_value (s ++ [x]) = (16 * hex_value s + match hexval x with Some v => v | None => 0 end)%N.
Proof. exact chunk_size_value_positional. Qed.
Print Assumptions C10_chunk_size_value.

Theorem C10_content_length_value : forall s x,
  dec_value (s ++ [x]) = (10 * dec_value s + (x - 48))%N.
Proof. exact content_length_value_positional. Qed.
Print Assumptions C10_content_length_value.

(* request line as parse_header applies the gate (rstrip, CR/LF test, fullmatch,
   upper-case method): exactly the grammar for every line without trailing
   whitespace.  The full statement (no hypothesis on trailing whitespace) is
   refuted by Findings/C10_KF1.v: open known finding kf_c10_reqline_ws. *)
Definition C10_request_line_callsite_full : Prop := forall line, bytes_ok line ->
  (request_line_accepts line = true <-> Lang spec_request_line line).

Theorem C10_request_line_callsite_partial : forall line, bytes_ok line ->
  rstrip_by is_reqline_ws line = line ->
  (request_line_accepts line = true <-> Lang spec_request_line line).
Proof. exact request_line_callsite_partial. Qed.
Print Assumptions C10_request_line_callsite_partial.
