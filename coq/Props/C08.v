(* C08 -- Applications cannot split or inject into the response head.
   Statements only; proofs are in Proof/TaskHead.v (what build_response_header
   emits), Proof/TaskStart.v (what start_response refuses / accepts),
   Proof/TaskRun.v (invariants of a whole run), Proof/TaskC08.v (the service
   ladder), Proof/TaskSort.v, Proof/TaskLines.v, Proof/TaskOracle.v,
   Proof/TaskProv.v (swallowed refusals: residue of a refused call, provenance
   of every string of the head).
   Status, names and values are arbitrary code-point lists of any length.
   Scripts include ATryStart: start_response called inside try/except by an
   application (or wrapper) that swallows the refusal and carries on; every
   theorem quantified over [a : app] covers such scripts. *)
From Coq Require Import String.
From Coq Require Import List NArith ZArith Bool Permutation.
From WV Require Import Lib.PyBytes Gen.GenTables Model.Task Proof.TaskSort Proof.TaskLines Proof.TaskHead
  Proof.TaskStart Proof.TaskRun Proof.TaskOracle Proof.TaskC08 Proof.TaskProv.
Import ListNotations.
Local Open Scope N_scope.

(* The hypothesis under which the generic theorems hold is true of the concrete
   case mapping (and is tested on CPython over all code points by the check). *)
Theorem C08_oracle_instance : forall s, clean s -> clean (py_cap s).
Proof. exact py_cap_clean. Qed.
Print Assumptions C08_oracle_instance.

(* Accepted case.  For every clean task (status and fields free of CR/LF -- the
   invariant start_response maintains, see C08_validated), the emitted head split
   on CRLF is exactly: the status line, the stable-sorted list of the application
   fields (names normalised in letter case only) followed by server fields, and
   two empty strings; none of those lines contains CR or LF; the sort is a
   permutation that keeps fields of equal name in order. *)
Theorem C08_lines : forall c r t t' b,
  cfg_clean c -> task_clean t ->
  build_response_header py_cap py_lower c r t = (t', Ok b) ->
  exists sf,
    Forall (server_field c) sf /\
    let fields := norm_fields py_cap (has_body t) (t_rh t) ++ sf in
    split b CRLF =
      (lit "HTTP/" ++ version_str t ++ [32] ++ t_status t)
        :: map header_line (sort_hdrs fields) ++ [[]; []]
    /\ Forall clean (firstn (S (length fields)) (split b CRLF))
    /\ Permutation (sort_hdrs fields) fields
    /\ (forall n, filter (same_name n) (sort_hdrs fields) = filter (same_name n) fields).
Proof. exact (head_lines_exact py_cap py_lower py_cap_clean). Qed.
Print Assumptions C08_lines.

(* Refusal: a non-string or a CR/LF anywhere in status, names or values, or a
   hop-by-hop name, makes start_response raise (AssertionError / ValueError
   while nothing has been written; the exc_info exception once output began).
   start_response has no access to the channel. *)
Theorem C08_refuse : forall t status headers exc,
  offending py_lower status headers = true ->
  exists e, snd (start_response py_lower t status headers exc) = Exn e
            /\ (t_wrote_header t = false -> e = AssertionError \/ e = ValueError).
Proof. exact (start_response_refuses py_lower). Qed.
Print Assumptions C08_refuse.

(* Acceptance: exactly the strings passed become the task's status and fields
   (after clearing when exc_info is given); nothing else changes but
   complete / content_length. *)
Theorem C08_accept : forall t status headers exc t',
  start_response py_lower t status headers exc = (t', Ok tt) ->
  offending py_lower status headers = false
  /\ t_status t' = str_of status
  /\ t_rh t' = (match exc with Some _ => [] | None => t_rh t end) ++ strs_of headers
  /\ t_complete t' = true
  /\ t_wrote_header t' = t_wrote_header t /\ t_cof t' = t_cof t /\ t_chunked t' = t_chunked t
  /\ t_cbw t' = t_cbw t /\ t_v11 t' = t_v11 t
  /\ (exc <> None -> t_wrote_header t = false).
Proof. exact (start_response_ok py_lower). Qed.
Print Assumptions C08_accept.

(* Whatever start_response is given and whether it raises or not, the task's
   status and fields stay free of CR/LF. *)
Theorem C08_validated : forall t status headers exc,
  task_clean t -> task_clean (fst (start_response py_lower t status headers exc)).
Proof. exact (start_response_clean py_lower). Qed.
Print Assumptions C08_validated.

(* Whole runs: for EVERY script (any actions, any faults, any disconnect, in-place
   mutation of header pairs included -- start_response stores fresh tuples),
   nothing is written before the head and the head is the serialisation
   (C08_lines) of a clean task. *)
Theorem C08_wire : forall c r disc a,
  cfg_clean c ->
  match r_error r with Some e => err_clean e | None => True end ->
  let res := run_task c r a disc in
  (o_wrote_header1 res = false -> o_writes1 res = [])
  /\ (o_wrote_header1 res = true ->
      exists h rest, o_writes1 res = WBytes h :: rest /\ HeadOK py_cap py_lower c r h).
Proof. exact (fun c r disc a Hc Hr => wire_head py_cap py_lower py_cap_clean c Hc r disc Hr a). Qed.
Print Assumptions C08_wire.

(* A refused start_response before any output (first call, exc_info re-call, ...)
   is answered by the ladder's own 500 ... *)
Theorem C08_refused_500 : forall c r disc a pre status headers exc post s1,
  r_error r = None -> connected disc 0 = true ->
  a_call a = pre ++ AStart status headers exc :: post ->
  run_actions py_cap py_lower c r disc (new_task (r_version r) false, mkChan [] 0) pre = (s1, Ok tt) ->
  t_wrote_header (fst s1) = false ->
  offending py_lower status headers = true ->
  o_served_500 (run_task c r a disc) = true.
Proof. exact (refused_gets_500 py_cap py_lower). Qed.
Print Assumptions C08_refused_500.

(* ... whose bytes are a function of the server configuration, the request's
   version / Connection header and the position of a scripted disconnect:
   response_500 does not take the application as an argument. *)
Theorem C08_500_server_only : forall c r disc a,
  cfg_clean c ->
  match r_error r with Some e => err_clean e | None => True end ->
  let res := run_task c r a disc in
  o_served_500 res = true ->
  o_writes1 res = [] /\ o_writes res = response_500 py_cap py_lower c r disc (o_nws1 res).
Proof. exact (fun c r disc a Hc Hr => served_500_bytes py_cap py_lower py_cap_clean c Hc r disc Hr a). Qed.
Print Assumptions C08_500_server_only.

(* Header pairs passed as lists and mutated after validation: no effect on any
   state (before 2730de7 the mutated strings reached the wire). *)
Theorem C08_pair_mutation_harmless : forall c r disc s i isv v,
  run_action py_cap py_lower c r disc s (AMutate i isv v) = (s, Ok tt).
Proof. exact (mutation_no_effect py_cap py_lower). Qed.
Print Assumptions C08_pair_mutation_harmless.

Theorem C08_pair_alias_instance :
  exists h rest,
    o_writes (run_task sample_cfg sample_req alias_app None) = WBytes h :: rest
    /\ In (lit "X-A: ok") (split h CRLF) /\ ~ In (lit "Set-Cookie: evil=1") (split h CRLF).
Proof. exact pair_alias_harmless. Qed.
Print Assumptions C08_pair_alias_instance.

(* ---- applications that catch a refusal of start_response and carry on ---- *)

(* The swallowed call itself: no exception, nothing written; the task is the one
   start_response left behind at its raise site. *)
Theorem C08_swallow_silent : forall c r disc s status headers exc,
  exists t, run_action py_cap py_lower c r disc s (ATryStart status headers exc) = ((t, snd s), Ok tt)
            /\ t = fst (start_response py_lower (fst s) status headers exc).
Proof. exact (try_start_silent py_cap py_lower). Qed.
Print Assumptions C08_swallow_silent.

(* Every raise site of start_response: the task is untouched (refused at the
   door), or complete = True, the fields are the old ones ([] after exc_info) --
   never extended --, the status is the old one or the call's own status once it
   passed the str and CR/LF checks, and content_length is the old one (None once
   exc_info cleared the headers): a length declared by a call that is refused --
   also when a LATER pair is refused -- is never recorded (/repo fix 5926e3b). *)
Theorem C08_refusal_residue : forall t status headers exc t' e,
  start_response py_lower t status headers exc = (t', Exn e) ->
  t' = t
  \/ (t_complete t' = true
      /\ t_rh t' = match exc with Some _ => [] | None => t_rh t end
      /\ (exc <> None -> t_wrote_header t = false)
      /\ t_clen t' = match exc with Some _ => None | None => t_clen t end
      /\ ((bad_obj status = true /\ t_status t' = t_status t)
          \/ (exists s, status = PStr s /\ has_crlf s = false /\ t_status t' = s))).
Proof. exact (start_response_residue py_lower). Qed.
Print Assumptions C08_refusal_residue.

(* Provenance is kept by start_response whether it returns or raises, for ANY
   notion P of admissible status and Q of admissible field to which the call
   contributes its status only if that passes its own checks and its pairs only
   if the call is acceptable as a whole. *)
Theorem C08_start_provenance : forall (P : str -> Prop) (Q : str * str -> Prop) t status headers exc,
  task_from P Q t -> call_ok py_lower P Q status headers ->
  task_from P Q (fst (start_response py_lower t status headers exc)).
Proof. exact (start_response_prov py_lower). Qed.
Print Assumptions C08_start_provenance.

(* Whole runs, every script (propagating and swallowed refusals, any faults, any
   disconnect): the head on the wire is the serialisation of a task whose status
   is the default or the status argument of one of the script's start_response
   calls that passed the status checks, and each of whose fields was passed in
   a call of the script that start_response accepts as a whole, or is a server
   field.  A string start_response refuses never reaches the wire. *)
Theorem C08_wire_accepted : forall c r disc a,
  r_error r = None ->
  let res := run_task c r a disc in
  o_wrote_header1 res = true ->
  exists h rest t0 t1,
    o_writes1 res = WBytes h :: rest
    /\ status_vetted a (t_status t0) /\ Forall (field_ok py_lower c a) (t_rh t0)
    /\ build_response_header py_cap py_lower c r t0 = (t1, Ok h).
Proof. exact (fun c r disc a => wire_accepted py_cap py_lower c r disc a). Qed.
Print Assumptions C08_wire_accepted.

(* ... line by line *)
Theorem C08_wire_accepted_lines : forall c r disc a,
  cfg_clean c -> r_error r = None ->
  let res := run_task c r a disc in
  o_wrote_header1 res = true ->
  exists h rest t0 sf,
    o_writes1 res = WBytes h :: rest
    /\ status_vetted a (t_status t0) /\ Forall (field_ok py_lower c a) (t_rh t0)
    /\ Forall (server_field c) sf
    /\ let fields := norm_fields py_cap (has_body t0) (t_rh t0) ++ sf in
       split h CRLF =
         (lit "HTTP/" ++ version_str t0 ++ [32] ++ t_status t0)
           :: map header_line (sort_hdrs fields) ++ [[]; []]
       /\ Forall clean (firstn (S (length fields)) (split h CRLF)).
Proof. exact (fun c r disc a Hc => wire_accepted_lines py_cap py_lower c r disc py_cap_clean Hc a). Qed.
Print Assumptions C08_wire_accepted_lines.

(* what "vetted" excludes *)
Theorem C08_vetted_clean : forall c a,
  cfg_clean c ->
  (forall s, status_vetted a s -> clean s) /\ (forall f, field_ok py_lower c a f -> clean_field f).
Proof. exact (vetted_clean py_lower). Qed.
Print Assumptions C08_vetted_clean.

(* The three sequences of seeded change C08-w2m2 (refused first call swallowed;
   valid call then refused exc_info re-call; refused re-call then write()):
   nothing of the refused status is in the head. *)
Theorem C08_swallowed_instances :
  head_lines_of swallow_first_app =
    Some [lit "HTTP/1.1 200 OK"; lit "Content-Length: 5";
          lit "Date: Thu, 01 Jan 2026 00:00:00 GMT"; lit "Server: waitress"; []; []]
  /\ head_lines_of swallow_excinfo_app =
    Some [lit "HTTP/1.1 200 OK"; lit "Content-Length: 5";
          lit "Date: Thu, 01 Jan 2026 00:00:00 GMT"; lit "Server: waitress"; []; []]
  /\ head_lines_of swallow_write_app =
    Some [lit "HTTP/1.1 200 OK"; lit "Connection: close";
          lit "Date: Thu, 01 Jan 2026 00:00:00 GMT"; lit "Server: waitress";
          lit "Transfer-Encoding: chunked"; []; []].
Proof. exact swallowed_refusals_instances. Qed.
Print Assumptions C08_swallowed_instances.

(* Observation (not a breach of C08: every emitted string passed its own
   validation): a refused call is not atomic.  The stricter statement "the
   status on the wire belongs to a call accepted as a whole, or is the default"
   is refuted by  try: start_response("404 Not Found", [("Content-Length","3"),
   ("X-Bad\n","v")]) except ValueError: pass; return [b"hello"]  -- the wire says
   404 Not Found.  (Until /repo fix 5926e3b it also said Content-Length: 3 and
   "hel": the length declared by the refused call was applied; now the length is
   the server's own, of the single chunk.) *)
Theorem C08_strict_status_refuted : ~ strict_status_statement.
Proof. exact strict_status_refuted. Qed.
Print Assumptions C08_strict_status_refuted.

Theorem C08_residue_instance :
  o_writes (run_task sample_cfg sample_req residue_app None) =
    [WBytes (lit "HTTP/1.1 404 Not Found" ++ CRLF ++ lit "Content-Length: 5" ++ CRLF
             ++ lit "Date: Thu, 01 Jan 2026 00:00:00 GMT" ++ CRLF ++ lit "Server: waitress" ++ CRLF ++ CRLF);
     WBytes (lit "hello")].
Proof. exact residue_instance. Qed.
Print Assumptions C08_residue_instance.

(* the hypotheses are satisfiable *)
Example C08_example_cfg : cfg_clean sample_cfg.
Proof. exact sample_cfg_clean. Qed.

(* ---------------------------------------------------------------------------------------------
   The server's own Date field (Model/HttpDate.v: build_http_date over a Gallina gmtime -- days since
   1970-01-01 turned into a civil date by the era / day-of-era computation; the name tables are compared
   with the source on every run and K-date runs the real function).  The theorems above assume
   "cfg_clean c": the ident and the date of the configuration contain no CR / LF.  For the date this is
   no assumption: for EVERY time stamp the value consists of printable ASCII only, and up to the year
   9999 it is an IMF-fixdate  Www, DD Mon YYYY HH:MM:SS GMT  of 29 characters (month and day bounds by linear
   arithmetic over the era / day-of-era computation; digit counts by two small finite sweeps). *)
From WV Require Model.HttpDate Proof.HttpDate.
Module HD := WV.Model.HttpDate.
Module HDP := WV.Proof.HttpDate.

Theorem C08_date_clean : forall when : N,
  clean (HD.build_http_date when) /\ Forall HDP.printable (HD.build_http_date when).
Proof.
  exact (fun when => conj (proj2 (Bool.orb_false_iff _ _) (HDP.date_memb_crlf when)) (HDP.date_printable when)).
Qed.
Print Assumptions C08_date_clean.

Theorem C08_date_shape : forall when : N,
  (1000 <= HD.tm_year (HD.gmtime when) <= 9999)%N ->
  exists W D M Y h m s,
    HD.build_http_date when = W ++ [44; 32] ++ D ++ [32] ++ M ++ [32] ++ Y ++ [32] ++ h ++ [58] ++ m ++ [58] ++ s ++ [32; 71; 77; 84] /\
    In W HD.weekdayname /\ In M HD.monthname /\
    length D = 2%nat /\ length Y = 4%nat /\ length h = 2%nat /\ length m = 2%nat /\ length s = 2%nat /\
    Forall HDP.digit D /\ Forall HDP.digit Y /\ Forall HDP.digit h /\ Forall HDP.digit m /\ Forall HDP.digit s /\
    length (HD.build_http_date when) = 29%nat.
Proof. exact HDP.date_shape. Qed.
Print Assumptions C08_date_shape.

Theorem C08_date_examples :
  HD.build_http_date 0 = [84;104;117;44;32;48;49;32;74;97;110;32;49;57;55;48;32;48;48;58;48;48;58;48;48;32;71;77;84]%N /\
  HD.tm_year (HD.gmtime 951782400) = 2000%N /\ HD.tm_mon (HD.gmtime 951782400) = 2%N /\ HD.tm_mday (HD.gmtime 951782400) = 29%N /\
  HD.tm_year (HD.gmtime 253402300799) = 9999%N.
Proof. exact HDP.date_examples. Qed.
Print Assumptions C08_date_examples.
