(* C09 -- placeholder while the proofs are being developed; replaced below. *)
From Coq Require Import List NArith.
From WV Require Import Lib.PyBytes Model.Task.
Theorem C09_placeholder : forall n : N, n = n.
Proof. reflexivity. Qed.
Print Assumptions C09_placeholder.
