(* C09 -- Application failures are contained and the iterable is always closed.
   Statements only; proofs in Proof/TaskC09.v (ladder, exception classes,
   close() counting, traceback non-interference), Proof/TaskRun.v /
   Proof/TaskC08.v (nothing precedes the head; the 500 is built from server
   strings).  All statements are for ALL scripts (any actions at any step, an
   exception of any class at any step including close()), all disconnect
   positions, all settings. *)
From Coq Require Import String.
From Coq Require Import List NArith ZArith Bool.
From WV Require Import Lib.PyBytes Gen.GenTables Model.Task Proof.TaskHead Proof.TaskRun Proof.TaskOracle
  Proof.TaskC08 Proof.TaskC09.
Import ListNotations.
Local Open Scope N_scope.

(* close() of the application's iterable: at most once; exactly once when the
   application returned an iterable that has close(), except when a file wrapper
   was handed over to the channel (then not at all by the task: the channel owns
   and closes the file); never when no iterable was returned. *)
Theorem C09_close_once : forall c r a disc,
  let res := run_task c r a disc in
  (o_closes res <= 1)%nat
  /\ (o_iter res = false -> o_closes res = 0%nat /\ o_handover res = false)
  /\ (o_iter res = true -> a_has_close a = true ->
      (o_closes res = 1%nat /\ o_handover res = false) \/ (o_closes res = 0%nat /\ o_handover res = true))
  /\ (o_iter res = true -> a_has_close a = false -> o_closes res = 0%nat)
  /\ (o_handover res = true -> a_kind a = KFile true).
Proof. exact (fun c r a disc => close_once py_cap py_lower c r disc a). Qed.
Print Assumptions C09_close_once.

(* The outcome of HTTPChannel.service() by what was raised (outcome_spec, in
   Proof/TaskC09.v), for every exception class -- Exception, OSError and
   BaseException subclasses alike:
   - nothing raised: nothing escapes, no 500, the bytes are the task's own;
   - ClientDisconnected: closed, no further bytes;
   - anything else after output began: closed, no further bytes;
   - anything else before any output: the ladder's 500 is served, then closed
     (whether or not the 500 itself could be built and sent: a head that cannot
     be encoded or a client that went away no longer lets anything escape,
     /repo fix 1a765e6). *)
Theorem C09_outcome : forall c r a disc, outcome_spec (run_task c r a disc).
Proof. exact (fun c r a disc => service_outcome py_cap py_lower c r disc a). Qed.
Print Assumptions C09_outcome.

(* The property as stated, at full strength: whatever the application raised
   (other than the server's own ClientDisconnected), before any output the 500 is
   served and the connection closed, after output the connection is closed
   without further bytes. *)
Theorem C09_contained : forall c r a disc e,
  let res := run_task c r a disc in
  o_raw res = Some e ->
  exn_eqb e ClientDisconnected = false ->
  (o_wrote_header1 res = true ->
     o_close res = true /\ o_next res = false /\ o_escaped res = None
     /\ o_served_500 res = false /\ o_writes res = o_writes1 res)
  /\ (o_wrote_header1 res = false ->
     o_served_500 res = true /\ o_close res = true /\ o_next res = false /\ o_escaped res = None).
Proof. exact (contained py_cap py_lower). Qed.
Print Assumptions C09_contained.

(* Nothing leaves service(), for every configuration (server strings that are not
   latin-1 included), request, application and disconnect position.  (Until /repo
   fix 1a765e6 an encode error of the server's own 500 did, and stranded the
   connection.) *)
Theorem C09_escape : forall c r a disc, o_escaped (run_task c r a disc) = None.
Proof. exact (nothing_escapes py_cap py_lower). Qed.
Print Assumptions C09_escape.

(* The worker survives: handler_thread's catch-all turns whatever escaped
   service() into a log record; the loop goes on (handler_thread is a total
   function returning the record). *)
Theorem C09_worker_survives : forall c r a disc,
  handler_thread py_cap py_lower c r a disc = (run_task c r a disc, o_escaped (run_task c r a disc)).
Proof. exact (handler_thread_total py_cap py_lower). Qed.
Print Assumptions C09_worker_survives.

(* No traceback text unless expose_tracebacks: with the setting off the whole
   result, wire bytes included, is independent of the traceback text. *)
Theorem C09_no_traceback_leak : forall c1 c2 r a disc,
  cfg_eqv c1 c2 ->
  c_expose_tracebacks c1 = false -> c_expose_tracebacks c2 = false ->
  run_task c1 r a disc = run_task c2 r a disc.
Proof. exact (fun c1 c2 r a disc H => no_traceback_leak py_cap py_lower c1 c2 H r a disc). Qed.
Print Assumptions C09_no_traceback_leak.

(* The 500 served before any output is a function of server strings only and
   nothing precedes it (from C08), for every script. *)
Theorem C09_500_complete : forall c r disc a,
  cfg_clean c ->
  match r_error r with Some e => err_clean e | None => True end ->
  let res := run_task c r a disc in
  o_served_500 res = true ->
  o_writes1 res = [] /\ o_writes res = response_500 py_cap py_lower c r disc (o_nws1 res).
Proof. exact (fun c r disc a Hc Hr => served_500_bytes py_cap py_lower py_cap_clean c Hc r disc Hr a). Qed.
Print Assumptions C09_500_complete.

(* The two classes that used to be open, as instances of the theorems above:
   a BaseException subclass (escaped before 72e39ad) and an application OSError
   with log_socket_errors off (silent close before 4ec4884) get the 500. *)
Theorem C09_baseexception_contained :
  let res := run_task sample_cfg sample_req base_app None in
  o_escaped res = None /\ o_served_500 res = true /\ o_close res = true /\ o_next res = false
  /\ o_writes res = response_500 py_cap py_lower sample_cfg sample_req None 0.
Proof. exact baseexception_contained. Qed.
Print Assumptions C09_baseexception_contained.

Theorem C09_oserror_answered :
  let res := run_task quiet_cfg sample_req oserr_app None in
  o_raw res = Some AppOSError /\ o_wrote_header1 res = false
  /\ o_served_500 res = true /\ o_close res = true /\ o_escaped res = None.
Proof. exact oserror_answered. Qed.
Print Assumptions C09_oserror_answered.

(* A connection already marked for closing (will_close, read by service() next to
   connected) is not executed: the application is not called, nothing is written,
   the close branch is taken.  With will_close false service() is run_task. *)
Theorem C09_will_close_not_executed : forall c r a disc,
  let res := run_task_wc c r a disc true in
  o_iter res = false /\ o_writes res = [] /\ o_close res = true /\ o_next res = false
  /\ o_escaped res = None /\ o_closes res = 0%nat /\ o_raw res = None.
Proof. exact will_close_not_executed. Qed.
Print Assumptions C09_will_close_not_executed.
