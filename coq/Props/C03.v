(* C03 -- Every response stream is well-framed and persistence is signalled
   truthfully.  Statements only.  Proofs: Proof/TaskChunk.v (chunked coding
   round trip), Proof/TaskFrame.v (the persistence decision table; too few
   bytes close), Proof/TaskBody.v + Proof/TaskSimple.v (what a plain
   application puts on the wire), Proof/TaskClient.v + Proof/TaskFrameClient.v
   (the client of Spec/ClientParse.v reading it back), Proof/TaskFrameEnd.v
   (end to end), Proof/TaskC09.v (failure after the head closes),
   Proof/TaskC03.v (closed instances, witnesses). *)
From Coq Require Import String.
From Coq Require Import List NArith ZArith Bool.
From WV Require Import Lib.PyBytes Gen.GenTables Model.Task Spec.ClientParse
  Proof.TaskHead Proof.TaskStart Proof.TaskRun Proof.TaskChunk Proof.TaskClient Proof.TaskOracle
  Proof.TaskC08 Proof.TaskC09 Proof.TaskFrame Proof.TaskBody Proof.TaskSimple Proof.TaskFrameClient
  Proof.TaskFrameEnd Proof.TaskC03.
Import ListNotations.
Local Open Scope N_scope.

(* hex(n)[2:].upper() is read back by int(s, 16), for every n *)
Theorem C03_hex_roundtrip : forall n, hex_value (to_hex_upper n) = n.
Proof. exact hex_roundtrip. Qed.
Print Assumptions C03_hex_roundtrip.

(* chunk_roundtrip: for every list of chunks (empty ones are skipped by
   Task.write) the client decodes the emitted chunked body followed by
   "0\r\n\r\n" to exactly their concatenation and stops exactly at its end,
   whatever follows. *)
Theorem C03_chunk_roundtrip : forall cs rest fuel, (length cs < fuel)%nat ->
  decode_chunked fuel (encode_chunked cs ++ rest) = Some (concat cs, rest).
Proof. exact chunk_roundtrip. Qed.
Print Assumptions C03_chunk_roundtrip.

(* The persistence decision table of build_response_header, complete: for a task
   that has not decided to close yet and carries no Connection field, by HTTP
   version x request Connection x the parser's connection_close verdict x
   whether a Content-Length is known x whether the status has a body: exactly
   which fields are added, close_on_finish and chunked_response. *)
Theorem C03_decision_table : forall conn fc clh t,
  t_cof t = false -> t_wrote_header t = false -> t_chunked t = false -> NoConn py_cap (t_rh t) ->
  let t' := bh_conn py_cap py_lower conn fc clh t in
  let '(add, cof, chk) := conn_table (t_v11 t) conn fc (truthy clh) (has_body t) in
  t_rh t' = t_rh t ++ add /\ t_cof t' = cof /\ t_chunked t' = chk
  /\ t_status t' = t_status t /\ t_clen t' = t_clen t /\ t_cbw t' = t_cbw t
  /\ t_wrote_header t' = false /\ t_v11 t' = t_v11 t /\ t_complete t' = t_complete t.
Proof. exact (bh_conn_table py_cap py_lower py_cap_te). Qed.
Print Assumptions C03_decision_table.

(* announce / keep, read off the table: when the decision is to close, the head
   carries "Connection: close" and not "Keep-Alive"; when it is to keep, it
   carries no "Connection: close" (1.1: nothing; 1.0: exactly "Keep-Alive");
   chunked coding only for HTTP/1.1 without a known length and with a body, and
   then the connection is also closed; and the decision is to close exactly for
   HTTP/1.1 with Connection: close / connection_close / no known length, and for
   HTTP/1.0 unless keep-alive was asked and a length is known. *)
Theorem C03_announce_keep : forall v11 conn fc has_cl hb,
  let '(add, cof, chk) := conn_table v11 conn fc has_cl hb in
  (cof = true -> In f_close add /\ ~ In f_keep add)
  /\ (cof = false -> ~ In f_close add /\ (if v11 then add = [] else add = [f_keep]))
  /\ (chk = true -> v11 = true /\ has_cl = false /\ hb = true /\ In f_chunked add /\ cof = true)
  /\ (cof = true <-> (if v11 then beqb conn (lit "close") || fc || negb has_cl
                     else negb (beqb conn (lit "keep-alive") && negb fc && has_cl)) = true).
Proof. exact (table_announce py_cap). Qed.
Print Assumptions C03_announce_keep.

(* close: the application produced a number of bytes different from the declared
   Content-Length (non-HEAD, nothing raised, no hand-over): the connection is
   closed, not reused.  (A failure after the head was sent closes: C09_outcome.) *)
Theorem C03_close_too_few : forall c r a disc cl,
  r_error r = None -> connected disc 0 = true ->
  let res := run_task c r a disc in
  o_raw res = None -> o_handover res = false -> o_iter res = true ->
  t_clen (o_task1 res) = Some cl -> t_cbw (o_task1 res) <> cl -> r_head r = false ->
  o_close res = true /\ o_next res = false.
Proof. exact (fun c r a disc cl => too_few_closes py_cap py_lower c r disc a cl). Qed.
Print Assumptions C03_close_too_few.

(* frame, client side: for every prepared clean task whose field names contain no
   colon, the client reads back the status line and the fields, and
   - chunked: decodes exactly the application's bytes and stops at the end;
   - no Transfer-Encoding / Content-Length: takes everything up to EOF;
   - HEAD / 1xx / 204 / 304: no body, nothing consumed after the head. *)
Theorem C03_client_chunked : forall tp chunks rest,
  task_clean tp -> Forall (fun h => no_colon (fst h)) (t_rh tp) ->
  has_body tp = true -> te_fields tp = [client_field f_chunked] ->
  parse_one false (head_text tp ++ encode_chunked chunks ++ rest)
  = Some (mkResponse (first_line tp) (map client_field (sort_hdrs (t_rh tp))) FChunked (concat chunks), rest).
Proof. exact parse_chunked. Qed.
Print Assumptions C03_client_chunked.

Theorem C03_client_eof : forall tp body,
  task_clean tp -> Forall (fun h => no_colon (fst h)) (t_rh tp) ->
  has_body tp = true -> te_fields tp = [] -> cl_fields tp = [] ->
  parse_one false (head_text tp ++ body)
  = Some (mkResponse (first_line tp) (map client_field (sort_hdrs (t_rh tp))) FEof body, []).
Proof. exact parse_eof. Qed.
Print Assumptions C03_client_eof.

Theorem C03_client_nobody : forall tp is_head rest,
  task_clean tp -> Forall (fun h => no_colon (fst h)) (t_rh tp) ->
  is_head = true \/ has_body tp = false ->
  parse_one is_head (head_text tp ++ rest)
  = Some (mkResponse (first_line tp) (map client_field (sort_hdrs (t_rh tp))) FNoBody [], rest).
Proof. exact parse_nobody. Qed.
Print Assumptions C03_client_nobody.

(* The three end-to-end frame theorems below are named _partial because they
   cover PLAIN applications only (one start_response, header names that play no
   part in framing, a generator or sized iterable of byte chunks, nothing
   raised), not because of any open defect: file wrappers, write() mixed with
   iteration and several start_response calls are covered by the client lemmas
   above, by C03_close_too_few / C09_outcome, and by the correspondence + search.

   frame, end to end through HTTPChannel.service, for plain applications without a
   declared length (one start_response without Content-Length, header names that
   play no part in framing, a generator or a sized iterable of any number <> 1 of
   chunks, empty ones included, non-HEAD, status with a body, client connected,
   nothing raised): the client recovers the status line, every application field
   (name normalised in letter case, value OWS-stripped) and exactly the
   concatenation of the application's chunks -- chunked on HTTP/1.1, close-delimited
   on HTTP/1.0 --, the head says "Connection: close" and the connection is closed. *)
Theorem C03_frame_partial : forall c r status hs kind chunks hc,
  cfg_clean c ->
  r_error r = None -> is_file kind = false -> len1 kind = false -> Forall (not_cl py_lower) hs ->
  plain_fields py_cap (strs_of hs) ->
  r_head r = false ->
  startswith status (lit "1") || startswith status (lit "204") || startswith status (lit "304") = false ->
  let res := run_task c r (simple_app status hs kind chunks hc) None in
  o_raw res = None ->
  exists sl fields,
    parse_one false (wire (o_writes res))
    = Some (mkResponse sl fields
                       (if beqb (r_version r) (lit "1.1") then FChunked else FEof) (concat chunks), [])
    /\ sl = lit "HTTP/" ++ (if beqb (r_version r) (lit "1.1") then lit "1.1" else lit "1.0") ++ [32] ++ status
    /\ (forall h, In h (strs_of hs) -> In (client_field (norm_field py_cap h)) fields)
    /\ In (client_field f_close) fields
    /\ o_close res = true /\ o_next res = false.
Proof.
  exact (fun c r status hs kind chunks hc Hc =>
           frame_nolen py_cap py_lower py_cap_clean py_cap_te c Hc r status hs kind chunks hc).
Qed.
Print Assumptions C03_frame_partial.

(* ... and for plain applications that declare the exact Content-Length (any
   position of that header, any spelling that lower-cases to "content-length" and
   normalises to "Content-Length", a decimal value): the client reads exactly that
   many bytes, they are the application's bytes, nothing is left over; the
   connection is kept -- the next request is served -- exactly when the head does
   not say "Connection: close" (HTTP/1.1: no Connection: close request header and
   no connection_close verdict; HTTP/1.0: keep-alive asked), and closed exactly
   when it does. *)
Theorem C03_frame_length_partial : forall c r status pre clname v post kind chunks hc cl,
  cfg_clean c ->
  r_error r = None -> is_file kind = false ->
  Forall (not_cl py_lower) pre -> Forall (not_cl py_lower) post ->
  beqb (py_lower clname) (lit "content-length") = true -> py_int v = Some cl ->
  all_digits v = true -> Z.of_N (dec_value v) = cl -> Z.of_nat (length (concat chunks)) = cl ->
  plain_fields py_cap (strs_of pre) -> plain_fields py_cap (strs_of post) ->
  norm_name py_cap clname = lit "Content-Length" ->
  r_head r = false ->
  startswith status (lit "1") || startswith status (lit "204") || startswith status (lit "304") = false ->
  let hs := pre ++ (PStr clname, PStr v) :: post in
  let res := run_task c r (simple_app status hs kind chunks hc) None in
  let keep := if beqb (r_version r) (lit "1.1")
              then negb (beqb (request_connection r) (lit "close") || r_connection_close r)
              else beqb (request_connection r) (lit "keep-alive") && negb (r_connection_close r) in
  o_raw res = None ->
  exists sl fields,
    parse_one false (wire (o_writes res))
    = Some (mkResponse sl fields (FLength (dec_value v)) (concat chunks), [])
    /\ sl = lit "HTTP/" ++ (if beqb (r_version r) (lit "1.1") then lit "1.1" else lit "1.0") ++ [32] ++ status
    /\ (forall h, In h (strs_of hs) -> In (client_field (norm_field py_cap h)) fields)
    /\ o_next res = keep /\ o_close res = negb keep
    /\ (keep = false -> In (client_field f_close) fields)
    /\ (keep = true -> ~ In (client_field f_close) fields).
Proof.
  exact (fun c r status pre clname v post kind chunks hc cl Hc =>
           frame_len py_cap py_lower py_cap_clean py_cap_connection py_cap_te c Hc r py_cap_cl
                     status pre clname v post kind chunks hc cl).
Qed.
Print Assumptions C03_frame_length_partial.

(* HEAD: a plain application without a declared length that produces no body
   bytes: the client, knowing it asked with HEAD, reads the head and nothing is
   left over, whatever the head says about Transfer-Encoding. *)
Theorem C03_frame_head_partial : forall c r status hs kind chunks hc,
  cfg_clean c ->
  r_error r = None -> is_file kind = false -> len1 kind = false -> Forall (not_cl py_lower) hs ->
  plain_fields py_cap (strs_of hs) ->
  r_head r = true -> all_empty chunks ->
  let res := run_task c r (simple_app status hs kind chunks hc) None in
  o_raw res = None ->
  exists sl fields,
    parse_one true (wire (o_writes res)) = Some (mkResponse sl fields FNoBody [], [])
    /\ sl = lit "HTTP/" ++ (if beqb (r_version r) (lit "1.1") then lit "1.1" else lit "1.0") ++ [32] ++ status
    /\ (forall h, In h (strs_of hs) -> In (client_field (norm_field py_cap h)) fields).
Proof.
  exact (fun c r status hs kind chunks hc Hc =>
           frame_head_nolen py_cap py_lower py_cap_clean py_cap_te c Hc r status hs kind chunks hc).
Qed.
Print Assumptions C03_frame_head_partial.

(* A task that has already decided to close before its head is built (every
   ErrorTask; a WSGI task that found too few bytes) takes the plain close branch
   on HTTP/1.0: no Keep-Alive is announced next to Connection: close. *)
Theorem C03_closed_task_no_keepalive : forall conn fc clh t,
  t_v11 t = false -> t_cof t = true ->
  bh_conn py_cap py_lower conn fc clh t = set_close_on_finish py_cap py_lower t.
Proof. exact (bh_conn_closed_10 py_cap py_lower). Qed.
Print Assumptions C03_closed_task_no_keepalive.

(* The three classes repaired in /repo (b49920f, 766d449, 5ee3173), as instances. *)
Theorem C03_head_nothing_left :
  let res := run_task sample_cfg head_req empty_app None in
  exists resp, parse_stream [true] (wire (o_writes res)) = ([resp], [])
               /\ rs_framing resp = FNoBody.
Proof. exact head_nothing_left. Qed.
Print Assumptions C03_head_nothing_left.

Theorem C03_error_single_connection_field :
  let res := run_task sample_cfg ka10_req failing_app None in
  exists resp, parse_stream [false] (wire (o_writes res)) = ([resp], [])
               /\ filter (field_is (lit "connection")) (rs_fields resp) = [(lit "Connection", lit "close")]
               /\ o_close res = true.
Proof. exact error_single_connection_field. Qed.
Print Assumptions C03_error_single_connection_field.

Theorem C03_write_then_file_framed :
  let res := run_task sample_cfg sample_req write_then_file_app None in
  o_raw res = None /\ o_handover res = false /\ o_closes res = 1%nat
  /\ exists resp, parse_stream [false] (wire (o_writes res)) = ([resp], [])
                  /\ rs_framing resp = FChunked /\ rs_body resp = lit "xabcdef".
Proof. exact write_then_file_framed. Qed.
Print Assumptions C03_write_then_file_framed.
