(* C03 -- Every response stream is well-framed and persistence is signalled
   truthfully.  Statements only.  Proofs: Proof/TaskChunk.v (chunked coding
   round trip), Proof/TaskFrame.v (the persistence decision table; too few
   bytes close), Proof/TaskBody.v + Proof/TaskSimple.v (what a plain
   application puts on the wire), Proof/TaskClient.v + Proof/TaskFrameClient.v
   (the client of Spec/ClientParse.v reading it back), Proof/TaskFrameEnd.v
   (end to end), Proof/TaskC09.v (failure after the head closes),
   Proof/TaskC03.v (closed instances, witnesses). *)
From Coq Require Import String.
From Coq Require Import List NArith ZArith Bool.
From WV Require Import Lib.PyBytes Gen.GenTables Model.Task Spec.ClientParse
  Proof.TaskHead Proof.TaskStart Proof.TaskRun Proof.TaskChunk Proof.TaskClient Proof.TaskOracle
  Proof.TaskC08 Proof.TaskC09 Proof.TaskFrame Proof.TaskBody Proof.TaskSimple Proof.TaskFrameClient
  Proof.TaskFrameEnd Proof.TaskC03
  Proof.TaskFrame2Sem Proof.TaskFrame2Run Proof.TaskFrame2Head Proof.TaskFrame2End Proof.TaskFrame2Err
  Proof.TaskFrame2File Proof.TaskFrame2FileEnd Proof.TaskC03b.
Import ListNotations.
Local Open Scope N_scope.

(* hex(n)[2:].upper() is read back by int(s, 16), for every n *)
Theorem C03_hex_roundtrip : forall n, hex_value (to_hex_upper n) = n.
Proof. exact hex_roundtrip. Qed.
Print Assumptions C03_hex_roundtrip.

(* chunk_roundtrip: for every list of chunks (empty ones are skipped by
   Task.write) the client decodes the emitted chunked body followed by
   "0\r\n\r\n" to exactly their concatenation and stops exactly at its end,
   whatever follows. *)
Theorem C03_chunk_roundtrip : forall cs rest fuel, (length cs < fuel)%nat ->
  decode_chunked fuel (encode_chunked cs ++ rest) = Some (concat cs, rest).
Proof. exact chunk_roundtrip. Qed.
Print Assumptions C03_chunk_roundtrip.

(* The persistence decision table of build_response_header, complete: for a task
   that has not decided to close yet and carries no Connection field, by HTTP
   version x request Connection x the parser's connection_close verdict x
   whether a Content-Length is known x whether the status has a body: exactly
   which fields are added, close_on_finish and chunked_response. *)
Theorem C03_decision_table : forall conn fc clh t,
  t_cof t = false -> t_wrote_header t = false -> t_chunked t = false -> NoConn py_cap (t_rh t) ->
  let t' := bh_conn py_cap py_lower conn fc clh t in
  let '(add, cof, chk) := conn_table (t_v11 t) conn fc (truthy clh) (has_body t) in
  t_rh t' = t_rh t ++ add /\ t_cof t' = cof /\ t_chunked t' = chk
  /\ t_status t' = t_status t /\ t_clen t' = t_clen t /\ t_cbw t' = t_cbw t
  /\ t_wrote_header t' = false /\ t_v11 t' = t_v11 t /\ t_complete t' = t_complete t.
Proof. exact (bh_conn_table py_cap py_lower py_cap_te). Qed.
Print Assumptions C03_decision_table.

(* announce / keep, read off the table: when the decision is to close, the head
   carries "Connection: close" and not "Keep-Alive"; when it is to keep, it
   carries no "Connection: close" (1.1: nothing; 1.0: exactly "Keep-Alive");
   chunked coding only for HTTP/1.1 without a known length and with a body, and
   then the connection is also closed; and the decision is to close exactly for
   HTTP/1.1 with Connection: close / connection_close / no known length, and for
   HTTP/1.0 unless keep-alive was asked and a length is known. *)
Theorem C03_announce_keep : forall v11 conn fc has_cl hb,
  let '(add, cof, chk) := conn_table v11 conn fc has_cl hb in
  (cof = true -> In f_close add /\ ~ In f_keep add)
  /\ (cof = false -> ~ In f_close add /\ (if v11 then add = [] else add = [f_keep]))
  /\ (chk = true -> v11 = true /\ has_cl = false /\ hb = true /\ In f_chunked add /\ cof = true)
  /\ (cof = true <-> (if v11 then beqb conn (lit "close") || fc || negb has_cl
                     else negb (beqb conn (lit "keep-alive") && negb fc && has_cl)) = true).
Proof. exact (table_announce py_cap). Qed.
Print Assumptions C03_announce_keep.

(* close: the application produced a number of bytes different from the declared
   Content-Length (non-HEAD, nothing raised, no hand-over): the connection is
   closed, not reused.  (A failure after the head was sent closes: C09_outcome.) *)
Theorem C03_close_too_few : forall c r a disc cl,
  r_error r = None -> connected disc 0 = true ->
  let res := run_task c r a disc in
  o_raw res = None -> o_handover res = false -> o_iter res = true ->
  t_clen (o_task1 res) = Some cl -> t_cbw (o_task1 res) <> cl -> r_head r = false ->
  o_close res = true /\ o_next res = false.
Proof. exact (fun c r a disc cl => too_few_closes py_cap py_lower c r disc a cl). Qed.
Print Assumptions C03_close_too_few.

(* frame, client side: for every prepared clean task whose field names contain no
   colon, the client reads back the status line and the fields, and
   - chunked: decodes exactly the application's bytes and stops at the end;
   - no Transfer-Encoding / Content-Length: takes everything up to EOF;
   - HEAD / 1xx / 204 / 304: no body, nothing consumed after the head. *)
Theorem C03_client_chunked : forall tp chunks rest,
  task_clean tp -> Forall (fun h => no_colon (fst h)) (t_rh tp) ->
  has_body tp = true -> te_fields tp = [client_field f_chunked] ->
  parse_one false (head_text tp ++ encode_chunked chunks ++ rest)
  = Some (mkResponse (first_line tp) (map client_field (sort_hdrs (t_rh tp))) FChunked (concat chunks), rest).
Proof. exact parse_chunked. Qed.
Print Assumptions C03_client_chunked.

Theorem C03_client_eof : forall tp body,
  task_clean tp -> Forall (fun h => no_colon (fst h)) (t_rh tp) ->
  has_body tp = true -> te_fields tp = [] -> cl_fields tp = [] ->
  parse_one false (head_text tp ++ body)
  = Some (mkResponse (first_line tp) (map client_field (sort_hdrs (t_rh tp))) FEof body, []).
Proof. exact parse_eof. Qed.
Print Assumptions C03_client_eof.

Theorem C03_client_nobody : forall tp is_head rest,
  task_clean tp -> Forall (fun h => no_colon (fst h)) (t_rh tp) ->
  is_head = true \/ has_body tp = false ->
  parse_one is_head (head_text tp ++ rest)
  = Some (mkResponse (first_line tp) (map client_field (sort_hdrs (t_rh tp))) FNoBody [], rest).
Proof. exact parse_nobody. Qed.
Print Assumptions C03_client_nobody.

(* The three end-to-end frame theorems below are named _partial because they
   cover PLAIN applications only (one start_response, header names that play no
   part in framing, a generator or sized iterable of byte chunks, nothing
   raised), not because of any open defect: file wrappers, write() mixed with
   iteration and several start_response calls are covered by the client lemmas
   above, by C03_close_too_few / C09_outcome, and by the correspondence + search.

   frame, end to end through HTTPChannel.service, for plain applications without a
   declared length (one start_response without Content-Length, header names that
   play no part in framing, a generator or a sized iterable of any number <> 1 of
   chunks, empty ones included, non-HEAD, status with a body, client connected,
   nothing raised): the client recovers the status line, every application field
   (name normalised in letter case, value OWS-stripped) and exactly the
   concatenation of the application's chunks -- chunked on HTTP/1.1, close-delimited
   on HTTP/1.0 --, the head says "Connection: close" and the connection is closed. *)
Theorem C03_frame_partial : forall c r status hs kind chunks hc,
  cfg_clean c ->
  r_error r = None -> is_file kind = false -> len1 kind = false -> Forall (not_cl py_lower) hs ->
  plain_fields py_cap (strs_of hs) ->
  r_head r = false ->
  startswith status (lit "1") || startswith status (lit "204") || startswith status (lit "304") = false ->
  let res := run_task c r (simple_app status hs kind chunks hc) None in
  o_raw res = None ->
  exists sl fields,
    parse_one false (wire (o_writes res))
    = Some (mkResponse sl fields
                       (if beqb (r_version r) (lit "1.1") then FChunked else FEof) (concat chunks), [])
    /\ sl = lit "HTTP/" ++ (if beqb (r_version r) (lit "1.1") then lit "1.1" else lit "1.0") ++ [32] ++ status
    /\ (forall h, In h (strs_of hs) -> In (client_field (norm_field py_cap h)) fields)
    /\ In (client_field f_close) fields
    /\ o_close res = true /\ o_next res = false.
Proof.
  exact (fun c r status hs kind chunks hc Hc =>
           frame_nolen py_cap py_lower py_cap_clean py_cap_te c Hc r status hs kind chunks hc).
Qed.
Print Assumptions C03_frame_partial.

(* ... and for plain applications that declare the exact Content-Length (any
   position of that header, any spelling that lower-cases to "content-length" and
   normalises to "Content-Length", a decimal value): the client reads exactly that
   many bytes, they are the application's bytes, nothing is left over; the
   connection is kept -- the next request is served -- exactly when the head does
   not say "Connection: close" (HTTP/1.1: no Connection: close request header and
   no connection_close verdict; HTTP/1.0: keep-alive asked), and closed exactly
   when it does. *)
Theorem C03_frame_length_partial : forall c r status pre clname v post kind chunks hc cl,
  cfg_clean c ->
  r_error r = None -> is_file kind = false ->
  Forall (not_cl py_lower) pre -> Forall (not_cl py_lower) post ->
  beqb (py_lower clname) (lit "content-length") = true -> py_int v = Some cl ->
  all_digits v = true -> Z.of_N (dec_value v) = cl -> Z.of_nat (length (concat chunks)) = cl ->
  plain_fields py_cap (strs_of pre) -> plain_fields py_cap (strs_of post) ->
  norm_name py_cap clname = lit "Content-Length" ->
  r_head r = false ->
  startswith status (lit "1") || startswith status (lit "204") || startswith status (lit "304") = false ->
  let hs := pre ++ (PStr clname, PStr v) :: post in
  let res := run_task c r (simple_app status hs kind chunks hc) None in
  let keep := if beqb (r_version r) (lit "1.1")
              then negb (beqb (request_connection r) (lit "close") || r_connection_close r)
              else beqb (request_connection r) (lit "keep-alive") && negb (r_connection_close r) in
  o_raw res = None ->
  exists sl fields,
    parse_one false (wire (o_writes res))
    = Some (mkResponse sl fields (FLength (dec_value v)) (concat chunks), [])
    /\ sl = lit "HTTP/" ++ (if beqb (r_version r) (lit "1.1") then lit "1.1" else lit "1.0") ++ [32] ++ status
    /\ (forall h, In h (strs_of hs) -> In (client_field (norm_field py_cap h)) fields)
    /\ o_next res = keep /\ o_close res = negb keep
    /\ (keep = false -> In (client_field f_close) fields)
    /\ (keep = true -> ~ In (client_field f_close) fields).
Proof.
  exact (fun c r status pre clname v post kind chunks hc cl Hc =>
           frame_len py_cap py_lower py_cap_clean py_cap_connection py_cap_te c Hc r py_cap_cl
                     status pre clname v post kind chunks hc cl).
Qed.
Print Assumptions C03_frame_length_partial.

(* HEAD: a plain application without a declared length that produces no body
   bytes: the client, knowing it asked with HEAD, reads the head and nothing is
   left over, whatever the head says about Transfer-Encoding. *)
Theorem C03_frame_head_partial : forall c r status hs kind chunks hc,
  cfg_clean c ->
  r_error r = None -> is_file kind = false -> len1 kind = false -> Forall (not_cl py_lower) hs ->
  plain_fields py_cap (strs_of hs) ->
  r_head r = true -> all_empty chunks ->
  let res := run_task c r (simple_app status hs kind chunks hc) None in
  o_raw res = None ->
  exists sl fields,
    parse_one true (wire (o_writes res)) = Some (mkResponse sl fields FNoBody [], [])
    /\ sl = lit "HTTP/" ++ (if beqb (r_version r) (lit "1.1") then lit "1.1" else lit "1.0") ++ [32] ++ status
    /\ (forall h, In h (strs_of hs) -> In (client_field (norm_field py_cap h)) fields).
Proof.
  exact (fun c r status hs kind chunks hc Hc =>
           frame_head_nolen py_cap py_lower py_cap_clean py_cap_te c Hc r status hs kind chunks hc).
Qed.
Print Assumptions C03_frame_head_partial.

(* A task that has already decided to close before its head is built (every
   ErrorTask; a WSGI task that found too few bytes) takes the plain close branch
   on HTTP/1.0: no Keep-Alive is announced next to Connection: close. *)
Theorem C03_closed_task_no_keepalive : forall conn fc clh t,
  t_v11 t = false -> t_cof t = true ->
  bh_conn py_cap py_lower conn fc clh t = set_close_on_finish py_cap py_lower t.
Proof. exact (bh_conn_closed_10 py_cap py_lower). Qed.
Print Assumptions C03_closed_task_no_keepalive.

(* The three classes repaired in /repo (b49920f, 766d449, 5ee3173), as instances. *)
Theorem C03_head_nothing_left :
  let res := run_task sample_cfg head_req empty_app None in
  exists resp, parse_stream [true] (wire (o_writes res)) = ([resp], [])
               /\ rs_framing resp = FNoBody.
Proof. exact head_nothing_left. Qed.
Print Assumptions C03_head_nothing_left.

Theorem C03_error_single_connection_field :
  let res := run_task sample_cfg ka10_req failing_app None in
  exists resp, parse_stream [false] (wire (o_writes res)) = ([resp], [])
               /\ filter (field_is (lit "connection")) (rs_fields resp) = [(lit "Connection", lit "close")]
               /\ o_close res = true.
Proof. exact error_single_connection_field. Qed.
Print Assumptions C03_error_single_connection_field.

Theorem C03_write_then_file_framed :
  let res := run_task sample_cfg sample_req write_then_file_app None in
  o_raw res = None /\ o_handover res = false /\ o_closes res = 1%nat
  /\ exists resp, parse_stream [false] (wire (o_writes res)) = ([resp], [])
                  /\ rs_framing resp = FChunked /\ rs_body resp = lit "xabcdef".
Proof. exact write_then_file_framed. Qed.
Print Assumptions C03_write_then_file_framed.

(* ======================================================================== *)
(* The end-to-end frame statement widened towards the property's quantifier.
   Proofs: Proof/TaskFrame2Sem.v (Task.write sequences as a pure function:
   chunk coding / Content-Length clamp / no-body statuses), TaskFrame2Run.v
   (through WSGITask.execute, finish and HTTPChannel.service), TaskFrame2Head.v
   (what the client finds in the head), TaskFrame2End.v, TaskFrame2File.v +
   TaskFrame2FileEnd.v (file wrapper), TaskFrame2Err.v (failures, error
   responses), TaskC03b.v (closed instances + examples).

   Class of applications [wapp status hs ws kind chunks hc]:
     start_response(status, hs) once; then write(w) for each w in ws (empty
     ones included: write(b"") sends the head); then an iterable of [kind]
     delivering [chunks] (empty ones included); close() iff hc; nothing raised;
     client connected.
   [no_handover kind ws]: the iterable is iterated by the task -- it is not a
     file wrapper, or the file is not seekable, or write() was called before
     (commit 5ee3173).  A file wrapper stops at its first empty read:
     [produced kind chunks] is what the iterable delivers.
   [sl_of r status] = "HTTP/1.x " ++ status;  [no_body_st] = 1xx / 204 / 304;
   [keep_of r] = the persistence decision for a response of known length
     (1.1: no close asked; 1.0: keep-alive asked; and no connection_close verdict).

   Still outside these theorems (covered by the client lemmas above, by
   C03_close_too_few / C03_close_after_failure, and by K-task + the search on the
   real wire): several start_response calls; header names that take part in
   framing other than the one Content-Length; write() inside iteration steps; a
   sized iterable of length 1 without declared length (the server then declares
   the chunk's length); a declared positive length when nothing at all is written
   (the head is built after the decision to close); a declared length together
   with a 1xx/204/304 status; a seekable file SHORTER than the declared length
   (prepare(size) replaces the application's header) and an empty seekable file;
   pipelining depth (parse_stream over several
   service() calls: C04).  Error responses (ErrorTask, request.error) to HEAD
   requests carried a body until fix 7243240: C03_frame_error is for the client of
   a non-HEAD request, C03_frame_error_head for the client of a HEAD request.  The
   500 the ladder builds for a failed application did the same until fix 52947ac
   (its request object had no command): C03_frame_500 / C03_frame_500_head. *)

(* (1) no declared length; write() and/or chunks; any iterable that is iterated:
   chunked on HTTP/1.1, close-delimited on HTTP/1.0; the client recovers the bytes
   passed to write() followed by the bytes the iterable delivered; "Connection:
   close" is announced and the connection is closed. *)
Theorem C03_frame_write : forall c r status hs ws kind chunks hc,
  cfg_clean c ->
  r_error r = None -> no_handover kind ws -> len1 kind = false -> Forall (not_cl py_lower) hs ->
  plain_fields py_cap (strs_of hs) ->
  r_head r = false -> no_body_st status = false ->
  let res := run_task c r (wapp status hs ws kind chunks hc) None in
  o_raw res = None ->
  exists fields,
    parse_one false (wire (o_writes res))
    = Some (mkResponse (sl_of r status) fields
                       (if beqb (r_version r) (lit "1.1") then FChunked else FEof)
                       (concat ws ++ produced kind chunks), [])
    /\ (forall h, In h (strs_of hs) -> In (client_field (norm_field py_cap h)) fields)
    /\ In (client_field f_close) fields
    /\ o_close res = true /\ o_next res = false.
Proof. exact c03_frame_write. Qed.
Print Assumptions C03_frame_write.

(* ... and for HEAD (no body bytes; write(b"") and empty chunks allowed): nothing
   is left over after the head. *)
Theorem C03_frame_write_head : forall c r status hs ws kind chunks hc,
  cfg_clean c ->
  r_error r = None -> no_handover kind ws -> len1 kind = false -> Forall (not_cl py_lower) hs ->
  plain_fields py_cap (strs_of hs) ->
  r_head r = true -> concat ws ++ produced kind chunks = [] ->
  let res := run_task c r (wapp status hs ws kind chunks hc) None in
  o_raw res = None ->
  exists fields,
    parse_one true (wire (o_writes res)) = Some (mkResponse (sl_of r status) fields FNoBody [], [])
    /\ (forall h, In h (strs_of hs) -> In (client_field (norm_field py_cap h)) fields)
    /\ In (client_field f_close) fields
    /\ o_close res = true /\ o_next res = false.
Proof. exact c03_frame_write_head. Qed.
Print Assumptions C03_frame_write_head.

(* (3) 1xx / 204 / 304 without a declared length, ANY kind of iterable (a seekable file
   wrapper included: nothing is handed over after such a status, fix d117733; no
   [no_handover] hypothesis is needed): whatever the application writes
   or yields is dropped, the head carries neither Transfer-Encoding nor
   Content-Length and announces "Connection: close", the client (HEAD or not) reads
   the head and nothing is left over, and the connection is closed. *)
Theorem C03_frame_nobody : forall c r status hs ws kind chunks hc,
  cfg_clean c ->
  r_error r = None -> len1 kind = false -> Forall (not_cl py_lower) hs ->
  plain_fields py_cap (strs_of hs) ->
  no_body_st status = true ->
  let res := run_task c r (wapp status hs ws kind chunks hc) None in
  o_raw res = None ->
  exists fields,
    parse_one (r_head r) (wire (o_writes res)) = Some (mkResponse (sl_of r status) fields FNoBody [], [])
    /\ (forall h, In h (strs_of hs) -> In (client_field (norm_field py_cap h)) fields)
    /\ In (client_field f_close) fields
    /\ filter (field_is te_name) fields = [] /\ filter (field_is cl_name) fields = []
    /\ o_close res = true /\ o_next res = false
    /\ o_handover res = false /\ o_closes res = (if hc then 1 else 0)%nat.
Proof. exact c03_frame_nobody. Qed.
Print Assumptions C03_frame_nobody.

(* ... in particular a SEEKABLE file wrapper (wsgi.file_wrapper, close() present) returned
   with a 1xx/204/304 status and no declared length: it is not handed over to the channel
   (the hand-over requires has_body: fix d117733; before it the file's bytes followed the
   body-less head), the task iterates it, write() drops every block, the task closes the
   file exactly once; the client (HEAD or not) reads the head, nothing is left over, the
   head says "Connection: close" and the connection is closed. *)
Theorem C03_frame_file_nobody : forall c r status hs chunks,
  cfg_clean c ->
  r_error r = None -> Forall (not_cl py_lower) hs -> plain_fields py_cap (strs_of hs) ->
  no_body_st status = true ->
  let res := run_task c r (fapp status hs chunks true) None in
  o_raw res = None ->
  exists fields,
    parse_one (r_head r) (wire (o_writes res)) = Some (mkResponse (sl_of r status) fields FNoBody [], [])
    /\ (forall h, In h (strs_of hs) -> In (client_field (norm_field py_cap h)) fields)
    /\ In (client_field f_close) fields
    /\ filter (field_is te_name) fields = [] /\ filter (field_is cl_name) fields = []
    /\ o_close res = true /\ o_next res = false
    /\ o_handover res = false /\ o_closes res = 1%nat.
Proof. exact c03_frame_file_nobody. Qed.
Print Assumptions C03_frame_file_nobody.

(* (1)+(2) a declared Content-Length ([declared_ok]: one such header at any
   position, decimal value cl, plain names around it, a status with a body).
   The produced bytes reach the declared length -- exactly, or more and then the
   body is CUT there: the client reads exactly the declared number of bytes, they
   are the first bytes produced (write() first, then the iterable), nothing is
   left over; the connection is kept exactly when the head does not announce
   closing.  Subsumes C03_frame_length_partial. *)
Theorem C03_frame_length_cut : forall c r status pre post clname v cl ws kind chunks hc,
  declared_ok c r status pre post clname v cl ws kind ->
  let hs := pre ++ (PStr clname, PStr v) :: post in
  let all := concat ws ++ produced kind chunks in
  let res := run_task c r (wapp status hs ws kind chunks hc) None in
  r_head r = false -> (cl <= Z.of_nat (length all))%Z ->
  o_raw res = None ->
  exists fields,
    parse_one false (wire (o_writes res))
    = Some (mkResponse (sl_of r status) fields (FLength (dec_value v)) (firstn (N.to_nat (dec_value v)) all), [])
    /\ (forall h, In h (strs_of hs) -> In (client_field (norm_field py_cap h)) fields)
    /\ o_next res = keep_of r /\ o_close res = negb (keep_of r)
    /\ (keep_of r = false -> In (client_field f_close) fields)
    /\ (keep_of r = true -> ~ In (client_field f_close) fields).
Proof. exact c03_frame_length_cut. Qed.
Print Assumptions C03_frame_length_cut.

(* FEWER bytes than declared (at least one write() call or non-empty chunk): the
   response cannot be delimited as announced.  The client has the status line and
   the fields and is still waiting (parse_one = None on what was sent; for every
   completion [pad] of the missing length it would read produced ++ pad), and the
   connection is closed, not reused -- whatever the head announced. *)
Theorem C03_frame_length_short : forall c r status pre post clname v cl ws kind chunks hc,
  declared_ok c r status pre post clname v cl ws kind ->
  let hs := pre ++ (PStr clname, PStr v) :: post in
  let all := concat ws ++ produced kind chunks in
  let res := run_task c r (wapp status hs ws kind chunks hc) None in
  r_head r = false -> (Z.of_nat (length all) < cl)%Z -> ws ++ eff kind chunks <> [] ->
  o_raw res = None ->
  exists fields,
    parse_one false (wire (o_writes res)) = None
    /\ (forall pad, lenN (all ++ pad) = dec_value v ->
          parse_one false (wire (o_writes res) ++ pad)
          = Some (mkResponse (sl_of r status) fields (FLength (dec_value v)) (all ++ pad), []))
    /\ (forall h, In h (strs_of hs) -> In (client_field (norm_field py_cap h)) fields)
    /\ o_close res = true /\ o_next res = false.
Proof. exact c03_frame_length_short. Qed.
Print Assumptions C03_frame_length_short.

(* HEAD with a declared length (any value) and no body bytes: the client reads
   the head, nothing is left over, the connection is kept exactly when the head
   does not announce closing. *)
Theorem C03_frame_length_head : forall c r status pre post clname v cl ws kind chunks hc,
  declared_ok c r status pre post clname v cl ws kind ->
  let hs := pre ++ (PStr clname, PStr v) :: post in
  let all := concat ws ++ produced kind chunks in
  let res := run_task c r (wapp status hs ws kind chunks hc) None in
  r_head r = true -> all = [] ->
  o_raw res = None ->
  exists fields,
    parse_one true (wire (o_writes res)) = Some (mkResponse (sl_of r status) fields FNoBody [], [])
    /\ (forall h, In h (strs_of hs) -> In (client_field (norm_field py_cap h)) fields)
    /\ o_next res = keep_of r /\ o_close res = negb (keep_of r)
    /\ (keep_of r = false -> In (client_field f_close) fields)
    /\ (keep_of r = true -> ~ In (client_field f_close) fields).
Proof. exact c03_frame_length_head. Qed.
Print Assumptions C03_frame_length_head.

(* (4) wsgi.file_wrapper.  Not seekable, or after write(): iterated in blocks up to
   the first empty read -- that is [no_handover] in the five theorems above.
   Seekable, nothing written before, something to send ([fapp]), and a status WITH a
   body ([no_body_st status = false]: since fix d117733 this is simply the case split
   of the hand-over condition -- for 1xx/204/304 see C03_frame_file_nobody): prepare(size)
   reconciles the length, write(b"") sends the head, the file is handed to the
   channel (o_handover; close() is the channel's business).  Without a declared
   length the server declares the file's size and the client reads exactly the
   file's bytes ... *)
Theorem C03_frame_file : forall c r status hs chunks hc,
  cfg_clean c ->
  r_error r = None -> Forall (not_cl py_lower) hs -> plain_fields py_cap (strs_of hs) ->
  r_head r = false -> no_body_st status = false ->
  file_content (plain_steps chunks) <> [] ->
  let content := file_content (plain_steps chunks) in
  let res := run_task c r (fapp status hs chunks hc) None in
  o_raw res = None ->
  exists fields,
    parse_one false (wire (o_writes res))
    = Some (mkResponse (sl_of r status) fields (FLength (lenN content)) content, [])
    /\ (forall h, In h (strs_of hs) -> In (client_field (norm_field py_cap h)) fields)
    /\ o_next res = keep_of r /\ o_close res = negb (keep_of r)
    /\ (keep_of r = false -> In (client_field f_close) fields)
    /\ (keep_of r = true -> ~ In (client_field f_close) fields)
    /\ o_handover res = true /\ o_closes res = 0%nat.
Proof. exact c03_frame_file. Qed.
Print Assumptions C03_frame_file.

(* ... and with a declared length not larger than the file (a LONGER file is cut by
   prepare(size)) the application's header stays and the client reads exactly the
   declared number of bytes from the start of the file. *)
Theorem C03_frame_file_declared : forall c r status pre clname v post cl chunks hc,
  cfg_clean c ->
  r_error r = None ->
  Forall (not_cl py_lower) post ->
  beqb (py_lower clname) (lit "content-length") = true -> py_int v = Some cl ->
  all_digits v = true -> Z.of_N (dec_value v) = cl ->
  plain_fields py_cap (strs_of pre) -> plain_fields py_cap (strs_of post) ->
  norm_name py_cap clname = lit "Content-Length" ->
  r_head r = false -> no_body_st status = false ->
  let content := file_content (plain_steps chunks) in
  (0 < cl)%Z -> (cl <= Z.of_nat (length content))%Z ->
  let hs := pre ++ (PStr clname, PStr v) :: post in
  let res := run_task c r (fapp status hs chunks hc) None in
  o_raw res = None ->
  exists fields,
    parse_one false (wire (o_writes res))
    = Some (mkResponse (sl_of r status) fields (FLength (dec_value v)) (firstn (N.to_nat (dec_value v)) content), [])
    /\ (forall h, In h (strs_of hs) -> In (client_field (norm_field py_cap h)) fields)
    /\ o_next res = keep_of r /\ o_close res = negb (keep_of r)
    /\ (keep_of r = false -> In (client_field f_close) fields)
    /\ (keep_of r = true -> ~ In (client_field f_close) fields)
    /\ o_handover res = true /\ o_closes res = 0%nat.
Proof. exact c03_frame_file_declared. Qed.
Print Assumptions C03_frame_file_declared.

(* (5) a failure after the head was sent -- an exception raised by the application
   at any later step (iteration, write(), close()), or the client going away --
   for EVERY script and schedule: the connection is closed, not reused; nothing
   more is written (no 500 is appended to the partial response); nothing escapes. *)
Theorem C03_close_after_failure : forall c r a disc e,
  let res := run_task c r a disc in
  o_raw res = Some e -> o_wrote_header1 res = true ->
  o_close res = true /\ o_next res = false /\ o_escaped res = None
  /\ o_served_500 res = false /\ o_writes res = o_writes1 res.
Proof. exact (fail_after_head py_cap py_lower). Qed.
Print Assumptions C03_close_after_failure.

(* (6) error responses (request.error set by the parser: ErrorTask), for every code
   / reason / body text that is free of CR/LF and has a body-bearing code: the
   client of a non-HEAD request reads exactly one response with the error's status
   line, exactly Content-Length body bytes which are Error.to_response's text,
   nothing is left over, the head says "Connection: close" exactly once (no
   Keep-Alive next to it), and the connection is closed. *)
Theorem C03_frame_error : forall c r a code reason body,
  cfg_clean c -> r_error r = Some ((code, reason), body) -> r_head r = false -> clean code -> clean reason ->
  startswith (code ++ [32] ++ reason) (lit "1") || startswith (code ++ [32] ++ reason) (lit "204")
    || startswith (code ++ [32] ++ reason) (lit "304") = false ->
  let res := run_task c r a None in
  o_raw res = None ->
  let bodyb := err_body c reason body in
  exists fields,
    parse_one false (wire (o_writes res))
    = Some (mkResponse (sl_err (r_version r) (code ++ [32] ++ reason)) fields (FLength (lenN bodyb)) bodyb, [])
    /\ filter (field_is (lit "connection")) fields = [(lit "Connection", lit "close")]
    /\ In (client_field err_header) fields
    /\ o_close res = true /\ o_next res = false /\ o_served_500 res = false /\ o_escaped res = None.
Proof. exact frame_error. Qed.
Print Assumptions C03_frame_error.

(* ... and to a HEAD request (r_head: request.command == "HEAD"; ErrorTask.execute writes
   b"" then -- fix 7243240, before it the body followed the head): the client, knowing
   it asked with HEAD, reads exactly one response with the error's status line and NO
   body, nothing is left over; the head still announces in Content-Length the length
   the body would have, says "Connection: close" exactly once, and the connection is
   closed.  (The 500 the ladder builds for a failed application uses a fresh request
   object without a command: see C03_frame_500 and the report on HEAD there.) *)
Theorem C03_frame_error_head : forall c r a code reason body,
  cfg_clean c -> r_error r = Some ((code, reason), body) -> r_head r = true -> clean code -> clean reason ->
  startswith (code ++ [32] ++ reason) (lit "1") || startswith (code ++ [32] ++ reason) (lit "204")
    || startswith (code ++ [32] ++ reason) (lit "304") = false ->
  let res := run_task c r a None in
  o_raw res = None ->
  let bodyb := err_body c reason body in
  exists fields,
    parse_one true (wire (o_writes res))
    = Some (mkResponse (sl_err (r_version r) (code ++ [32] ++ reason)) fields FNoBody [], [])
    /\ filter (field_is (lit "connection")) fields = [(lit "Connection", lit "close")]
    /\ filter (field_is cl_name) fields = [(lit "Content-Length", to_dec (lenN bodyb))]
    /\ In (client_field err_header) fields
    /\ o_close res = true /\ o_next res = false /\ o_served_500 res = false /\ o_escaped res = None.
Proof. exact frame_error_head. Qed.
Print Assumptions C03_frame_error_head.

(* ... and the 500 the ladder builds when the application failed before any output
   (C08_served_500: then o_writes res = response_500 ... (o_nws1 res)): whenever
   that error task itself completes, the client reads exactly one response
   "500 Internal Server Error" with Content-Length body bytes and a single
   "Connection: close" (that the connection is then closed: C09_outcome); the
   failed request was not a HEAD. *)
Theorem C03_frame_500 : forall c r n,
  cfg_clean c -> r_head r = false ->
  let body := if c_expose_tracebacks c then c_tb c else internal_error_text in
  let er := mkReq (r_version r) (r_connection r) (r_head r) false (Some (err_InternalServerError, body)) in
  x_out (task_run py_cap py_lower c er None (new_task (r_version r) true, mkChan [] n)
                  (inr (err_InternalServerError, body))) = Ok tt ->
  let bodyb := err_body c (lit "Internal Server Error") body in
  exists fields,
    parse_one false (wire (response_500 py_cap py_lower c r None n))
    = Some (mkResponse (sl_err (r_version r) (lit "500 Internal Server Error")) fields (FLength (lenN bodyb)) bodyb, [])
    /\ filter (field_is (lit "connection")) fields = [(lit "Connection", lit "close")]
    /\ In (client_field err_header) fields.
Proof. exact frame_response_500. Qed.
Print Assumptions C03_frame_500.

(* ... and when the failed request was a HEAD (the ladder's err_request inherits the
   command: fix 52947ac, before it the 500's body followed the head): the client,
   knowing it asked with HEAD, reads the head and nothing is left over; the head still
   announces in Content-Length the length the body would have and says
   "Connection: close" once. *)
Theorem C03_frame_500_head : forall c r n,
  cfg_clean c -> r_head r = true ->
  let body := if c_expose_tracebacks c then c_tb c else internal_error_text in
  let er := mkReq (r_version r) (r_connection r) (r_head r) false (Some (err_InternalServerError, body)) in
  x_out (task_run py_cap py_lower c er None (new_task (r_version r) true, mkChan [] n)
                  (inr (err_InternalServerError, body))) = Ok tt ->
  let bodyb := err_body c (lit "Internal Server Error") body in
  exists fields,
    parse_one true (wire (response_500 py_cap py_lower c r None n))
    = Some (mkResponse (sl_err (r_version r) (lit "500 Internal Server Error")) fields FNoBody [], [])
    /\ filter (field_is (lit "connection")) fields = [(lit "Connection", lit "close")]
    /\ filter (field_is cl_name) fields = [(lit "Content-Length", to_dec (lenN bodyb))]
    /\ In (client_field err_header) fields.
Proof. exact frame_response_500_head. Qed.
Print Assumptions C03_frame_500_head.

(* ---------------------------------------------------------------------------------------------
   From the arguments of write_soon to the socket (Proof/TaskChanOut.v: Model/Task.v composed with the
   byte-level output queue Model/ChanOut.v, which runs write_soon / _flush_some over the buffer model
   of C17).  The theorems above read [wire (o_writes res)] -- the byte strings and handed-over file
   buffers a task gives to channel.write_soon, in order -- as a client reads it.  For EVERY list of
   write_soon arguments, every configuration of the channel (STRBUF_LIMIT, outbuf_overflow,
   outbuf_high_watermark, send_bytes, any positive sendbuf_len) and every behaviour of the socket
   during each call, what the socket accepted followed by what is still queued is exactly that wire
   string, and a drained queue means the client holds all of it: the framing theorems are statements
   about the bytes the output queue delivers. *)
From WV Require Model.Buffers Model.ChanOut Proof.ChanOut Proof.TaskChanOut.
Module CO := WV.Model.ChanOut.
Module COP := WV.Proof.ChanOut.
Module TCO := WV.Proof.TaskChanOut.

Theorem C03_writes_reach_socket : forall (cc : CO.cfg) (ws : list witem) (anss : list (list CO.answer)),
  COP.cfg_ok cc ->
  let q := CO.crun cc CO.chan_new (TCO.cops_of ws anss) in
  snd q ++ COP.cabs (fst q) = wire ws /\
  (COP.cabs (fst q) = [] -> snd q = wire ws).
Proof. exact TCO.writes_reach_socket_both. Qed.
Print Assumptions C03_writes_reach_socket.
