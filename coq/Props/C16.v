(* C16 -- Trusted proxy headers: only trusted kinds, only trusted hops, never a crash.
   Statements only; proofs are in Proof/Proxy*.v over Model/Proxy.v (a
   transliteration of waitress/proxy_headers.py and utilities.undquote, the
   quoted-string patterns being the terms generated from the source on this
   run), tied to the code by K-proxy.

   Reading guide.  parse_select is the header parsing / hop selection part of
   parse_proxy_headers (its local variables client, fhost, fproto, fport and
   the rewritten forwarded headers), parse_apply writes the selection into the
   environ, middleware = translate_proxy_headers.  C16_decompose says how a
   successful run of the middleware is made of the two. *)
From Coq Require Import List NArith ZArith Bool.
From WV Require Import Lib.PyBytes Lib.PyStrProxy Model.Proxy Spec.ProxySpec
  Proof.ProxyDict Proof.ProxyStages Proof.ProxyTotal Proof.ProxyHops Proof.ProxyRel Proof.ProxyKinds
  Proof.ProxyPrune Proof.ProxyCats Proof.ProxySplit Proof.ProxyUnq Proof.ProxyExamples.
From WV Require Import Lib.Regex Spec.Grammar.
Import ListNotations.
Local Open Scope N_scope.

(* ---- (a) never a crash ---------------------------------------------------------------
   For a WSGI environ (REMOTE_ADDR and wsgi.url_scheme present, as
   task.get_environment builds it), any header values and any configuration
   (any peer, any count, any set of kinds, clearing on or off): the middleware
   hands the request on (Ok) or answers 400 (Malformed); no exception escapes. *)
Theorem C16_total : forall c e, env_ok e -> forall x, middleware c e <> Exn x.
Proof. exact total. Qed.
Print Assumptions C16_total.

(* the two inputs that used to raise IndexError (F19, repaired by 12a41a9) are 400s *)
Theorem C16_former_crashes_are_400 :
  env_ok f19_env /\ middleware f19_cfg f19_env = Malformed h_fwd /\      (* Forwarded: for=:80 *)
  env_ok f19_env2 /\ middleware f19_cfg2 f19_env2 = Malformed h_xff.     (* X-Forwarded-For: " " (quoted) *)
Proof. exact former_crashes_are_400. Qed.
Print Assumptions C16_former_crashes_are_400.

(* ---- how a successful run is composed ------------------------------------------------------ *)
Theorem C16_decompose : forall c e o, middleware c e = Ok o ->
  (on_trusted_path c e = false /\ o = if clear_untrusted c then clear_untrusted_headers e u_all else e) \/
  (on_trusted_path c e = true /\ exists s s',
     parse_select e (trusted_proxy_count c) (tph_of c) = Ok s /\ parse_apply s = Ok s' /\
     o = if clear_untrusted c then clear_untrusted_headers (env s') (unt s') else env s').
Proof. exact middleware_ok_inv. Qed.
Print Assumptions C16_decompose.

(* ---- (b) the hop indexing law ----------------------------------------------------------------
   l[-k:][0] is element n - min k n (0-based) for every length n >= 1 and every
   count k >= 1, and it exists. *)
Theorem C16_hop_index_law : forall (A : Type) (l : list A) (p : positive), l <> [] ->
  hd_error (py_lastk l (Zpos p)) = nth_error l (List.length l - Nat.min (Pos.to_nat p) (List.length l)) /\
  exists x, hd_error (py_lastk l (Zpos p)) = Some x.
Proof. exact @hop_index_law. Qed.
Print Assumptions C16_hop_index_law.

(* every hop list of every length n >= 1 is the element list of a header value *)
Theorem C16_hop_index_header : forall (hops : list str) (p : positive),
  hops <> [] -> (forall h, In h hops -> memb c_comma h = false) ->
  pick (split (join [c_comma] hops) [c_comma]) (Pos.to_nat p) =
  nth_error hops (List.length hops - Nat.min (Pos.to_nat p) (List.length hops)).
Proof. exact hop_index_header. Qed.
Print Assumptions C16_hop_index_header.

(* X-Forwarded-For / -Host (Forwarded not trusted, absent or empty): the client
   address is the parse of exactly the picked element of X-Forwarded-For, the
   host the unquoted picked element of X-Forwarded-Host; both headers are
   rewritten to the join of the trusted suffix; proto and port are the single
   values; nothing else is written (record xf_selection, Proof/ProxyHops.v). *)
Theorem C16_hop_x_forwarded : forall e p tph s, fwd_inactive tph e ->
  parse_select e (Zpos p) tph = Ok s -> xf_selection e p tph s.
Proof. exact select_xf. Qed.
Print Assumptions C16_hop_x_forwarded.

(* Forwarded: with ps the parsed elements and suf their trusted suffix, host and
   proto are the first non-empty field of suf ("the oldest entry that has the
   field"), so is the client address when some entry of suf has for=; the
   header is rewritten to the join of the trusted suffix (record fwd_selection). *)
Theorem C16_hop_forwarded : forall e p tph raw s,
  has tph n_fwd = true -> lookup k_fwd e = Some raw -> truthy raw = true ->
  parse_select e (Zpos p) tph = Ok s -> fwd_selection e p raw s.
Proof. exact select_fwd. Qed.
Print Assumptions C16_hop_forwarded.

(* "first non-empty field of the suffix" is the k-th entry from the right
   whenever that entry has the field, and is never an entry left of the suffix *)
Theorem C16_forwarded_oldest : forall (ps : list forwarded_t) (g : forwarded_t -> str) k,
  (forall x, pick ps k = Some x -> g x <> [] -> first_nonempty (map g (suffix ps k)) = g x) /\
  (first_nonempty (map g (suffix ps k)) <> [] ->
   exists x, In x (suffix ps k) /\ g x = first_nonempty (map g (suffix ps k))).
Proof. exact (fun ps g k => conj (fun x => fwd_kth_wins ps g k x) (fwd_selected_in_suffix ps g k)). Qed.
Print Assumptions C16_forwarded_oldest.

(* what the selection does to the environ (record applied): REMOTE_ADDR /
   REMOTE_HOST = unbracket (addr_text client), REMOTE_PORT = its port if any,
   SERVER_NAME = the host text, wsgi.url_scheme = the lower-cased proto; no
   key outside the seven metadata keys is written. *)
Theorem C16_apply : forall s s', parse_apply s = Ok s' -> applied s s'.
Proof. exact apply_ok. Qed.
Print Assumptions C16_apply.

(* ---- (c) pruning ------------------------------------------------------------------------------------
   Two requests of a trusted peer that differ only in one trusted list-valued
   header (X-Forwarded-For, X-Forwarded-Host, or a non-empty Forwarded) whose
   values have the same last k elements: if both are accepted, the application
   sees the same environ on every key -- hops left of the trusted suffix never
   reach it.  (C16_hop_* give the rewritten header: the join of that suffix.) *)
Theorem C16_prune : forall c kd e1 e2 raw1 raw2 p o1 o2,
  (kd = KFor \/ kd = KHost \/ kd = KFwd /\ truthy raw1 = true /\ truthy raw2 = true) ->
  has (tph_of c) (name_of kd) = true -> trusted_proxy_count c = Zpos p ->
  on_trusted_path c e1 = true ->
  agree (only (key_of kd)) e1 e2 ->
  lookup (key_of kd) e1 = Some raw1 -> lookup (key_of kd) e2 = Some raw2 ->
  suffix (split raw1 [c_comma]) (Pos.to_nat p) = suffix (split raw2 [c_comma]) (Pos.to_nat p) ->
  middleware c e1 = Ok o1 -> middleware c e2 = Ok o2 ->
  forall key, lookup key o1 = lookup key o2.
Proof. exact prune_two_runs. Qed.
Print Assumptions C16_prune.

(* ---- (d) kinds -----------------------------------------------------------------------------------------
   A kind that is not in trusted_proxy_headers: two requests that differ only
   in that header (any values, present or absent) have the same outcome (same
   400, same exception, or environs equal on every other key); the header is
   absent from the output when clearing is on and untouched when it is off. *)
Theorem C16_kinds : forall c kd,
  has (tph_of c) (name_of kd) = false ->
  (forall e1 e2, agree (only (key_of kd)) e1 e2 ->
     rrelG (agree (only (key_of kd))) (middleware c e1) (middleware c e2)) /\
  (forall e o, clear_untrusted c = true -> middleware c e = Ok o -> lookup (key_of kd) o = None) /\
  (forall e o, clear_untrusted c = false -> middleware c e = Ok o -> lookup (key_of kd) o = lookup (key_of kd) e).
Proof.
  exact (fun c kd H => conj (fun e1 e2 => kinds_noninterference c kd e1 e2 H)
                      (conj (fun e o Hc => kinds_stripped c kd e o H Hc)
                            (fun e o Hc => kinds_untouched c kd e o H Hc))).
Qed.
Print Assumptions C16_kinds.

(* ---- (e) the 400 categories -----------------------------------------------------------------------
   bad quoting (an element / value that begins or ends with DQUOTE and is not
   an RFC 9110 quoted-string), several values where one is required, a
   forwarded-pair without "=", padded token or value (malformed_syntax, on the
   raw trusted headers); an unsupported scheme, an empty host, an empty client
   address (malformed_selection, on the selected values): MalformedProxyHeader,
   i.e. a 400.  Conversely an accepted request has none of them. *)
Theorem C16_400 : forall c e,
  on_trusted_path c e = true ->
  (malformed_syntax (tph_of c) e \/
   has_key k_url_scheme e /\
   exists s, parse_select e (trusted_proxy_count c) (tph_of c) = Ok s /\
     (cat_scheme (fproto s) = true \/ empty_host (fhost s) = true \/
      (exists cl, client s = Some cl /\ bad_client cl = true))) ->
  exists h, middleware c e = Malformed h.
Proof. exact trusted_malformed. Qed.
Print Assumptions C16_400.

Theorem C16_accepted_is_wellformed : forall c e o,
  on_trusted_path c e = true -> has_key k_url_scheme e -> middleware c e = Ok o ->
  ~ malformed_syntax (tph_of c) e /\
  forall s, parse_select e (trusted_proxy_count c) (tph_of c) = Ok s -> ~ malformed_selection s.
Proof. exact accepted_wellformed. Qed.
Print Assumptions C16_accepted_is_wellformed.

(* undquote: a value is refused exactly when it begins or ends with DQUOTE
   without being an RFC 9110 quoted-string; the value of a quoted-string is its
   body with every quoted-pair replaced by the escaped character (Spec.Unq),
   for bodies of any length; an unquoted value is taken as it is. *)
Theorem C16_undquote : forall v,
  undquote v = (if bad_quoting v then Exn ValueError
                else Ok (if starts_dq v then unescape (mid v) else v)) /\
  (matches quoted_string v = true ->
   exists body, v = 34 :: body ++ [34] /\ exists u, undquote v = Ok u /\ Unq body u) /\
  (starts_dq v = false -> ends_dq v = false -> undquote v = Ok v).
Proof. exact undquote_summary. Qed.
Print Assumptions C16_undquote.

(* X-Forwarded-Host: :80 (F20, repaired by 11c18eb) is a 400 *)
Theorem C16_empty_host_is_400 : middleware f20_cfg f20_env = Malformed h_xfh.
Proof. exact empty_host_is_400. Qed.
Print Assumptions C16_empty_host_is_400.
