(* C16 -- Trusted proxy headers: only trusted kinds, only trusted hops, never a crash.
   Statements only; proofs are in Proof/Proxy*.v over Model/Proxy.v (a
   transliteration of waitress/proxy_headers.py and utilities.undquote, the
   quoted-string patterns being the terms generated from the source on this
   run), tied to the code by K-proxy.

   Reading guide.  parse_select is the header parsing / hop selection part of
   parse_proxy_headers (its local variables client, fhost, fproto, fport and
   the rewritten forwarded headers), parse_apply writes the selection into the
   environ, middleware = translate_proxy_headers.  C16_decompose says how a
   successful run of the middleware is made of the two. *)
From Coq Require Import List NArith ZArith Bool.
From WV Require Import Lib.PyBytes Lib.PyStrProxy Model.Proxy Spec.ProxySpec
  Proof.ProxyDict Proof.ProxyStages Proof.ProxyTotal Proof.ProxyHops Proof.ProxyRel Proof.ProxyKinds
  Proof.ProxyPrune Proof.ProxyCats Proof.ProxySplit Proof.ProxyUnq Proof.ProxyExamples.
From WV Require Import Lib.Regex Spec.Grammar.
Import ListNotations.
Local Open Scope N_scope.

(* ---- (a) never a crash ---------------------------------------------------------------
   For a WSGI environ (REMOTE_ADDR and wsgi.url_scheme present, as
   task.get_environment builds it), any header values and any configuration
   (any peer, any count, any set of kinds, clearing on or off): the middleware
   hands the request on (Ok) or answers 400 (Malformed); no exception escapes. *)
Theorem C16_total : forall c e, env_ok e -> forall x, middleware c e <> Exn x.
Proof. exact total. Qed.
Print Assumptions C16_total.

(* the two inputs that used to raise IndexError (F19, repaired by 12a41a9) are 400s *)
Theorem C16_former_crashes_are_400 :
  env_ok f19_env /\ middleware f19_cfg f19_env = Malformed h_fwd /\      (* Forwarded: for=:80 *)
  env_ok f19_env2 /\ middleware f19_cfg2 f19_env2 = Malformed h_xff.     (* X-Forwarded-For: " " (quoted) *)
Proof. exact former_crashes_are_400. Qed.
Print Assumptions C16_former_crashes_are_400.

(* ---- how a successful run is composed ------------------------------------------------------ *)
Theorem C16_decompose : forall c e o, middleware c e = Ok o ->
  (on_trusted_path c e = false /\ o = if clear_untrusted c then clear_untrusted_headers e u_all else e) \/
  (on_trusted_path c e = true /\ exists s s',
     parse_select e (trusted_proxy_count c) (tph_of c) = Ok s /\ parse_apply s = Ok s' /\
     o = if clear_untrusted c then clear_untrusted_headers (env s') (unt s') else env s').
Proof. exact middleware_ok_inv. Qed.
Print Assumptions C16_decompose.

(* ---- (b) the hop indexing law ----------------------------------------------------------------
   l[-k:][0] is element n - min k n (0-based) for every length n >= 1 and every
   count k >= 1, and it exists. *)
Theorem C16_hop_index_law : forall (A : Type) (l : list A) (p : positive), l <> [] ->
  hd_error (py_lastk l (Zpos p)) = nth_error l (List.length l - Nat.min (Pos.to_nat p) (List.length l)) /\
  exists x, hd_error (py_lastk l (Zpos p)) = Some x.
Proof. exact @hop_index_law. Qed.
Print Assumptions C16_hop_index_law.

(* every hop list of every length n >= 1 is the element list of a header value *)
Theorem C16_hop_index_header : forall (hops : list str) (p : positive),
  hops <> [] -> (forall h, In h hops -> memb c_comma h = false) ->
  pick (split (join [c_comma] hops) [c_comma]) (Pos.to_nat p) =
  nth_error hops (List.length hops - Nat.min (Pos.to_nat p) (List.length hops)).
Proof. exact hop_index_header. Qed.
Print Assumptions C16_hop_index_header.

(* X-Forwarded-For / -Host (Forwarded not trusted, absent or empty): the client
   address is the parse of exactly the picked element of X-Forwarded-For, the
   host the unquoted picked element of X-Forwarded-Host; both headers are
   rewritten to the join of the trusted suffix; proto and port are the single
   values; nothing else is written (record xf_selection, Proof/ProxyHops.v). *)
Theorem C16_hop_x_forwarded : forall e p tph s, fwd_inactive tph e ->
  parse_select e (Zpos p) tph = Ok s -> xf_selection e p tph s.
Proof. exact select_xf. Qed.
Print Assumptions C16_hop_x_forwarded.

(* Forwarded: with ps the parsed elements and suf their trusted suffix, host and
   proto are the first non-empty field of suf ("the oldest entry that has the
   field"), so is the client address when some entry of suf has for=; the
   header is rewritten to the join of the trusted suffix (record fwd_selection). *)
Theorem C16_hop_forwarded : forall e p tph raw s,
  has tph n_fwd = true -> lookup k_fwd e = Some raw -> truthy raw = true ->
  parse_select e (Zpos p) tph = Ok s -> fwd_selection e p raw s.
Proof. exact select_fwd. Qed.
Print Assumptions C16_hop_forwarded.

(* "first non-empty field of the suffix" is the k-th entry from the right
   whenever that entry has the field, and is never an entry left of the suffix *)
Theorem C16_forwarded_oldest : forall (ps : list forwarded_t) (g : forwarded_t -> str) k,
  (forall x, pick ps k = Some x -> g x <> [] -> first_nonempty (map g (suffix ps k)) = g x) /\
  (first_nonempty (map g (suffix ps k)) <> [] ->
   exists x, In x (suffix ps k) /\ g x = first_nonempty (map g (suffix ps k))).
Proof. exact (fun ps g k => conj (fun x => fwd_kth_wins ps g k x) (fwd_selected_in_suffix ps g k)). Qed.
Print Assumptions C16_forwarded_oldest.

(* what the selection does to the environ (record applied): REMOTE_ADDR /
   REMOTE_HOST = unbracket (addr_text client), REMOTE_PORT = its port if any,
   SERVER_NAME = the host text, wsgi.url_scheme = the lower-cased proto; no
   key outside the seven metadata keys is written. *)
Theorem C16_apply : forall s s', parse_apply s = Ok s' -> applied s s'.
Proof. exact apply_ok. Qed.
Print Assumptions C16_apply.

(* ---- (c) pruning ------------------------------------------------------------------------------------
   Two requests of a trusted peer that differ only in one trusted list-valued
   header (X-Forwarded-For, X-Forwarded-Host, or a non-empty Forwarded) whose
   values have the same last k elements: if both are accepted, the application
   sees the same environ on every key -- hops left of the trusted suffix never
   reach it.  (C16_hop_* give the rewritten header: the join of that suffix.) *)
Theorem C16_prune : forall c kd e1 e2 raw1 raw2 p o1 o2,
  (kd = KFor \/ kd = KHost \/ kd = KFwd /\ truthy raw1 = true /\ truthy raw2 = true) ->
  has (tph_of c) (name_of kd) = true -> trusted_proxy_count c = Zpos p ->
  on_trusted_path c e1 = true ->
  agree (only (key_of kd)) e1 e2 ->
  lookup (key_of kd) e1 = Some raw1 -> lookup (key_of kd) e2 = Some raw2 ->
  suffix (split raw1 [c_comma]) (Pos.to_nat p) = suffix (split raw2 [c_comma]) (Pos.to_nat p) ->
  middleware c e1 = Ok o1 -> middleware c e2 = Ok o2 ->
  forall key, lookup key o1 = lookup key o2.
Proof. exact prune_two_runs. Qed.
Print Assumptions C16_prune.

(* ---- (d) kinds -----------------------------------------------------------------------------------------
   A kind that is not in trusted_proxy_headers: two requests that differ only
   in that header (any values, present or absent) have the same outcome (same
   400, same exception, or environs equal on every other key); the header is
   absent from the output when clearing is on and untouched when it is off. *)
Theorem C16_kinds : forall c kd,
  has (tph_of c) (name_of kd) = false ->
  (forall e1 e2, agree (only (key_of kd)) e1 e2 ->
     rrelG (agree (only (key_of kd))) (middleware c e1) (middleware c e2)) /\
  (forall e o, clear_untrusted c = true -> middleware c e = Ok o -> lookup (key_of kd) o = None) /\
  (forall e o, clear_untrusted c = false -> middleware c e = Ok o -> lookup (key_of kd) o = lookup (key_of kd) e).
Proof.
  exact (fun c kd H => conj (fun e1 e2 => kinds_noninterference c kd e1 e2 H)
                      (conj (fun e o Hc => kinds_stripped c kd e o H Hc)
                            (fun e o Hc => kinds_untouched c kd e o H Hc))).
Qed.
Print Assumptions C16_kinds.

(* ---- (e) the 400 categories -----------------------------------------------------------------------
   bad quoting (an element / value that begins or ends with DQUOTE and is not
   an RFC 9110 quoted-string), several values where one is required, a
   forwarded-pair without "=", padded token or value (malformed_syntax, on the
   raw trusted headers); an unsupported scheme, an empty host, an empty client
   address (malformed_selection, on the selected values): MalformedProxyHeader,
   i.e. a 400.  Conversely an accepted request has none of them. *)
Theorem C16_400 : forall c e,
  on_trusted_path c e = true ->
  (malformed_syntax (tph_of c) e \/
   has_key k_url_scheme e /\
   exists s, parse_select e (trusted_proxy_count c) (tph_of c) = Ok s /\
     (cat_scheme (fproto s) = true \/ empty_host (fhost s) = true \/
      (exists cl, client s = Some cl /\ bad_client cl = true))) ->
  exists h, middleware c e = Malformed h.
Proof. exact trusted_malformed. Qed.
Print Assumptions C16_400.

Theorem C16_accepted_is_wellformed : forall c e o,
  on_trusted_path c e = true -> has_key k_url_scheme e -> middleware c e = Ok o ->
  ~ malformed_syntax (tph_of c) e /\
  forall s, parse_select e (trusted_proxy_count c) (tph_of c) = Ok s -> ~ malformed_selection s.
Proof. exact accepted_wellformed. Qed.
Print Assumptions C16_accepted_is_wellformed.

(* undquote: a value is refused exactly when it begins or ends with DQUOTE
   without being an RFC 9110 quoted-string; the value of a quoted-string is its
   body with every quoted-pair replaced by the escaped character (Spec.Unq),
   for bodies of any length; an unquoted value is taken as it is. *)
Theorem C16_undquote : forall v,
  undquote v = (if bad_quoting v then Exn ValueError
                else Ok (if starts_dq v then unescape (mid v) else v)) /\
  (matches quoted_string v = true ->
   exists body, v = 34 :: body ++ [34] /\ exists u, undquote v = Ok u /\ Unq body u) /\
  (starts_dq v = false -> ends_dq v = false -> undquote v = Ok v).
Proof. exact undquote_summary. Qed.
Print Assumptions C16_undquote.

(* X-Forwarded-Host: :80 (F20, repaired by 11c18eb) is a 400 *)
Theorem C16_empty_host_is_400 : middleware f20_cfg f20_env = Malformed h_xfh.
Proof. exact empty_host_is_400. Qed.
Print Assumptions C16_empty_host_is_400.

(* ======================================================================================================
   Extension: the exact characterisation of a trusted peer's request and its full functional
   specification (Spec/ProxySpec.v, second half; proofs in Proof/ProxyConverse*.v).
   ====================================================================================================== *)
From Coq Require Import String.
From WV Require Import Proof.ProxyConverse1 Proof.ProxyConverse2 Proof.ProxyConverse3.
Import ListNotations.
Local Open Scope N_scope.

(* ---- (f) exact: a trusted peer's request (count k >= 1, any set of trusted kinds, clearing on or off)
   is answered 400 exactly when refusal_reason finds a category -- the first, in the order the headers are
   read -- and the 400 names the header category_header gives; otherwise it is handed to the application
   with exactly the environ spec_out describes, on EVERY key: the seven metadata keys from the selected
   hop (select: count-th from the right, fields of a forwarded-element read from that element alone),
   HTTP_HOST with the port-formatting rules, the six proxy header keys pruned / handed on / cleared, every
   other key untouched. *)
Theorem C16_trusted_exact : forall c e p,
  on_trusted_path c e = true -> has_key k_url_scheme e -> trusted_proxy_count c = Zpos p ->
  match refusal_reason (tph_of c) (Pos.to_nat p) e with
  | Some cat => middleware c e = Malformed (category_header (fwd_active (tph_of c) e) cat)
  | None => exists o, middleware c e = Ok o /\
                      forall key, lookup key o = spec_out (tph_of c) (Pos.to_nat p) (clear_untrusted c) e key
  end.
Proof. exact trusted_exact. Qed.
Print Assumptions C16_trusted_exact.

(* the same through the application the server installs *)
Theorem C16_serve_exact : forall c e p,
  installed c = true ->
  on_trusted_path c e = true -> has_key k_url_scheme e -> trusted_proxy_count c = Zpos p ->
  match refusal_reason (tph_of c) (Pos.to_nat p) e with
  | Some cat => serve c e = Malformed (category_header (fwd_active (tph_of c) e) cat)
  | None => exists o, serve c e = Ok o /\
                      forall key, lookup key o = spec_out (tph_of c) (Pos.to_nat p) (clear_untrusted c) e key
  end.
Proof. intros c e p Hi. unfold serve. rewrite Hi. apply trusted_exact. Qed.
Print Assumptions C16_serve_exact.

(* ---- (g) the converse to the 400 categories: refused iff a reason exists; the reason found holds of the
   request (category_holds: the listed categories on the raw trusted headers / on the selected values), and
   whenever any category holds the request is refused *)
Theorem C16_refused_iff : forall c e p,
  on_trusted_path c e = true -> has_key k_url_scheme e -> trusted_proxy_count c = Zpos p ->
  ((exists h, middleware c e = Malformed h) <-> refusal_reason (tph_of c) (Pos.to_nat p) e <> None) /\
  ((exists o, middleware c e = Ok o) <-> refusal_reason (tph_of c) (Pos.to_nat p) e = None).
Proof. exact refused_iff. Qed.
Print Assumptions C16_refused_iff.

Theorem C16_reason_is_a_listed_category : forall tph k e,
  (forall c, refusal_reason tph k e = Some c -> category_holds tph k e c = true) /\
  (forall c, category_holds tph k e c = true -> refusal_reason tph k e <> None).
Proof. exact (fun tph k e => conj (reason_holds tph k e) (category_refuses tph k e)). Qed.
Print Assumptions C16_reason_is_a_listed_category.

Theorem C16_reasons_nonvacuous :
  refusal_reason [n_xff] 1 (ex_env [(k_xff, s2l "1.2.3.4, ""a"%string)]) = Some CatXffQuoting /\
  refusal_reason [n_xfh] 1 (ex_env [(k_xfh, s2l "h"""%string)]) = Some CatXfhQuoting /\
  refusal_reason [n_xfproto] 1 (ex_env [(k_xfproto, s2l """http"%string)]) = Some CatProtoQuoting /\
  refusal_reason [n_xfproto] 1 (ex_env [(k_xfproto, s2l "http,https"%string)]) = Some CatProtoSeveral /\
  refusal_reason [n_xfport] 1 (ex_env [(k_xfport, s2l "8"""%string)]) = Some CatPortQuoting /\
  refusal_reason [n_xfport] 1 (ex_env [(k_xfport, s2l "80,81"%string)]) = Some CatPortSeveral /\
  refusal_reason [n_fwd] 1 (ex_env [(k_fwd, s2l "for=1.2.3.4;secret"%string)]) = Some CatPairNoEq /\
  refusal_reason [n_fwd] 2 (ex_env [(k_fwd, s2l "for =1.2.3.4, for=5.6.7.8"%string)]) = Some CatPairPadded /\
  refusal_reason [n_fwd] 1 (ex_env [(k_fwd, s2l "for=""1.2.3.4"%string)]) = Some CatPairQuoting /\
  refusal_reason [n_fwd] 1 (ex_env [(k_fwd, s2l "for=1.2.3.4;proto=ftp"%string)]) = Some CatScheme /\
  refusal_reason [n_xfh] 1 (ex_env [(k_xfh, s2l ":80"%string)]) = Some CatEmptyHost /\
  refusal_reason [n_fwd] 1 (ex_env [(k_fwd, s2l "for=:80"%string)]) = Some CatEmptyClient /\
  refusal_reason [n_fwd] 2 (ex_env [(k_fwd, s2l "For=""[2001:db8::1]:4711"";Host=""Example.com:8443"";proto=HTTPS, for=_hidden"%string)]) = None.
Proof. exact reasons_nonvacuous. Qed.
Print Assumptions C16_reasons_nonvacuous.

(* ---- (h) header parsing and hop selection in closed form: parse_select refuses exactly on the syntax
   categories and otherwise ends in the state sel_state, whose selection is Spec.select *)
Theorem C16_select_exact : forall e p tph,
  parse_select e (Zpos p) tph = answer (syntax_reason tph e) (sel_state p tph e) /\
  sel_of (sel_state p tph e) = select tph (Pos.to_nat p) e.
Proof. exact (fun e p tph => conj (select_exact e p tph) (proj1 (sel_state_selection p tph e))). Qed.
Print Assumptions C16_select_exact.

(* ---- (i) HTTP_HOST / SERVER_NAME / SERVER_PORT / wsgi.url_scheme / REMOTE_* of an accepted request,
   as a theorem (formerly only a frame property + K-proxy) *)
Theorem C16_accepted_metadata : forall c e p,
  on_trusted_path c e = true -> has_key k_url_scheme e -> trusted_proxy_count c = Zpos p ->
  refusal_reason (tph_of c) (Pos.to_nat p) e = None ->
  let s := select (tph_of c) (Pos.to_nat p) e in
  exists o, middleware c e = Ok o /\
    lookup k_url_scheme o = final_scheme s e /\
    lookup k_server_name o = (if truthy (sel_host s) then Some (server_name_value (sel_host s)) else lookup k_server_name e) /\
    lookup k_server_port o = (if truthy (final_port s) then Some (final_port s) else lookup k_server_port e) /\
    lookup k_http_host o = (if truthy (sel_host s) then Some (http_host_value s e) else lookup k_http_host e) /\
    lookup k_remote_addr o = (if truthy (sel_client s) then Some (unbracket (addr_text (sel_client s))) else lookup k_remote_addr e) /\
    lookup k_remote_host o = (if truthy (sel_client s) then Some (unbracket (addr_text (sel_client s))) else lookup k_remote_host e) /\
    lookup k_remote_port o = (match port_text (sel_client s) with Some pt => Some pt | None => lookup k_remote_port e end).
Proof. exact accepted_host_rules. Qed.
Print Assumptions C16_accepted_metadata.

(* the port-formatting rules of HTTP_HOST: no port known -> the host; 80 under http / 443 under https ->
   elided; any other combination -> host:port (a host that itself carries a port is handed on as it is) *)
Theorem C16_http_host_formatting : forall (s : selection) (e : dict str) sch,
  final_scheme s e = Some sch -> has_port (sel_host s) = false ->
  let h := sel_host s in let pt := port_before_host s in
  (pt = [] -> http_host_value s e = h) /\
  (pt = p80 -> sch = t_http -> http_host_value s e = h) /\
  (pt = p443 -> sch = t_https -> http_host_value s e = h) /\
  (pt <> [] -> ~ (pt = p80 /\ sch = t_http) -> ~ (pt = p443 /\ sch = t_https) -> http_host_value s e = h ++ colon :: pt).
Proof. exact http_host_formatting. Qed.
Print Assumptions C16_http_host_formatting.

(* ---- (j) only the trusted suffix is read: the picked hop, the header handed on and every Forwarded
   parameter are functions of the last k elements; with C16_trusted_exact: an element left of the suffix
   never influences an output key of an accepted request (it can only make the header malformed) *)
Theorem C16_suffix_only : forall raw1 raw2 k, suffix (elements raw1) k = suffix (elements raw2) k ->
  picked raw1 k = picked raw2 k /\ pruned raw1 k = pruned raw2 k /\
  forall name, fwd_oldest name raw1 k = fwd_oldest name raw2 k.
Proof. exact suffix_only. Qed.
Print Assumptions C16_suffix_only.

(* a trusted element that omits host= / proto= inherits nothing from the untrusted element to its left
   (the input of the seeded change C16-w3m1) *)
Theorem C16_left_element_never_inherited :
  exists o, middleware w3m1_cfg w3m1_env = Ok o /\
    lookup k_remote_addr o = Some (s2l "192.0.2.7"%string) /\
    lookup k_server_name o = Some (s2l "backend.internal"%string) /\
    lookup k_http_host o = Some (s2l "backend.internal:8080"%string) /\
    lookup k_server_port o = Some (s2l "8080"%string) /\
    lookup k_url_scheme o = Some s_http /\
    lookup k_fwd o = Some (s2l "for=192.0.2.7"%string).
Proof. exact left_element_never_inherited. Qed.
Print Assumptions C16_left_element_never_inherited.

(* ---- (k) every well-formed header set is accepted.  Spec.wf_headers is the grammar of the property
   text: X-Forwarded-For / -Host: a comma list of OWS node OWS or OWS DQUOTE node DQUOTE OWS (node: ALPHA
   DIGIT . - _ : [ ], not beginning with ":"; covers IPv4, bracketed IPv6 with port, obfuscated
   identifiers); X-Forwarded-Proto: http / https in any case, bare or quoted; X-Forwarded-Port: a
   numeral, bare or quoted; Forwarded: elements of token=value pairs separated by ";" without
   whitespace, for/by/host a node, proto a scheme, bare or quoted, parameter names in any case,
   empty pairs and extension parameters allowed.  Such a request has no refusal reason for any count. *)
From WV Require Import Proof.ProxyConverse4.
Theorem C16_wellformed_no_reason : forall tph k e, wf_headers tph e = true -> refusal_reason tph k e = None.
Proof. exact wellformed_no_reason. Qed.
Print Assumptions C16_wellformed_no_reason.

Theorem C16_wellformed_accepted : forall c e p,
  on_trusted_path c e = true -> has_key k_url_scheme e -> trusted_proxy_count c = Zpos p ->
  wf_headers (tph_of c) e = true ->
  exists o, middleware c e = Ok o /\
            forall key, lookup key o = spec_out (tph_of c) (Pos.to_nat p) (clear_untrusted c) e key.
Proof. exact wellformed_accepted. Qed.
Print Assumptions C16_wellformed_accepted.

Theorem C16_wellformed_nonvacuous :
  wf_headers [n_fwd] (ex_env [(k_fwd, s2l "For=""[2001:db8::1]:4711"";Host=example.com:8443;proto=HTTPS, for=_hidden;by=10.0.0.9"%string)]) = true /\
  wf_headers [n_xff; n_xfh; n_xfproto; n_xfport]
    (ex_env [(k_xff, s2l "203.0.113.9, ""[2001:db8::7]:99"" ,	10.0.0.2"%string); (k_xfh, s2l "example.com:8443"%string);
             (k_xfproto, s2l """https"""%string); (k_xfport, s2l "8443"%string)]) = true /\
  wf_headers [n_fwd] (ex_env [(k_fwd, s2l "for=:80"%string)]) = false.
Proof. exact wellformed_nonvacuous. Qed.
Print Assumptions C16_wellformed_nonvacuous.
