(* C02 -- Parsing does not depend on how the byte stream is split across reads.
   Statements only; proofs in Proof/ReceiverSplit.v (receivers), Proof/SplitParser.v
   (head accumulator, parser) and Proof/SplitChan.v (channel loop, lists of reads). *)
From Coq Require Import List NArith ZArith.
From WV Require Import Lib.PyBytes Model.Receiver Proof.ReceiverTotal Proof.ReceiverSplit.
Import ListNotations.

(* The chunked receiver: one byte and then the rest = everything at once.
   Exactly (state and consumed count; [ceq] ignores the trailer field of a
   completed receiver) unless the byte itself raises an error, in which case
   both runs end with the same error. *)
Theorem C02_chunked_one_byte : forall st b s,
  wf_c st -> c_completed st = false -> c_error st = None -> s <> [] ->
  exists st1, chunked_received st [b] = Some (st1, 1%Z) /\
  ( (c_error st1 = None /\ c_completed st1 = true /\ chunked_received st (b :: s) = Some (st1, 1%Z))
  \/ (c_error st1 = None /\ c_completed st1 = false /\
      forall st2 n2, chunked_received st1 s = Some (st2, n2) ->
        exists st', chunked_received st (b :: s) = Some (st', (1 + n2)%Z) /\ ceq st2 st')
  \/ (exists e, c_error st1 = Some e /\
      exists st' n', chunked_received st (b :: s) = Some (st', n') /\ c_error st' = Some e)).
Proof. exact chunked_one_byte. Qed.
Print Assumptions C02_chunked_one_byte.

Theorem C02_fixed_one_byte : forall f b s, (1 <= f_remain f)%N -> s <> [] ->
  exists f1, fixed_received f [b] = (f1, 1%Z) /\
  ((f_remain f = 1%N /\ f_completed f1 = true /\ fixed_received f (b :: s) = (f1, 1%Z)) \/
   ((1 < f_remain f)%N /\ f_completed f1 = f_completed f /\ (1 <= f_remain f1)%N /\
    forall f2 n2, fixed_received f1 s = (f2, n2) -> fixed_received f (b :: s) = (f2, (1 + n2)%Z))).
Proof. exact fixed_one_byte. Qed.
Print Assumptions C02_fixed_one_byte.
