(* C02 -- Parsing does not depend on how the byte stream is split across reads.
   Statements only; proofs in Proof/ReceiverSplit.v (receivers), Proof/SplitParser.v
   (head accumulator, counters, limits: the parser), Proof/SplitChan.v (the channel
   loop and arbitrary lists of reads), Proof/SplitExamples.v (the refutation of the
   exact-tag statement -- finding F12 / kf_c02_1 -- and examples). *)
From Coq Require Import List NArith ZArith.
From WV Require Import Lib.PyBytes Model.Receiver Model.Parser Model.ChanSeq
  Proof.ReceiverTotal Proof.ReceiverSplit Proof.ParserTotal Proof.ParserTotalChan
  Proof.SplitParser Proof.SplitChan Proof.SplitExamples.
Import ListNotations.

(* The chunked receiver: one byte and then the rest = everything at once.
   Exactly (state and consumed count; [ceq] ignores the trailer field of a
   completed receiver) unless the byte itself raises an error, in which case
   both runs end with the same error. *)
Theorem C02_chunked_one_byte : forall st b s,
  wf_c st -> c_completed st = false -> c_error st = None -> s <> [] ->
  exists st1, chunked_received st [b] = Some (st1, 1%Z) /\
  ( (c_error st1 = None /\ c_completed st1 = true /\ chunked_received st (b :: s) = Some (st1, 1%Z))
  \/ (c_error st1 = None /\ c_completed st1 = false /\
      forall st2 n2, chunked_received st1 s = Some (st2, n2) ->
        exists st', chunked_received st (b :: s) = Some (st', (1 + n2)%Z) /\ ceq st2 st')
  \/ (exists e, c_error st1 = Some e /\
      exists st' n', chunked_received st (b :: s) = Some (st', n') /\ c_error st' = Some e)).
Proof. exact chunked_one_byte. Qed.
Print Assumptions C02_chunked_one_byte.

Theorem C02_fixed_one_byte : forall f b s, (1 <= f_remain f)%N -> s <> [] ->
  exists f1, fixed_received f [b] = (f1, 1%Z) /\
  ((f_remain f = 1%N /\ f_completed f1 = true /\ fixed_received f (b :: s) = (f1, 1%Z)) \/
   ((1 < f_remain f)%N /\ f_completed f1 = f_completed f /\ (1 <= f_remain f1)%N /\
    forall f2 n2, fixed_received f1 s = (f2, n2) -> fixed_received f (b :: s) = (f2, (1 + n2)%Z))).
Proof. exact fixed_one_byte. Qed.
Print Assumptions C02_fixed_one_byte.

(* HTTPRequestParser.received (head accumulator with its byte counter and 431
   test, both body receivers, the running body counter and 413 test): one byte and
   then the rest versus everything at once -- see [split_case] in
   Proof/SplitParser.v: same outcome (SC_stop), same outcome after the rest up to
   dead carry fields (SC_cont / cont_rel), or both runs refuse the message
   (SC_error; observation equal with 413 and a chunk error identified) *)
Theorem C02_parser_one_byte : forall a r0 b s, wf_p a r0 -> s <> [] -> split_case a r0 b s.
Proof. exact parser_split. Qed.
Print Assumptions C02_parser_one_byte.

(* the event-producing run used below computes exactly the model's feed *)
Theorem C02_trace_is_model : forall ab a reads c, fst (feed_tr ab a c reads) = feed a c reads.
Proof. intros ab a reads c. apply feed_tr_fst. Qed.
Print Assumptions C02_trace_is_model.

(* ... and its events are exactly what the model's state records: the bytes the
   I/O side appended to the output (outlog) and the requests it queued, in order *)
Theorem C02_trace_is_state : forall ab a reads c' t,
  feed_tr ab a chan_init reads = (COk c', t) ->
  outlog c' = flat_map ev_out t /\ map (obs ab) (requests c') = flat_map ev_reqs t.
Proof. intros ab a reads c' t H. exact (feed_trace ab a reads chan_init c' t H). Qed.
Print Assumptions C02_trace_is_state.

(* C02 for the sequential channel model: for every configuration and any two
   ways of dividing the same byte stream into reads (all 2^(n-1) of them), the
   sequence of events -- "100 Continue sent", "request completed" with every
   attribute a task reads and the body bytes -- up to and including the first
   refused request is the same.  Observation [obs true]: carry fields erased, a
   refusal raised inside a chunked body observed as "refused" (413 and the 400
   chunk errors identified: finding F12, class kf_c02_1). *)
Theorem C02_split_independent : forall a reads1 reads2, concat reads1 = concat reads2 ->
  cut (snd (feed_tr true a chan_init reads1)) = cut (snd (feed_tr true a chan_init reads2)).
Proof. exact split_independent. Qed.
Print Assumptions C02_split_independent.

Theorem C02_split_vs_whole : forall a reads,
  cut (snd (feed_tr true a chan_init reads)) = cut (snd (feed_tr true a chan_init [concat reads])).
Proof. exact split_vs_whole. Qed.
Print Assumptions C02_split_vs_whole.

(* The statement with exact error tags ([obs false]), [split_independent_exact] in
   Proof/SplitExamples.v, is false of the code: a chunked body with an invalid size
   line followed by >= max_request_body_size bytes is a 413 in one read and a 400
   byte-wise.  Its refutation [C02_exact_refuted] is in Findings/C02_KF1.v (compiled
   separately, so that repairing the defect does not break this file). *)
