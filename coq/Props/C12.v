(* C12 -- output buffering is bounded: fast producers are paused and always released.
   Model: Model/ChanFlow.v (one connection, I/O thread + producing worker + tails +
   environment, Appendix-A granularity).  [run p sched] is the state after an
   arbitrary schedule (all interleavings, all lengths, all environment behaviour);
   p carries high_watermark, send_bytes, lookahead, the write sizes, and three shape flags:
   [fixed p] = the code as it is (6aba4bf, daf1a85, 7fa6a60 applied; the shape audit pins it);
   a flag set to false = the statement as it was before that repair. *)
From Coq Require Import List ZArith Bool Arith.
From WV Require Import Lib.Conc Model.ChanFlow Proof.ChanFlow Proof.ChanFlowReq Proof.ChanFlowFlags
  Proof.ChanFlowAcct Proof.ChanFlowLive Proof.ChanFlowWit Proof.ChanFlowRefuted.
Import ListNotations.
Local Open Scope Z_scope.

(* ---- bound -------------------------------------------------------------------- *)

(* bytes held by the outbufs never exceed high_watermark + the size of the last accepted write *)
Theorem C12_bound : forall p sched, 0 <= hw p ->
  pending (run p sched) <= hw p + last_write (run p sched).
Proof. exact bound_pending. Qed.
Print Assumptions C12_bound.

(* the counter the code tests is that number of bytes (no drift), except for the one
   subtraction / addition in flight under the lock *)
Theorem C12_counter_exact : forall p sched, 0 <= hw p ->
  let s := run p sched in
  closed_bufs s = false -> pending s + sub_io (io s) + sub_w (wk s) = total s + add_w (wk s).
Proof. exact accounting. Qed.
Print Assumptions C12_counter_exact.

(* ---- order / integrity ---------------------------------------------------------- *)

(* nothing lost, nothing duplicated: bytes on the wire + bytes held = bytes accepted while the
   connection is open (<= afterwards: handle_close drops what is held) *)
Theorem C12_order_counts : forall p sched, 0 <= hw p ->
  let s := run p sched in
  wire s + pending s <= appended s /\ (closed_bufs s = false -> wire s + pending s = appended s).
Proof. exact order_counts. Qed.
Print Assumptions C12_order_counts.

(* the byte queue is only ever touched by the holder of outbuf_lock, and the two
   sides never touch it at the same time (a pause cannot interleave an append with a removal) *)
Theorem C12_order_exclusive : forall p sched,
  let s := run p sched in
  (io_touches (io s) = true -> olock s = Some TIo /\ w_touches (wk s) = false)
  /\ (w_touches (wk s) = true -> olock s = Some TW /\ io_touches (io s) = false).
Proof. exact touches_locked. Qed.
Print Assumptions C12_order_exclusive.

(* ---- release --------------------------------------------------------------------- *)

(* FULL STRENGTH, every 0 <= high_watermark (0 included), every send_bytes, lookahead, residue:
   whenever the I/O thread is idle (blocked in select, or spinning through poll turns that change
   nothing) and the client reads, no producer is parked un-notified *)
Theorem C12_release : forall p, 0 <= hw p -> fixed p -> C12_release_statement p.
Proof. exact release_full. Qed.
Print Assumptions C12_release.

(* an "idle-spinning" I/O thread really makes no progress: one poll turn later the state is the same *)
Theorem C12_spin_is_stuck : forall p s, io_spinning p s = true ->
  steps_io p s 9 = Some s \/ steps_io p s 10 = Some s \/ steps_io p s 11 = Some s.
Proof. exact spin_cycle. Qed.
Print Assumptions C12_spin_is_stuck.

(* each repair is necessary: the statement is false for the old shape of that line *)
Theorem C12_release_refuted_old_notify_hw_zero :
  exists p, hw p = 0 /\ fx_notify_le p = false /\ fx_drain p = true /\ fx_recheck p = true
    /\ ~ C12_release_statement p
    /\ exists sched, let s := run p sched in
       quiescent s = true /\ client_reads s = true /\ w_parked s = true /\ total s = 0 /\ connected s = true.
Proof. exact release_refuted_old_notify_hw_zero. Qed.
Print Assumptions C12_release_refuted_old_notify_hw_zero.

Theorem C12_release_refuted_old_notify_at_mark :
  exists p, 1 <= hw p /\ fx_notify_le p = false /\ fx_drain p = true /\ fx_recheck p = true
    /\ ~ C12_release_statement p
    /\ exists sched, let s := run p sched in
       io_spinning p s = true /\ client_reads s = true /\ w_parked s = true /\ total s = hw p.
Proof. exact release_refuted_old_notify_at_mark. Qed.
Print Assumptions C12_release_refuted_old_notify_at_mark.

Theorem C12_release_refuted_old_drain :
  exists p, 1 <= hw p /\ fx_notify_le p = true /\ fx_drain p = false /\ fx_recheck p = true
    /\ ~ C12_release_statement p
    /\ exists sched, let s := run p sched in
       io_spinning p s = true /\ client_reads s = true /\ w_parked s = true /\ hw p < total s < sb p.
Proof. exact release_refuted_old_drain. Qed.
Print Assumptions C12_release_refuted_old_drain.

(* ---- abort ------------------------------------------------------------------------- *)

(* FULL STRENGTH: a producer parked while the connection is torn down is notified by the very next
   step of handle_close ... *)
Theorem C12_abort : forall p, 0 <= hw p -> fixed p -> C12_abort_statement p.
Proof. exact abort_full. Qed.
Print Assumptions C12_abort.

(* ... and its first step after waking raises ClientDisconnected without appending anything *)
Theorem C12_abort_raises : forall p s r s' l,
  connected s = false ->
  (wk s = WFbParked FW true \/ wk s = WFbParkedE FW true) ->
  wq s <> [] ->
  step_w p s r = Some (s', l) ->
  wk s' = WRelRaise /\ wq s' = wq s /\ pending s' = pending s /\ total s' = total s.
Proof. exact abort_raises. Qed.
Print Assumptions C12_abort_raises.

Theorem C12_abort_raise_step : forall p s r s' l,
  wk s = WRelRaise -> step_w p s r = Some (s', l) ->
  wk s' = WCloseAcq /\ In LRaise l /\ olock s' = None.
Proof. exact raise_step. Qed.
Print Assumptions C12_abort_raise_step.

Theorem C12_abort_refuted_old_recheck :
  exists p, 1 <= hw p /\ sb p <= hw p /\ fx_notify_le p = true /\ fx_drain p = true /\ fx_recheck p = false
    /\ ~ C12_abort_statement p
    /\ exists sched, let s := run p sched in
       quiescent s = true /\ w_parked s = true /\ connected s = false /\ in_map s = false.
Proof. exact abort_refuted_old_recheck. Qed.
Print Assumptions C12_abort_refuted_old_recheck.

(* ---------------------------------------------------------------------------------------------
   Per-buffer memory bound at BYTE level (Model/ChanOut.v over the buffer model of C17; proofs in
   Proof/ChanOutBound.v).  The interleaving model above bounds the TOTAL backlog by making the
   producer wait; this part is the reason write_soon rotates to a fresh OverflowableBuffer once
   current_outbuf_count reaches outbuf_high_watermark ("to avoid it growing unbounded"): for every
   configuration, every history of write_soon(bytes of at most W bytes), write_soon(file buffer) and
   _flush_some calls, and every socket behaviour, every OverflowableBuffer in self.outbufs holds at most
   max(outbuf_high_watermark - 1, 0) + W bytes and current_outbuf_count stays within the same bound
   (file-wrapper buffers are the application's files, not memory of the server).  The bound is
   attained (C12_buffer_bound_attained). *)
From WV Require Model.Buffers Model.ChanOut Spec.Fifo Proof.ChanOut Proof.ChanOutBound.
Module CO := WV.Model.ChanOut.
Module COP := WV.Proof.ChanOut.
Module COB := WV.Proof.ChanOutBound.

Theorem C12_buffer_rotation_bound : forall (c : CO.cfg) (W : Z) (ps : list CO.cop),
  COP.cfg_ok c -> (0 <= W)%Z -> Forall COP.cop_ok ps -> Forall (COB.cop_small W) ps ->
  let ch := fst (CO.crun c CO.chan_new ps) in
  Forall (COB.ob_bounded (COB.bnd c W)) (CO.outbufs ch) /\
  (0 <= CO.current_outbuf_count ch <= COB.bnd c W)%Z.
Proof. exact COB.out_buffers_bounded_new. Qed.
Print Assumptions C12_buffer_rotation_bound.

Theorem C12_buffer_bound_attained :
  let r := fst (CO.crun COP.ex_cfg CO.chan_new
                  [CO.CWrite (CO.WBytes [1;2;3]%N) []; CO.CWrite (CO.WBytes [4;5;6]%N) []]) in
  map (fun b => WV.Spec.Fifo.q_len (COP.babs b)) (CO.outbufs r) = [6%Z] /\ COB.bnd COP.ex_cfg 3 = 6%Z.
Proof. exact COB.bound_attained. Qed.
Print Assumptions C12_buffer_bound_attained.
