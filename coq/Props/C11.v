From Coq Require Import List Arith Bool.
From WV Require Import Lib.Conc Model.ChanClose Proof.ChanCloseBase Proof.ChanCloseInv Proof.ChanCloseRefute
  Proof.ChanCloseAfter Proof.ChanCloseEntry.
Import ListNotations.

(* C11 for every schedule, every lookahead L and every environment behaviour, for the close
   decisions of the covered kinds (all but will_close := True set by _flush_exception): a
   service() invocation entered after the decision never calls the application. *)
Theorem C11_partial : C11_statement covered.
Proof. exact C11_partial_positions. Qed.
Print Assumptions C11_partial.

(* the same as acceptance by the executable monitor that the check runs on real traces *)
Theorem C11_partial_monitor : forall L sched, monitor covered (trace step (init L) sched) = true.
Proof. exact monitor_accepts. Qed.
Print Assumptions C11_partial_monitor.

(* the full statement (every kind of decision) is false of the faithful model: finding F22 *)
Theorem C11_refuted : ~ C11_full.
Proof. exact C11_full_refuted. Qed.
Print Assumptions C11_refuted.

Theorem C11_refuted_worker_flush_error : refuted_by DFlushErrW.
Proof. exact C11_refuted_worker_flush. Qed.
Print Assumptions C11_refuted_worker_flush_error.

Theorem C11_refuted_io_flush_error : refuted_by DFlushErrIO.
Proof. exact C11_refuted_io_flush. Qed.
Print Assumptions C11_refuted_io_flush_error.

(* supporting invariants, in every reachable state *)
Theorem C11_inv : forall L sched, Inv (run step (init L) sched).
Proof. exact Inv_run. Qed.
Print Assumptions C11_inv.

Theorem C11_one_worker_in_service : forall L sched w1 w2,
  let s := run step (init L) sched in
  active (wk s w1) = true -> active (wk s w2) = true -> w1 = w2.
Proof. exact one_worker_in_service. Qed.
Print Assumptions C11_one_worker_in_service.

Theorem C11_entry_excludes_service : forall L sched,
  let s := run step (init L) sched in
  queue s <= 1 /\
  (queue s = 1 -> reqs s <> [] /\ (forall w, active (wk s w) = false) /\ ~ tokio s /\ sd s = SdIdle).
Proof. exact entry_excludes_service. Qed.
Print Assumptions C11_entry_excludes_service.

(* after the worker's close decision: nothing is queued, submitted or started any more, and
   requests is empty (or being emptied by the deciding worker, which still holds the lock) *)
Theorem C11_after_worker_close : forall L sched i j x,
  let tr := trace step (init L) sched in
  nth_error tr i = Some (LDecide DWorkerClose) -> i < j -> nth_error tr j = Some x -> loud x = false.
Proof. exact after_worker_close_positions. Qed.
Print Assumptions C11_after_worker_close.

Theorem C11_after_worker_close_state : forall L sched,
  let s := run step (init L) sched in
  In (LDecide DWorkerClose) (trace step (init L) sched) ->
  Closed s /\ (reqs s = [] \/ exists w, at_close2 (wk s w) = true).
Proof. exact after_worker_close_state. Qed.
Print Assumptions C11_after_worker_close_state.

(* connected and requests <> []  ->  somebody holds the channel (entry / worker / I/O about to submit) *)
Theorem C11_requests_are_held : forall L sched, Entry (run step (init L) sched).
Proof. exact Entry_run. Qed.
Print Assumptions C11_requests_are_held.
