From Coq Require Import List Arith Bool.
From WV Require Import Lib.Conc Model.ChanClose Proof.ChanCloseBase Proof.ChanCloseInv Proof.ChanCloseStmt
  Proof.ChanCloseAfter Proof.ChanCloseEntry.
Import ListNotations.

(* C11 at full strength: every schedule, every lookahead L, every environment behaviour, EVERY kind
   of close decision (worker's close branch, flushed, maintenance, both _flush_exception writes,
   handle_close, EOF, cancel): a service() invocation entered after the decision never calls
   the application. *)
Theorem C11 : C11_full.
Proof. exact C11_full_holds. Qed.
Print Assumptions C11.

(* the same as acceptance by the executable monitor that the check runs on real traces *)
Theorem C11_monitor : forall L sched, monitor all_kinds (trace step (init L) sched) = true.
Proof. exact monitor_accepts. Qed.
Print Assumptions C11_monitor.

(* supporting invariants, in every reachable state *)
Theorem C11_inv : forall L sched, Inv (run step (init L) sched).
Proof. exact Inv_run. Qed.
Print Assumptions C11_inv.

Theorem C11_one_worker_in_service : forall L sched w1 w2,
  let s := run step (init L) sched in
  active (wk s w1) = true -> active (wk s w2) = true -> w1 = w2.
Proof. exact one_worker_in_service. Qed.
Print Assumptions C11_one_worker_in_service.

Theorem C11_entry_excludes_service : forall L sched,
  let s := run step (init L) sched in
  queue s <= 1 /\
  (queue s = 1 -> reqs s <> [] /\ (forall w, active (wk s w) = false) /\ ~ tokio s /\ sd s = SdIdle).
Proof. exact entry_excludes_service. Qed.
Print Assumptions C11_entry_excludes_service.

(* after the worker's close decision: nothing is queued, submitted or started any more, and
   requests is empty (or being emptied by the deciding worker, which still holds the lock) *)
Theorem C11_after_worker_close : forall L sched i j x,
  let tr := trace step (init L) sched in
  nth_error tr i = Some (LDecide DWorkerClose) -> i < j -> nth_error tr j = Some x -> loud x = false.
Proof. exact after_worker_close_positions. Qed.
Print Assumptions C11_after_worker_close.

Theorem C11_after_worker_close_state : forall L sched,
  let s := run step (init L) sched in
  In (LDecide DWorkerClose) (trace step (init L) sched) ->
  Closed s /\ (reqs s = [] \/ exists w, at_close2 (wk s w) = true).
Proof. exact after_worker_close_state. Qed.
Print Assumptions C11_after_worker_close_state.

(* connected and requests <> []  ->  somebody holds the channel (entry / worker / I/O about to submit) *)
Theorem C11_requests_are_held : forall L sched, Entry (run step (init L) sched).
Proof. exact Entry_run. Qed.
Print Assumptions C11_requests_are_held.
