(* C18 -- Connection limit holds; idle connections are reaped, busy ones never.
   Statements only.  Model: Model/Server.v (socket map with several listeners
   and their triggers, channels, a fake kernel, one poll turn of wasyncore.poll
   as one event), built on the predicates regenerated from the source on this
   run (Gen/GenPreds.v).  Proofs: Proof/ServerBase.v (interface lemmas of the
   generated items, closed form of a poll turn), Proof/ServerLimit.v,
   Proof/ServerInv.v, Proof/ServerReap.v.  All theorems quantify over all
   parameter values and all event histories (induction over the event list). *)
From Coq Require Import List ZArith Bool.
From WV Require Import Gen.GenPreds Model.Server Proof.ServerBase Proof.ServerLimit Proof.ServerInv Proof.ServerReap.
Import ListNotations.
Local Open Scope Z_scope.

(* the generated decision procedures are the expected formulas *)
Theorem C18_generated_predicates :
  (forall wc cwf n la tot, gen_chan_readable wc cwf n la tot = negb (wc || cwf || (la <? n) || negb (tot =? 0))) /\
  (forall tot wc cwf, gen_chan_writable tot wc cwf = ((0 <? tot) || wc || cwf)) /\
  (forall n tot sb hw, flushes (gen_hw_flush n tot sb hw) = ((n =? 0) || (sb <=? tot) || (hw <? tot))) /\
  (forall cwf wc tot, gen_hw_after cwf wc tot = if cwf && (tot =? 0) then (false, true, true) else (cwf, wc, wc)) /\
  (forall n la now tmo, gen_maint_test n la (gen_maint_cutoff now tmo) = ((n =? 0) && (la <? now - tmo))) /\
  (forall now ncc itv acc ovf ml lim, gen_srv_readable now ncc itv acc ovf ml lim =
     (if ncc <=? now then now + itv else ncc, ncc <=? now, if acc then lim <=? ml else ovf, acc && (ml <? lim))) /\
  (forall r w a, gen_poll_r r w a = r) /\ (forall r w a, gen_poll_w r w a = (w && negb a)).
Proof.
  exact (conj gen_chan_readable_spec (conj gen_chan_writable_spec (conj gen_hw_flush_spec (conj gen_hw_after_spec
        (conj gen_maint_spec (conj gen_srv_readable_spec (conj gen_poll_r_spec gen_poll_w_spec))))))).
Qed.
Print Assumptions C18_generated_predicates.

(* the size of the socket map (listeners + triggers + connections), every history *)
Theorem C18_limit : forall p nl t0 fd0 es,
  map_len (run p (init nl t0 fd0) es) <= Z.max (2 * Z.of_nat nl) (p_limit p + Z.of_nat nl - 1).
Proof. exact limit_all_histories. Qed.
Print Assumptions C18_limit.

(* the property's wording: connection_limit plus one per additional listening socket *)
Theorem C18_limit_property_wording : forall p nl t0 fd0 es,
  Z.of_nat nl + 1 <= p_limit p ->
  map_len (run p (init nl t0 fd0) es) <= p_limit p + (Z.of_nat nl - 1).
Proof. exact limit_property_wording. Qed.
Print Assumptions C18_limit_property_wording.

(* nothing is accepted in a poll turn that starts at the limit (any state) *)
Theorem C18_no_accept_at_limit : forall p s,
  p_limit p <= map_len s ->
  (forall c, In c (st_chans (poll p s)) -> In (c_fd c) (map c_fd (st_chans s))) /\
  (forall l, In l (st_listeners (poll p s)) -> exists l0, In l0 (st_listeners s) /\ l_backlog l = l_backlog l0).
Proof. exact no_accept_at_limit. Qed.
Print Assumptions C18_no_accept_at_limit.

(* accepting resumes in the first poll turn that starts below the limit *)
Theorem C18_accept_resumes : forall p s i l k bl,
  nth_error (st_listeners s) i = Some l ->
  l_accepting l = true -> map_len s < p_limit p -> l_backlog l = k :: bl ->
  In (new_chan (st_clock s) i k) (st_chans (poll p s)) /\
  exists l', nth_error (st_listeners (poll p s)) i = Some l' /\
             l_backlog l' = bl /\ l_overflow l' = false /\ l_accepting l' = true.
Proof. exact accept_resumes. Qed.
Print Assumptions C18_accept_resumes.

Theorem C18_overflow_flag : forall p s l,
  In l (st_listeners (poll p s)) -> l_accepting l = true -> l_overflow l = (p_limit p <=? map_len s).
Proof. exact overflow_flag_after_poll. Qed.
Print Assumptions C18_overflow_flag.

(* a connection with a queued or executing request is never marked for closing *)
Theorem C18_never_busy : forall p nl t0 fd0 es c,
  In c (st_chans (run p (init nl t0 fd0) es)) -> c_requests c <> [] -> c_wc c = false /\ c_cwf c = false.
Proof. exact never_busy_all_histories. Qed.
Print Assumptions C18_never_busy.

(* ... and no event other than its own client's disconnect removes it, however far the clock advances *)
Theorem C18_busy_not_closed : forall p nl t0 fd0 s c e,
  reachable p nl t0 fd0 s -> In c (st_chans s) ->
  c_requests c <> [] -> s_gone (c_sock c) = false -> e <> EDisconnect (c_fd c) ->
  exists c', In c' (st_chans (step p s e)) /\ c_fd c' = c_fd c.
Proof. exact busy_not_closed. Qed.
Print Assumptions C18_busy_not_closed.

(* maintenance runs at most cleanup_interval after the previous run, when a poll turn happens *)
Theorem C18_maintenance_period : forall p nl t0 fd0 s l,
  reachable p nl t0 fd0 s -> In l (st_listeners s) -> l_ncc l <= Z.max 0 (st_clock s + p_interval p).
Proof. exact maintenance_period_in. Qed.
Print Assumptions C18_maintenance_period.

(* reaping, partial: outside the class "socket not writable when polled" (F21) *)
Theorem C18_reap_at_due_poll_partial : forall p nl t0 fd0 s f o l es,
  reachable p nl t0 fd0 s ->
  idle_expired p f o s -> nth_error (st_listeners s) o = Some l ->
  Forall (quiet_ev f) es ->
  l_ncc l <= st_clock (run p s es) ->
  writable_when_polled f (run p s es) ->
  ~ In f (chan_fds (step p (run p s es) EPoll)).
Proof. exact reap_at_due_poll. Qed.
Print Assumptions C18_reap_at_due_poll_partial.

Theorem C18_reap_deadline_partial : forall p nl t0 fd0 s f o es P,
  reachable p nl t0 fd0 s -> 0 <= t0 -> 0 <= p_interval p -> 0 <= P ->
  idle_expired p f o s ->
  Forall (quiet_ev f) es ->
  period_ok p P s (st_clock s) es ->
  writable_at_polls p f s es ->
  st_clock s + p_interval p + P < st_clock (run p s es) ->
  ~ In f (chan_fds (run p s es)).
Proof. exact reap_deadline. Qed.
Print Assumptions C18_reap_deadline_partial.

(* no hypothesis on polls when the connection's send buffer has room *)
Theorem C18_reap_deadline_room : forall p nl t0 fd0 s f o es P,
  reachable p nl t0 fd0 s -> 0 <= t0 -> 0 <= p_interval p -> 0 <= P ->
  idle_expired p f o s ->
  (forall c, In c (st_chans s) -> c_fd c = f -> 0 < s_room (c_sock c)) ->
  Forall (quiet_ev f) es ->
  period_ok p P s (st_clock s) es ->
  st_clock s + p_interval p + P < st_clock (run p s es) ->
  ~ In f (chan_fds (run p s es)).
Proof. exact reap_deadline_room. Qed.
Print Assumptions C18_reap_deadline_room.

(* the full statement (without the writability hypothesis) is false: F21 *)
Theorem C18_reap_refuted : ~ reap_deadline_full.
Proof. exact reap_deadline_full_refuted. Qed.
Print Assumptions C18_reap_refuted.

(* a marked connection whose peer has stalled with a full send buffer is never closed *)
Theorem C18_stalled_never_closed : forall p o f es st,
  stalled p o f st -> Forall (silent_ev f) es -> In f (chan_fds (run p st es)).
Proof. exact stalled_never_closed. Qed.
Print Assumptions C18_stalled_never_closed.

(* ------------------------------------------------------------------------- *)
(* The I/O loop bodies (wasyncore.poll: select; wasyncore.poll2 + readwrite:
   select.poll), per object and turn, over the terms regenerated from the
   source (Proof/ServerLoop.v).  Cited by C06 / C11. *)
From WV Require Import Proof.ServerLoop.

Theorem C18_loop_generated :
  (forall in_r in_w in_e, gen_poll_dispatch in_r in_w in_e = (in_r, in_w, in_e)) /\
  (forall r w a, gen_poll_e r w a = (r || w)) /\
  (forall r w a, gen_poll2_reg r w a = (mkPF r r (w && negb a) false false false, r || (w && negb a))) /\
  (forall i p o e h n, gen_readwrite i p o e h n = (i, o, p, e || h || n)) /\
  gen_poll2_dispatches_readwrite = true.
Proof.
  exact (conj gen_poll_dispatch_spec (conj gen_poll_e_spec (conj gen_poll2_reg_spec (conj gen_readwrite_spec gen_poll2_dispatch_spec)))).
Qed.
Print Assumptions C18_loop_generated.

Theorem C18_select_loop_dispatch : forall r w a ret_r ret_w ret_e,
  select_returns (gen_poll_r r w a) (gen_poll_w r w a) (gen_poll_e r w a) ret_r ret_w ret_e ->
  (sel_read (select_turn ret_r ret_w ret_e) = true -> r = true) /\
  (sel_write (select_turn ret_r ret_w ret_e) = true -> w = true /\ a = false) /\
  (sel_expt (select_turn ret_r ret_w ret_e) = true -> r = true \/ w = true).
Proof. exact select_loop_dispatch. Qed.
Print Assumptions C18_select_loop_dispatch.

Theorem C18_poll2_loop_dispatch : forall r w a rv,
  poll_returns (gen_poll2_reg r w a) rv ->
  (p2_read (poll2_turn rv) = true -> r = true) /\
  (p2_write (poll2_turn rv) = true -> w = true /\ a = false) /\
  (p2_expt (poll2_turn rv) = true -> r = true) /\
  p2_close (poll2_turn rv) = (pf_err rv || pf_hup rv || pf_nval rv) /\
  (r = true \/ (w = true /\ a = false)).
Proof. exact poll2_loop_dispatch. Qed.
Print Assumptions C18_poll2_loop_dispatch.

Theorem C18_loop_read_only_if_readable :
  (forall r w a ret_r ret_w ret_e,
     select_returns (gen_poll_r r w a) (gen_poll_w r w a) (gen_poll_e r w a) ret_r ret_w ret_e ->
     sel_read (select_turn ret_r ret_w ret_e) = true -> r = true) /\
  (forall r w a rv,
     poll_returns (gen_poll2_reg r w a) rv -> p2_read (poll2_turn rv) = true -> r = true).
Proof. exact loop_read_only_if_readable. Qed.
Print Assumptions C18_loop_read_only_if_readable.

Theorem C18_loop_write_only_if_writable :
  (forall r w a ret_r ret_w ret_e,
     select_returns (gen_poll_r r w a) (gen_poll_w r w a) (gen_poll_e r w a) ret_r ret_w ret_e ->
     sel_write (select_turn ret_r ret_w ret_e) = true -> w = true /\ a = false) /\
  (forall r w a rv,
     poll_returns (gen_poll2_reg r w a) rv -> p2_write (poll2_turn rv) = true -> w = true /\ a = false).
Proof. exact loop_write_only_if_writable. Qed.
Print Assumptions C18_loop_write_only_if_writable.
