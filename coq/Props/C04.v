(* Props/C04.v -- pipelined requests: in order, exactly once, never mixed, under every schedule.
   Model: Model/ChanPipe.v (its header says which statement of channel.py / task.py is which step).
   All statements quantify over every parameter record P (lookahead, send_bytes, number of workers,
   the client's pipeline with write sizes / Expect / close flags) and every schedule, i.e. every
   interleaving of the I/O thread with the workers and every behaviour of the environment (how the
   stream is cut into reads, what select reports, how many bytes each send accepts, EOF). *)
From Coq Require Import List Arith Bool ZArith.
From WV Require Import Model.ChanPipe Proof.ChanPipeBase Proof.ChanPipeOwn Proof.ChanPipeLog
                       Proof.ChanPipeOut Proof.ChanPipeOutStep Proof.ChanPipeQuiet Proof.ChanPipeArr Proof.ChanPipeSpec Proof.ChanPipeRefute.
Import ListNotations.

(* At most one worker owns the connection (is between taking the channel off the dispatcher queue
   and handing it over: add_task for the next request / the pop that empties the list / requests := []). *)
Theorem C04_one_at_a_time : forall (P : params) (sched : list choice) (j k : nat),
  wk_owner (wpc (wk (run P sched) j)) = true -> wk_owner (wpc (wk (run P sched) k)) = true -> j = k.
Proof. exact one_at_a_time. Qed.
Print Assumptions C04_one_at_a_time.

(* The dispatcher queue holds the channel at most once; if it does, requests are pending and no
   worker owns the connection; and it does whenever the connection is open, requests are pending,
   no worker owns the connection and the I/O thread is not in the middle of submitting the first one. *)
Theorem C04_one_entry : forall (P : params) (sched : list choice),
  let st := run P sched in
  queue (sh st) <= 1 /\
  (queue (sh st) = 1 -> requests (sh st) <> [] /\ no_owner st) /\
  (connected (sh st) = true -> requests (sh st) <> [] -> no_owner st -> io_handing (io st) = false ->
   queue (sh st) = 1).
Proof. exact one_entry. Qed.
Print Assumptions C04_one_entry.

(* The requests whose service() started are a prefix of the arrivals, in arrival order (each arrival
   is started at most once); the application calls are the starts, except possibly the last one
   (started but not yet / never executed because the client had gone). *)
Theorem C04_once : forall (P : params) (sched : list choice),
  let s := sh (run P sched) in
  prefix (starts s) (arrivals s) /\ (starts s = execs s \/ exists x, starts s = execs s ++ [x]).
Proof. exact once. Qed.
Print Assumptions C04_once.

(* No request id occurs twice among the arrivals, hence none is started or executed twice. *)
Theorem C04_once_nodup : forall (P : params) (sched : list choice),
  let s := sh (run P sched) in
  NoDup (arrivals s) /\ NoDup (starts s) /\ NoDup (execs s).
Proof. exact once_nodup. Qed.
Print Assumptions C04_once_nodup.

(* Exactly once: when no worker can move any more (every pool worker is parked in queue_cv.wait() and
   has not been notified) and the I/O thread is not in the middle of add_task, then on an open
   connection that is not closing the request list is empty and every request that arrived has been
   executed (no task is lost; needs at least one worker). *)
Theorem C04_exactly_once_quiescent : forall (P : params) (sched : list choice),
  let st := run P sched in
  1 <= p_nw P -> all_parked (p_nw P) st = true -> io_in_add_task (io st) = false ->
  connected (sh st) = true -> closing (sh st) = false ->
  requests (sh st) = [] /\ execs (sh st) = arrivals (sh st).
Proof. exact quiescent_exactly_once. Qed.
Print Assumptions C04_exactly_once_quiescent.

(* The bytes, at full strength (every schedule, no class excluded), for the code as it is
   (p_unlocked = false: since 8bcf05e the I/O thread flushes only under outbuf_lock):
   wire ++ pending = produced with the one contiguous segment cut out that handle_close discarded
   (nothing duplicated, lost or reordered between the buffers and the wire); produced = the units in
   order; the response units are exactly the executed requests in order (each response contiguous,
   interim responses only between them). *)
Theorem C04_wire : forall (P : params), p_unlocked P = false ->
  forall (sched : list choice), wire_statement P (run P sched).
Proof. exact wire_full. Qed.
Print Assumptions C04_wire.

(* ... and every response but the one being written is complete while the connection is open. *)
Theorem C04_complete : forall (P : params), p_unlocked P = false ->
  forall (sched : list choice),
  let st := run P sched in
  connected (sh st) = true ->
  (forall j, in_task (wpc (wk st j)) = false) -> Forall (complete P) (units (sh st)).
Proof. exact complete_full. Qed.
Print Assumptions C04_complete.

(* The ownership discipline behind it, at full strength: a thread inside _flush_some holds outbuf_lock. *)
Theorem C04_flush_under_lock : forall (P : params), p_unlocked P = false ->
  forall (sched : list choice),
  let st := run P sched in
  (forall f, io_fl (ipc (io st)) = Some f -> olock (sh st) = Some TIo) /\
  (forall j f, wk_fl (wpc (wk st j)) = Some f -> olock (sh st) = Some (TW j)).
Proof. exact flush_under_lock. Qed.
Print Assumptions C04_flush_under_lock.

(* The previous shape of handle_write (unlocked _flush_some when requests == [], before 8bcf05e) made
   the wire statement FALSE (finding F18): the worker's send_continue() and the I/O thread's
   unlocked flush sent the same chunk twice.  Kept as a statement about the old shape. *)
Theorem C04_wire_refuted_old : exists (P : params) (sched : list choice),
  p_unlocked P = true /\ ~ wire_statement P (run P sched).
Proof. exact wire_refuted_old. Qed.
Print Assumptions C04_wire_refuted_old.

(* ---------------------------------------------------------------------------------------------
   The same claim at BYTE level for the output queue of one channel (Model/ChanOut.v: write_soon and
   _flush_some over the buffer model of C17, Model/Buffers.v).  The interleaving model above orders
   the appends; this part shows that the list of output buffers delivers the appended bytes once, in
   order and unmodified: for every configuration (STRBUF_LIMIT, outbuf_overflow,
   outbuf_high_watermark, send_bytes, any positive sendbuf_len), every history of write_soon(bytes),
   write_soon(file buffer) and _flush_some calls, and every behaviour of the socket (any number of
   bytes accepted per send call, would-block, an OSError at any send), what the socket accepted
   followed by what is still queued is exactly the concatenation of what was written -- across the
   rotation to a fresh buffer at the high watermark, the hand-over of a wsgi.file_wrapper buffer,
   the migration of a buffer between its three representations, partial sends with the local
   outbuflen counter, and the pop-and-close of drained buffers; total_outbufs_len is exact and the
   last buffer is always a writable OverflowableBuffer (self.outbufs[-1].append never fails). *)
From WV Require Model.Buffers Model.ChanOut Spec.Fifo Proof.ChanOut.
Module CO := WV.Model.ChanOut.
Module COP := WV.Proof.ChanOut.

Theorem C04_out_bytes_fifo : forall (c : CO.cfg) (ps : list CO.cop),
  COP.cfg_ok c -> Forall COP.cop_ok ps ->
  let r := CO.crun c CO.chan_new ps in
  concat (map CO.written_by ps) = snd r ++ COP.cabs (fst r) /\
  CO.total_outbufs_len (fst r) = WV.Spec.Fifo.q_len (COP.cabs (fst r)) /\
  COP.lastw (CO.outbufs (fst r)) = true.
Proof. exact COP.out_fifo_new. Qed.
Print Assumptions C04_out_bytes_fifo.

(* One call of _flush_some from any state the invariant allows: it ends (the fuel of the model is
   never exhausted), no buffer operation raises and outbufs[0] always exists; the bytes the socket
   accepted are a prefix of the queue and the rest is still queued; the local counter `sent` is their
   number and the return value says whether there were any; no empty chunk is ever offered to send();
   only drained buffers are popped and closed. *)
Theorem C04_flush_some : forall (c : CO.cfg) (ch : CO.chan) (ans : list CO.answer),
  COP.cfg_ok c -> COP.cinv ch ->
  let f := CO.flush_some c ch ans in
  (CO.f_stop f = CO.Done \/ CO.f_stop f = CO.SockRaised) /\
  COP.cinv (CO.f_chan f) /\
  COP.cabs ch = CO.f_wire f ++ COP.cabs (CO.f_chan f) /\
  CO.f_sent f = WV.Model.Buffers.lenZ (CO.f_wire f) /\
  CO.flush_result f = negb (Z.eqb (WV.Model.Buffers.lenZ (CO.f_wire f)) 0) /\
  Forall COP.nonempty (CO.f_chunks f) /\
  Forall COP.drained (CO.f_closed f) /\
  CO.current_outbuf_count (CO.f_chan f) = CO.current_outbuf_count ch.
Proof. exact COP.flush_some_explicit. Qed.
Print Assumptions C04_flush_some.

(* The hypotheses are met by a history with rotation, a file buffer, representation changes,
   partial sends, a socket error and pops (Proof/ChanOut.v: ex_ops). *)
Theorem C04_out_bytes_example :
  COP.cfg_ok COP.ex_cfg /\ Forall COP.cop_ok COP.ex_ops /\
  let r := CO.crun COP.ex_cfg CO.chan_new COP.ex_ops in
  snd r = [1;2;3;4;5;6;7;8;9;8;7;6;5]%N /\ COP.cabs (fst r) = [10;11]%N /\
  length (CO.outbufs (fst r)) = 1 /\ CO.total_outbufs_len (fst r) = 2%Z.
Proof. exact (conj (proj1 COP.ex_ops_ok) (conj (proj2 COP.ex_ops_ok) COP.ex_run)). Qed.
Print Assumptions C04_out_bytes_example.

(* ---------------------------------------------------------------------------------------------
   handle_write over the byte-level queue (Proof/ChanOutClose.v).  The flush selection and the close
   tail are the predicates regenerated from HTTPChannel.handle_write on this run (Gen/GenPreds.v:
   gen_hw_flush, gen_hw_after; writable() is gen_chan_writable); the flush is _flush_some of
   Model/ChanOut.v; a socket error inside it sets will_close (_flush_exception).  For every
   configuration, queue state, flag values and socket behaviour: handle_write calls handle_close() while
   bytes are still queued ONLY IF will_close was already set or the socket failed during this flush; a
   deferred close (close_when_flushed) is carried out exactly when the queue is empty, and then every
   byte that was queued has been accepted by the socket -- the close that follows a response drops no
   byte of it; and writable() stays true as long as bytes are queued or a close is pending. *)
From WV Require Gen.GenPreds Proof.ChanOutClose.
Module COC := WV.Proof.ChanOutClose.

Theorem C04_deferred_close_loses_nothing :
  forall (c : CO.cfg) (n : Z) (cwf wc : bool) (ch : CO.chan) (ans : list CO.answer),
  COP.cfg_ok c -> COP.cinv ch ->
  let r := COC.handle_write_bytes c n cwf wc ch ans in
  COP.cinv (COC.hw_chan r) /\
  COP.cabs ch = COC.hw_wire r ++ COP.cabs (COC.hw_chan r) /\
  (COC.hw_closed r = true ->
     wc = true \/ COC.hw_raised r = true \/
     (cwf = true /\ COP.cabs (COC.hw_chan r) = [] /\ COC.hw_wire r = COP.cabs ch)) /\
  (cwf = true -> COP.cabs (COC.hw_chan r) = [] -> COC.hw_closed r = true) /\
  (WV.Gen.GenPreds.gen_chan_writable (CO.total_outbufs_len (COC.hw_chan r)) (COC.hw_wc r) (COC.hw_cwf r) = false ->
     COP.cabs (COC.hw_chan r) = [] /\ COC.hw_wc r = false /\ COC.hw_cwf r = false).
Proof. exact COC.handle_write_close_sound. Qed.
Print Assumptions C04_deferred_close_loses_nothing.

Theorem C04_deferred_close_example :
  let ch := fst (CO.crun COP.ex_cfg CO.chan_new [CO.CWrite (CO.WBytes [1;2;3;4;5]%N) []; CO.CWrite (CO.WFile COP.ex_file) []]) in
  let r := COC.handle_write_bytes COP.ex_cfg 0 true false ch (repeat (CO.Sent 100) 12) in
  COC.hw_closed r = true /\ COC.hw_wire r = [1;2;3;4;5;8;7;6;5]%N /\ COP.cabs (COC.hw_chan r) = [] /\
  COC.hw_wc r = true /\ COC.hw_cwf r = false.
Proof. exact COC.hw_example. Qed.
Print Assumptions C04_deferred_close_example.
