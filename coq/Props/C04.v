(* Props/C04.v -- pipelined requests: in order, exactly once, never mixed, under every schedule.
   Model: Model/ChanPipe.v (its header says which statement of channel.py / task.py is which step).
   All statements quantify over every parameter record P (lookahead, send_bytes, number of workers,
   the client's pipeline with write sizes / Expect / close flags) and every schedule, i.e. every
   interleaving of the I/O thread with the workers and every behaviour of the environment (how the
   stream is cut into reads, what select reports, how many bytes each send accepts, EOF). *)
From Coq Require Import List Arith Bool ZArith.
From WV Require Import Model.ChanPipe Proof.ChanPipeBase Proof.ChanPipeOwn Proof.ChanPipeLog
                       Proof.ChanPipeOut Proof.ChanPipeOutStep Proof.ChanPipeQuiet Proof.ChanPipeArr Proof.ChanPipeSpec Proof.ChanPipeRefute.
Import ListNotations.

(* At most one worker owns the connection (is between taking the channel off the dispatcher queue
   and handing it over: add_task for the next request / the pop that empties the list / requests := []). *)
Theorem C04_one_at_a_time : forall (P : params) (sched : list choice) (j k : nat),
  wk_owner (wpc (wk (run P sched) j)) = true -> wk_owner (wpc (wk (run P sched) k)) = true -> j = k.
Proof. exact one_at_a_time. Qed.
Print Assumptions C04_one_at_a_time.

(* The dispatcher queue holds the channel at most once; if it does, requests are pending and no
   worker owns the connection; and it does whenever the connection is open, requests are pending,
   no worker owns the connection and the I/O thread is not in the middle of submitting the first one. *)
Theorem C04_one_entry : forall (P : params) (sched : list choice),
  let st := run P sched in
  queue (sh st) <= 1 /\
  (queue (sh st) = 1 -> requests (sh st) <> [] /\ no_owner st) /\
  (connected (sh st) = true -> requests (sh st) <> [] -> no_owner st -> io_handing (io st) = false ->
   queue (sh st) = 1).
Proof. exact one_entry. Qed.
Print Assumptions C04_one_entry.

(* The requests whose service() started are a prefix of the arrivals, in arrival order (each arrival
   is started at most once); the application calls are the starts, except possibly the last one
   (started but not yet / never executed because the client had gone). *)
Theorem C04_once : forall (P : params) (sched : list choice),
  let s := sh (run P sched) in
  prefix (starts s) (arrivals s) /\ (starts s = execs s \/ exists x, starts s = execs s ++ [x]).
Proof. exact once. Qed.
Print Assumptions C04_once.

(* No request id occurs twice among the arrivals, hence none is started or executed twice. *)
Theorem C04_once_nodup : forall (P : params) (sched : list choice),
  let s := sh (run P sched) in
  NoDup (arrivals s) /\ NoDup (starts s) /\ NoDup (execs s).
Proof. exact once_nodup. Qed.
Print Assumptions C04_once_nodup.

(* Exactly once: when no worker can move any more (every pool worker is parked in queue_cv.wait() and
   has not been notified) and the I/O thread is not in the middle of add_task, then on an open
   connection that is not closing the request list is empty and every request that arrived has been
   executed (no task is lost; needs at least one worker). *)
Theorem C04_exactly_once_quiescent : forall (P : params) (sched : list choice),
  let st := run P sched in
  1 <= p_nw P -> all_parked (p_nw P) st = true -> io_in_add_task (io st) = false ->
  connected (sh st) = true -> closing (sh st) = false ->
  requests (sh st) = [] /\ execs (sh st) = arrivals (sh st).
Proof. exact quiescent_exactly_once. Qed.
Print Assumptions C04_exactly_once_quiescent.

(* The bytes, at full strength (every schedule, no class excluded), for the code as it is
   (p_unlocked = false: since 8bcf05e the I/O thread flushes only under outbuf_lock):
   wire ++ pending = produced with the one contiguous segment cut out that handle_close discarded
   (nothing duplicated, lost or reordered between the buffers and the wire); produced = the units in
   order; the response units are exactly the executed requests in order (each response contiguous,
   interim responses only between them). *)
Theorem C04_wire : forall (P : params), p_unlocked P = false ->
  forall (sched : list choice), wire_statement P (run P sched).
Proof. exact wire_full. Qed.
Print Assumptions C04_wire.

(* ... and every response but the one being written is complete while the connection is open. *)
Theorem C04_complete : forall (P : params), p_unlocked P = false ->
  forall (sched : list choice),
  let st := run P sched in
  connected (sh st) = true ->
  (forall j, in_task (wpc (wk st j)) = false) -> Forall (complete P) (units (sh st)).
Proof. exact complete_full. Qed.
Print Assumptions C04_complete.

(* The ownership discipline behind it, at full strength: a thread inside _flush_some holds outbuf_lock. *)
Theorem C04_flush_under_lock : forall (P : params), p_unlocked P = false ->
  forall (sched : list choice),
  let st := run P sched in
  (forall f, io_fl (ipc (io st)) = Some f -> olock (sh st) = Some TIo) /\
  (forall j f, wk_fl (wpc (wk st j)) = Some f -> olock (sh st) = Some (TW j)).
Proof. exact flush_under_lock. Qed.
Print Assumptions C04_flush_under_lock.

(* The previous shape of handle_write (unlocked _flush_some when requests == [], before 8bcf05e) made
   the wire statement FALSE (finding F18): the worker's send_continue() and the I/O thread's
   unlocked flush sent the same chunk twice.  Kept as a statement about the old shape. *)
Theorem C04_wire_refuted_old : exists (P : params) (sched : list choice),
  p_unlocked P = true /\ ~ wire_statement P (run P sched).
Proof. exact wire_refuted_old. Qed.
Print Assumptions C04_wire_refuted_old.
