(* Props/C04.v -- pipelined requests: in order, exactly once, never mixed, under every schedule.
   Model: Model/ChanPipe.v (header comment: which statement of channel.py / task.py is which step). *)
From Coq Require Import List Arith Bool ZArith.
From WV Require Import Model.ChanPipe Proof.ChanPipeBase Proof.ChanPipeOwn Proof.ChanPipeSpec.
Import ListNotations.

(* At most one worker owns the connection (is between taking the channel off the dispatcher queue and
   handing it over), for every schedule, every parameter setting, every number of workers. *)
Theorem C04_one_at_a_time : forall (P : params) (sched : list choice) (j k : nat),
  wk_owner (wpc (wk (run P sched) j)) = true -> wk_owner (wpc (wk (run P sched) k)) = true -> j = k.
Proof. exact one_at_a_time. Qed.
Print Assumptions C04_one_at_a_time.

(* The dispatcher queue holds the channel at most once; if it does, requests are pending and no
   worker owns the connection; and it does whenever the connection is open, requests are pending,
   no worker owns the connection and the I/O thread is not in the middle of submitting the first one. *)
Theorem C04_one_entry : forall (P : params) (sched : list choice),
  let st := run P sched in
  queue (sh st) <= 1 /\
  (queue (sh st) = 1 -> requests (sh st) <> [] /\ no_owner st) /\
  (connected (sh st) = true -> requests (sh st) <> [] -> no_owner st -> io_handing (io st) = false ->
   queue (sh st) = 1).
Proof. exact one_entry. Qed.
Print Assumptions C04_one_entry.
