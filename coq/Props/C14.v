(* C14 -- Worker pool: every task runs exactly once or is cancelled exactly once.
   Statements only.  The model is Model/Dispatcher.v (an executable interleaving
   semantics of waitress.task.ThreadedTaskDispatcher), the specifications are in
   Spec/Pool.v, the proofs in Proof/Dispatcher{Lib,Inv,Spec}.v; satisfiability
   examples in Proof/DispatcherExamples.v.  [run step init sched] is the state
   after the schedule [sched] (ANY list of choices: which thread moves, which
   waiter a notify wakes, whether a timeout fires, what the environment submits or
   requests); [trace step init sched] are the labels emitted on the way.  No
   theorem bounds the length of the schedule, the number of tasks, the number of
   workers or the arguments of set_thread_count. *)
From Coq Require Import List Arith.
From WV Require Import Lib.Conc Model.Dispatcher Spec.Pool Proof.DispatcherSpec Proof.DispatcherExamples.
Import ListNotations.

(* every submitted task is in exactly one of queue / running / done / cancelled,
   service() was called once iff Running or Done, cancel() once iff Cancelled *)
Theorem C14_once : forall sched, once_spec (run step init sched).
Proof. exact once_all_schedules. Qed.
Print Assumptions C14_once.

Theorem C14_never_both : forall sched t, submitted (run step init sched) t ->
  svc (run step init sched) t + cnc (run step init sched) t <= 1.
Proof. exact once_counts. Qed.
Print Assumptions C14_never_both.

(* the queue is the not-yet-taken tasks in submission order; tasks start in submission order *)
Theorem C14_fifo : forall sched, fifo_spec (run step init sched) (trace step init sched).
Proof. exact fifo_all_schedules. Qed.
Print Assumptions C14_fifo.

Theorem C14_fifo_nth : forall sched i t,
  nth_error (takes (trace step init sched)) i = Some t ->
  nth_error (submits (trace step init sched)) i = Some t.
Proof. exact fifo_nth. Qed.
Print Assumptions C14_fifo_nth.

(* no lost wake-up inside the pool *)
Theorem C14_quiescent : forall sched, quiescent_spec (run step init sched).
Proof. exact quiescent_all_schedules. Qed.
Print Assumptions C14_quiescent.

(* [quiescent] holds exactly when only the environment can move *)
Theorem C14_quiescent_char : forall sched,
  quiescent (run step init sched) = true <->
  (forall c, is_env c = false -> step (run step init sched) c = None).
Proof. exact quiescent_char_all_schedules. Qed.
Print Assumptions C14_quiescent_char.

Theorem C14_resize : forall sched, resize_spec (run step init sched).
Proof. exact resize_all_schedules. Qed.
Print Assumptions C14_resize.

Theorem C14_shutdown : forall sched c s' l, step (run step init sched) c = Some (s', l) ->
  shutdown_true_spec s' l /\ shutdown_snap_spec (run step init sched) c s' /\
  shutdown_false_spec (run step init sched) s' l /\ no_worker_spec (run step init sched) l.
Proof. exact shutdown_all_schedules. Qed.
Print Assumptions C14_shutdown.

(* what the code does with tasks left behind by shutdown(False) / set_thread_count(0):
   they stay queued until set_thread_count is called again or shutdown cancels them *)
Theorem C14_stranded : forall sched c s' l,
  step (run step init sched) c = Some (s', l) -> workers (run step init sched) = [] ->
  (forall n, c <> CResize n) -> (forall e, c <> CSd e) ->
  forall t, In t (queue (run step init sched)) -> In t (queue s') /\ st s' t = Queued.
Proof. exact stranded_all_schedules. Qed.
Print Assumptions C14_stranded.

(* what queue/threads/stop_count/active_count and the lock mean in every reachable state:
   threads = the live workers, active_count = workers not waiting, live - stop_count =
   requested, a pending stop request leaves no un-notified waiter, the lock is held across
   steps only by shutdown's cancel loop *)
Theorem C14_bookkeeping : forall sched, bookkeeping_spec (run step init sched).
Proof. exact bookkeeping_all_schedules. Qed.
Print Assumptions C14_bookkeeping.
