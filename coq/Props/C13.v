(* Props/C13.v -- "Client faults are contained; teardown happens once, on the
   I/O thread only", over Model/ChanFault.v: the socket map {listener, trigger,
   channel A, channel B}, the I/O thread, one worker per channel and an
   environment that answers every recv / send / accept / getsockopt / setsockopt /
   setblocking / select with a normal result, EOF or an errno, at every step.
   Every theorem quantifies over ALL schedules (all interleavings, all lengths,
   all fault placements) and over the configuration g (lookahead, send_bytes,
   high watermark, send-buffer size, select or poll).

   Two facts about the source enter the model as configuration knobs and are
   REGENERATED FROM THE SOURCE on every run into Gen/GenChanKnobs.v:
     src_wc_close     the do_close with which service() reaches _flush_some
                      through send_continue()           (finding F18: it was True)
     src_init_guarded handle_accept constructs the channel inside a try that
                      catches OSError                   (finding F17: it was not)
   The headline theorems C13_loop / C13_listener / C13_once are stated for the
   configurations that have the source's values; their proofs need
   src_wc_close = false and src_init_guarded = true BY COMPUTATION, so a
   regression of either repair (/repo 8a2ea3a, da3bf3a) stops this file from
   compiling.  The statements that were refuted before the repairs are kept as
   statements about the old knob values. *)
From Coq Require Import List Arith Bool.
From WV Require Import Gen.GenChanKnobs.
From WV Require Import Model.ChanFault Proof.ChanFaultSpec Proof.ChanFaultWorkers Proof.ChanFaultListener
                       Proof.ChanFaultOnce Proof.ChanFaultWitness Proof.ChanFaultIso
                       Proof.ChanFaultIso2Proj Proof.ChanFaultIso2.
Import ListNotations.

(* the configurations that have what the source has now *)
Definition as_source (g : cfg) : Prop :=
  wc_close g = src_wc_close /\ init_guarded g = src_init_guarded.

(* ---- the headline theorems: every schedule, every fault placement ------------------------------ *)

(* no step of the I/O thread ends in an escaped exception *)
Theorem C13_loop : forall g sched, as_source g -> loop_ok (trace g sched).
Proof. intros g sched [H _]. apply loop_repaired. rewrite H. reflexivity. Qed.
Print Assumptions C13_loop.

(* the listening socket and its trigger are in the socket map, open, in every reachable state *)
Theorem C13_listener : forall g sched, as_source g -> listener_ok (run g sched).
Proof. intros g sched [_ H]. apply listener_repaired. rewrite H. reflexivity. Qed.
Print Assumptions C13_listener.

(* every socket.close(), every deletion from the socket map and from active_channels and every closing of
   output buffers is done by the I/O thread; at most one socket.close() per channel; after it the descriptor
   is out of the map and of active_channels and the buffers have been closed *)
Theorem C13_once : forall g sched, as_source g -> once_ok (run g sched) (trace g sched).
Proof. intros g sched [H _]. apply once_repaired. rewrite H. reflexivity. Qed.
Print Assumptions C13_once.

(* no worker is ever killed (any configuration) *)
Theorem C13_workers : forall g sched, workers_ok (trace g sched).
Proof. exact workers_never_die. Qed.
Print Assumptions C13_workers.

(* ---- the same, per knob, for any configuration ----------------------------------------------------- *)
Theorem C13_loop_repaired : forall g sched, wc_close g = false -> loop_ok (trace g sched).
Proof. exact loop_repaired. Qed.
Print Assumptions C13_loop_repaired.

Theorem C13_once_repaired : forall g sched, wc_close g = false -> once_ok (run g sched) (trace g sched).
Proof. exact once_repaired. Qed.
Print Assumptions C13_once_repaired.

Theorem C13_listener_repaired : forall g sched, init_guarded g = true -> listener_ok (run g sched).
Proof. exact listener_repaired. Qed.
Print Assumptions C13_listener_repaired.

(* ---- whatever the knobs: outside the executions in which the old defects could act ------------------ *)
Theorem C13_loop_partial : forall g sched, no_wcont (trace g sched) -> loop_ok (trace g sched).
Proof. exact loop_partial. Qed.
Print Assumptions C13_loop_partial.

Theorem C13_listener_partial : forall g sched, no_setup_fault (trace g sched) -> listener_ok (run g sched).
Proof. exact listener_partial. Qed.
Print Assumptions C13_listener_partial.

Theorem C13_once_partial : forall g sched, no_wcont (trace g sched) -> once_ok (run g sched) (trace g sched).
Proof. exact once_partial. Qed.
Print Assumptions C13_once_partial.

(* ---- the old knob values: what was wrong before the repairs (findings F17, F18; see Findings/C13_F17_F18.v) *)
(* wc_close = true: a worker closes the descriptor between the I/O thread's readable()/writable() pass and
   its select() call; EBADF escapes wasyncore.poll *)
Theorem C13_loop_refuted_old : exists g sched, wc_close g = true /\ ~ loop_ok (trace g sched).
Proof. exists wcfg, w_loop. split; [reflexivity|exact (proj2 loop_refuted_w)]. Qed.
Print Assumptions C13_loop_refuted_old.

Theorem C13_once_refuted_old : exists g sched, wc_close g = true /\ ~ once_ok (run g sched) (trace g sched).
Proof. exists wcfg, w_once. split; [reflexivity|exact (proj2 once_refuted_w)]. Qed.
Print Assumptions C13_once_refuted_old.

(* init_guarded = false: an OSError in HTTPChannel.__init__ closes the listener and its trigger *)
Theorem C13_listener_refuted_old : exists g sched, init_guarded g = false /\ ~ listener_ok (run g sched).
Proof. exists wcfg, w_listener. split; [reflexivity|exact (proj2 listener_refuted_w)]. Qed.
Print Assumptions C13_listener_refuted_old.

(* ---- isolation: the unwinding conditions of non-interference between the two connections (step level);
   their composition into one statement about whole runs is C13_isolation below ---- *)

(* a step that executes an instruction of connection c -- whatever the environment answers: a fault,
   EOF, anything -- changes nothing of the other connection d (record, worker), nothing of the listener
   and trigger, and emits no label of d, wire bytes included.  For ALL states. *)
Theorem C13_isolation_local : forall g s t a s' l c d,
  next_about s t c -> d <> c -> t <> W d -> step g s (t, a) = Some (s', l) ->
  getc s' d = getc s d /\ getth s' (W d) = getth s (W d) /\ srv5 s' = srv5 s /\ labels_of d l = [].
Proof. exact step_local. Qed.
Print Assumptions C13_isolation_local.

(* two-run: a reachable state and ANY state that agrees with it on connection c and c's worker (the other
   connection faulted, torn down, absent ...): the worker's step is the same -- enabledness, labels with the
   wire bytes, the record of c afterwards *)
Theorem C13_isolation_worker : forall g sched s2 c a,
  getc (run g sched) c = getc s2 c -> getth (run g sched) (W c) = getth s2 (W c) ->
  same_step c (step g (run g sched) (W c, a)) (step g s2 (W c, a)).
Proof. intros. apply worker_two_run; auto. apply wtagged_always. Qed.
Print Assumptions C13_isolation_worker.

(* two-run: two states whose I/O threads are about to execute the same instruction of connection c and that
   agree on c: same enabledness, same labels (wire bytes), same record of c afterwards, same instructions pushed *)
Theorem C13_isolation_io : forall g s1 s2 c a i r1 r2,
  raising (getth s1 IO) = None -> raising (getth s2 IO) = None ->
  stk (getth s1 IO) = i :: r1 -> stk (getth s2 IO) = i :: r2 -> about c i = true ->
  getc s1 c = getc s2 c -> locals (getth s1 IO) = locals (getth s2 IO) ->
  match step g s1 (IO, a), step g s2 (IO, a) with
  | Some (s1', l1), Some (s2', l2) =>
      getc s1' c = getc s2' c /\ l1 = l2 /\ raising (getth s1' IO) = raising (getth s2' IO) /\
      locals (getth s1' IO) = locals (getth s2' IO) /\
      exists push, stk (getth s1' IO) = push ++ r1 /\ stk (getth s2' IO) = push ++ r2
  | None, None => True
  | _, _ => False
  end.
Proof. exact io_two_run. Qed.
Print Assumptions C13_isolation_io.

(* ... and whether c is asked about in select's lists depends on c only *)
Theorem C13_isolation_poll : forall g s1 s2 c, getc s1 c = getc s2 c ->
  mem_fd (FC c) (asked_r g s1) = mem_fd (FC c) (asked_r g s2) /\
  mem_fd (FC c) (asked_w s1) = mem_fd (FC c) (asked_w s2).
Proof. exact poll_two_run. Qed.
Print Assumptions C13_isolation_poll.

(* ---- isolation at the level of whole runs (Proof/ChanFaultIso2*.v): existential schedule matching by a
   stuttering simulation.  For every schedule of the two-connection system -- every interleaving, every length,
   every answer of the environment to every socket call of a (any errno, EOF, partial sends ...) -- there is a
   schedule of the same system in which connection a never appears (no label of a in the whole trace, its record
   the initial one, its worker never ran) and which the observer of connection b cannot tell from the first:
   [view b] keeps every label of b (environment answers, WIRE BYTES, handle_close, socket.close, ...) and every
   label of the loop, the listener and the trigger, and hides the labels of a and [LCaught IO _]; the final
   record of b, b's worker and the listener / trigger / loop flags are equal too.  Needs both repairs (with the
   old knob values it is false: C13_listener_refuted_old, C13_loop_refuted_old). ---- *)
Theorem C13_isolation : forall g a b sched1,
  as_source g -> a <> b ->
  exists sched2,
    (labels_of a (trace g sched2) = [] /\ getc (run g sched2) a = chan0 /\ getth (run g sched2) (W a) = th0 []) /\
    view b (trace g sched1) = view b (trace g sched2) /\
    getc (run g sched1) b = getc (run g sched2) b /\
    getth (run g sched1) (W b) = getth (run g sched2) (W b) /\
    srv5 (run g sched1) = srv5 (run g sched2).
Proof. intros g a b sched1 [H1 H2] Hab. apply isolation_trace; [exact Hab|rewrite H1; reflexivity|rewrite H2; reflexivity]. Qed.
Print Assumptions C13_isolation.

(* the same for any configuration with the two repaired knob values *)
Theorem C13_isolation_repaired : forall g a b sched1,
  a <> b -> wc_close g = false -> init_guarded g = true ->
  exists sched2,
    (labels_of a (trace g sched2) = [] /\ getc (run g sched2) a = chan0 /\ getth (run g sched2) (W a) = th0 []) /\
    view b (trace g sched1) = view b (trace g sched2) /\
    getc (run g sched1) b = getc (run g sched2) b /\
    getth (run g sched1) (W b) = getth (run g sched2) (W b) /\
    srv5 (run g sched1) = srv5 (run g sched2).
Proof. exact isolation_trace. Qed.
Print Assumptions C13_isolation_repaired.

(* "the wire log of connection b is independent of the faults injected on connection a": the sequence of byte
   counts the kernel accepted on b in ANY run is the sequence of some run without a, and so is their total *)
Theorem C13_isolation_wire : forall g a b sched1,
  a <> b -> wc_close g = false -> init_guarded g = true ->
  exists sched2,
    labels_of a (trace g sched2) = [] /\
    wire_log b (trace g sched1) = wire_log b (trace g sched2) /\
    wire (getc (run g sched1) b) = wire (getc (run g sched2) b).
Proof. exact isolation_wire. Qed.
Print Assumptions C13_isolation_wire.

(* what b can observe: the same set of views over all runs and over the runs without a *)
Theorem C13_isolation_views : forall g a b v,
  a <> b -> wc_close g = false -> init_guarded g = true ->
  ((exists sched, view b (trace g sched) = v) <->
   (exists sched, absent g a sched /\ view b (trace g sched) = v)).
Proof. exact isolation_views. Qed.
Print Assumptions C13_isolation_views.

(* the two finding classes are independent: the F17 witness has no worker-side send_continue,
   the F18 witnesses have no set-up fault *)
Theorem C13_classes_disjoint :
  no_wcont (trace wcfg w_listener) /\ no_setup_fault (trace wcfg w_once) /\ no_setup_fault (trace wcfg w_loop).
Proof.
  split; [exact (proj1 listener_refuted_w)|split; [exact (proj1 once_refuted_w)|exact (proj1 loop_refuted_w)]].
Qed.
Print Assumptions C13_classes_disjoint.

(* the hypotheses of the partial theorems are satisfiable by executions that do fault and tear
   down: a connection is accepted, a request is served, the client resets, the I/O thread closes *)
Definition ex_sched : list choice :=
  [(IO, ANone); (IO, ANone); (IO, ASel [FL] [] []); (IO, ANone); (IO, AAcc (AccConn A)); (IO, ACall None);
   (IO, ANone); (IO, ACall None); (IO, ACall None); (IO, ANone); (IO, ANone);
   (IO, ANone); (IO, ANone); (IO, ASel [FC A] [] []); (IO, ANone); (IO, ANone);
   (IO, ARecv (RErr ECONNRESET));
   (IO, ANone); (IO, ANone); (IO, ABufLen 0); (IO, ANone); (IO, ANone); (IO, ANone); (IO, ANone);
   (IO, ANone); (IO, ANone); (IO, ANone); (IO, ANone); (IO, ANone); (IO, ANone); (IO, ANone); (IO, ANone); (IO, ANone)].
Example ex_partial_nontrivial :
  no_wcont (trace wcfg ex_sched) /\ no_setup_fault (trace wcfg ex_sched) /\
  closes A (trace wcfg ex_sched) = 1 /\ In (LClose IO A) (trace wcfg ex_sched) /\
  in_map (getc (run wcfg ex_sched) A) = false /\ listener_ok (run wcfg ex_sched).
Proof.
  split; [apply no_wcontb_spec; vm_compute; reflexivity|].
  split; [apply no_setup_faultb_spec; vm_compute; reflexivity|].
  vm_compute. intuition.
Qed.
