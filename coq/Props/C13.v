(* Props/C13.v -- "Client faults are contained; teardown happens once, on the
   I/O thread only", over Model/ChanFault.v: the socket map {listener, trigger,
   channel A, channel B}, the I/O thread, one worker per channel and an
   environment that answers every recv / send / accept / getsockopt / setsockopt /
   setblocking / select with a normal result, EOF or an errno, at every step.
   Every theorem quantifies over ALL schedules (all interleavings, all lengths,
   all fault placements) and over the configuration g (lookahead, send_bytes,
   high watermark, send-buffer size, select or poll).

   Two findings of the real code bound what can be proved: F17 (channel
   construction outside handle_accept's try) and F18 (worker-side
   send_continue() with do_close=True).  For each affected statement the full
   form is refuted by a concrete schedule and proved outside the finding's class. *)
From Coq Require Import List Arith Bool.
From WV Require Import Model.ChanFault Proof.ChanFaultSpec Proof.ChanFaultWorkers Proof.ChanFaultListener
                       Proof.ChanFaultOnce Proof.ChanFaultWitness Proof.ChanFaultIso.
Import ListNotations.

(* the full statements (g ranges over all configurations, the code as it is -- wc_close g = true,
   init_guarded g = false -- among them) *)
Definition C13_loop_full : Prop := forall g sched, loop_ok (trace g sched).
Definition C13_listener_full : Prop := forall g sched, listener_ok (run g sched).
Definition C13_once_full : Prop := forall g sched, once_ok (run g sched) (trace g sched).

(* no worker is ever killed: full strength *)
Theorem C13_workers : forall g sched, workers_ok (trace g sched).
Proof. exact workers_never_die. Qed.
Print Assumptions C13_workers.

(* the loop never dies -- outside F18 *)
Theorem C13_loop_partial : forall g sched, no_wcont (trace g sched) -> loop_ok (trace g sched).
Proof. exact loop_partial. Qed.
Print Assumptions C13_loop_partial.

(* ... and inside F18 it does: a worker closes the descriptor between the I/O thread's
   readable()/writable() pass and its select() call *)
Theorem C13_loop_refuted : ~ C13_loop_full.
Proof. intro H. destruct loop_refuted_w as [_ N]. apply N. apply H. Qed.
Print Assumptions C13_loop_refuted.

(* the listener and its trigger stay in the map -- outside F17 *)
Theorem C13_listener_partial : forall g sched, no_setup_fault (trace g sched) -> listener_ok (run g sched).
Proof. exact listener_partial. Qed.
Print Assumptions C13_listener_partial.

(* with the repair of F17 (channel construction inside handle_accept's try): every execution *)
Theorem C13_listener_repaired : forall g sched, init_guarded g = true -> listener_ok (run g sched).
Proof. exact listener_repaired. Qed.
Print Assumptions C13_listener_repaired.

Theorem C13_listener_refuted : ~ C13_listener_full.
Proof. intro H. destruct listener_refuted_w as [_ N]. apply N. apply H. Qed.
Print Assumptions C13_listener_refuted.

(* torn down once, by the I/O thread only, everything released -- outside F18 *)
Theorem C13_once_partial : forall g sched, no_wcont (trace g sched) -> once_ok (run g sched) (trace g sched).
Proof. exact once_partial. Qed.
Print Assumptions C13_once_partial.

(* with the repair of F18 (do_close=False on the worker's path to _flush_some): every execution *)
Theorem C13_once_repaired : forall g sched, wc_close g = false -> once_ok (run g sched) (trace g sched).
Proof. exact once_repaired. Qed.
Print Assumptions C13_once_repaired.

Theorem C13_loop_repaired : forall g sched, wc_close g = false -> loop_ok (trace g sched).
Proof. exact loop_repaired. Qed.
Print Assumptions C13_loop_repaired.

Theorem C13_once_refuted : ~ C13_once_full.
Proof. intro H. destruct once_refuted_w as [_ N]. apply N. apply H. Qed.
Print Assumptions C13_once_refuted.

(* ---- isolation: the unwinding conditions of non-interference between the two connections.
   What is NOT mechanised: their composition into one statement about two whole runs (the I/O thread
   serves both connections in turn, so which scheduled choice executes which connection's instruction
   depends on the state; the step-level facts below are the ingredients of that induction). ---- *)

(* a step that executes an instruction of connection c -- whatever the environment answers: a fault,
   EOF, anything -- changes nothing of the other connection d (record, worker), nothing of the listener
   and trigger, and emits no label of d, wire bytes included.  For ALL states. *)
Theorem C13_isolation_local : forall g s t a s' l c d,
  next_about s t c -> d <> c -> t <> W d -> step g s (t, a) = Some (s', l) ->
  getc s' d = getc s d /\ getth s' (W d) = getth s (W d) /\ srv5 s' = srv5 s /\ labels_of d l = [].
Proof. exact step_local. Qed.
Print Assumptions C13_isolation_local.

(* two-run: a reachable state and ANY state that agrees with it on connection c and c's worker (the other
   connection faulted, torn down, absent ...): the worker's step is the same -- enabledness, labels with the
   wire bytes, the record of c afterwards *)
Theorem C13_isolation_worker : forall g sched s2 c a,
  getc (run g sched) c = getc s2 c -> getth (run g sched) (W c) = getth s2 (W c) ->
  same_step c (step g (run g sched) (W c, a)) (step g s2 (W c, a)).
Proof. intros. apply worker_two_run; auto. apply wtagged_always. Qed.
Print Assumptions C13_isolation_worker.

(* two-run: two states whose I/O threads are about to execute the same instruction of connection c and that
   agree on c: same enabledness, same labels (wire bytes), same record of c afterwards, same instructions pushed *)
Theorem C13_isolation_io : forall g s1 s2 c a i r1 r2,
  raising (getth s1 IO) = None -> raising (getth s2 IO) = None ->
  stk (getth s1 IO) = i :: r1 -> stk (getth s2 IO) = i :: r2 -> about c i = true ->
  getc s1 c = getc s2 c -> locals (getth s1 IO) = locals (getth s2 IO) ->
  match step g s1 (IO, a), step g s2 (IO, a) with
  | Some (s1', l1), Some (s2', l2) =>
      getc s1' c = getc s2' c /\ l1 = l2 /\ raising (getth s1' IO) = raising (getth s2' IO) /\
      locals (getth s1' IO) = locals (getth s2' IO) /\
      exists push, stk (getth s1' IO) = push ++ r1 /\ stk (getth s2' IO) = push ++ r2
  | None, None => True
  | _, _ => False
  end.
Proof. exact io_two_run. Qed.
Print Assumptions C13_isolation_io.

(* ... and whether c is asked about in select's lists depends on c only *)
Theorem C13_isolation_poll : forall g s1 s2 c, getc s1 c = getc s2 c ->
  mem_fd (FC c) (asked_r g s1) = mem_fd (FC c) (asked_r g s2) /\
  mem_fd (FC c) (asked_w s1) = mem_fd (FC c) (asked_w s2).
Proof. exact poll_two_run. Qed.
Print Assumptions C13_isolation_poll.

(* the two finding classes are independent: the F17 witness has no worker-side send_continue,
   the F18 witnesses have no set-up fault *)
Theorem C13_classes_disjoint :
  no_wcont (trace wcfg w_listener) /\ no_setup_fault (trace wcfg w_once) /\ no_setup_fault (trace wcfg w_loop).
Proof.
  split; [exact (proj1 listener_refuted_w)|split; [exact (proj1 once_refuted_w)|exact (proj1 loop_refuted_w)]].
Qed.
Print Assumptions C13_classes_disjoint.

(* the hypotheses of the partial theorems are satisfiable by executions that do fault and tear
   down: a connection is accepted, a request is served, the client resets, the I/O thread closes *)
Definition ex_sched : list choice :=
  [(IO, ANone); (IO, ANone); (IO, ASel [FL] [] []); (IO, ANone); (IO, AAcc (AccConn A)); (IO, ACall None);
   (IO, ANone); (IO, ACall None); (IO, ACall None); (IO, ANone); (IO, ANone);
   (IO, ANone); (IO, ANone); (IO, ASel [FC A] [] []); (IO, ANone); (IO, ANone);
   (IO, ARecv (RErr ECONNRESET));
   (IO, ANone); (IO, ANone); (IO, ABufLen 0); (IO, ANone); (IO, ANone); (IO, ANone); (IO, ANone);
   (IO, ANone); (IO, ANone); (IO, ANone); (IO, ANone); (IO, ANone); (IO, ANone); (IO, ANone); (IO, ANone); (IO, ANone)].
Example ex_partial_nontrivial :
  no_wcont (trace wcfg ex_sched) /\ no_setup_fault (trace wcfg ex_sched) /\
  closes A (trace wcfg ex_sched) = 1 /\ In (LClose IO A) (trace wcfg ex_sched) /\
  in_map (getc (run wcfg ex_sched) A) = false /\ listener_ok (run wcfg ex_sched).
Proof.
  split; [apply no_wcontb_spec; vm_compute; reflexivity|].
  split; [apply no_setup_faultb_spec; vm_compute; reflexivity|].
  vm_compute. intuition.
Qed.
