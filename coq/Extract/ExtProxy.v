From Coq Require Import List NArith ZArith ExtrOcamlBasic.
From WV Require Import Lib.PyBytes Lib.PyStrProxy Model.Proxy Spec.ProxySpec.
Extraction "model.ml" serve middleware installed undquote strip_brackets unescape py_lastk strip mid
  pick_index bad_quoting bad_client empty_host addr_text port_text unbracket first_nonempty
  cat_list_quoting cat_single_quoting cat_several_values pair_bad element_bad cat_forwarded cat_scheme
  is_proxy_key N.add N.mul.
