From Coq Require Import List NArith ZArith ExtrOcamlBasic.
From WV Require Import Lib.PyBytes Lib.Regex Spec.Grammar Spec.Ref9112.
Extraction "model.ml" ref_run_dev ref_run delivered_view ref_chunked framing_of head_fields combined
  close_after_of no_devs N.add N.mul.
