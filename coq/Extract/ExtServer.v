From Coq Require Import List ZArith NArith ExtrOcamlBasic.
From WV Require Import Gen.GenPreds Model.Server.
Extraction "model.ml" step init map_fds map_len gen_chan_readable gen_chan_writable gen_hw_flush gen_hw_after gen_maint_cutoff gen_maint_test gen_srv_readable gen_poll_r gen_poll_w gen_poll_e gen_poll_dispatch gen_poll2_reg gen_readwrite N.add N.mul.
