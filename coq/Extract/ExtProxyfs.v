From Coq Require Import List NArith ZArith ExtrOcamlBasic.
From WV Require Import Lib.PyBytes Lib.PyStrProxy Spec.ProxySpec.
Extraction "model.ml" refusal_reason category_header fwd_active spec_out select wf_headers syntax_reason
  lower_latin1 strip field_value bad_quoting is_digit N.add N.mul.
