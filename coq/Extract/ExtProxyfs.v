From Coq Require Import List NArith ZArith ExtrOcamlBasic.
From WV Require Import Lib.PyBytes Lib.PyStrProxy Spec.ProxySpec.
Extraction "model.ml" refusal_reason category_header fwd_active spec_out select wf_headers syntax_reason N.add N.mul.
