From Coq Require Import List NArith ZArith ExtrOcamlBasic.
From WV Require Import Model.ChanFlow.
Extraction "model.ml" step step_io step_w init w_parked io_blocked io_spinning io_idle quiescent client_reads bound_ok release_ok Z.add Z.sub Z.opp Z.of_nat N.add N.mul.
