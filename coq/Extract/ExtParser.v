From Coq Require Import List NArith ZArith ExtrOcamlBasic.
From WV Require Import Lib.PyBytes Lib.Regex Model.Receiver Model.UrlSplit Model.Parser Model.ChanSeq.
Extraction "model.ml" Parser.received parser_init chan_received chan_init feed
  fixed_received fixed_init chunked_received chunked_init control_line_verdict
  split_uri urlsplit unquote_to_bytes body_bytes get_header_lines crack_first_line
  N.add N.mul Z.of_N Z.to_N Z.of_nat Z.abs_N.
