From Coq Require Import List NArith ZArith ExtrOcamlBasic.
From WV Require Import Lib.PyBytes Lib.PyStrProxy Lib.Regex Model.Receiver Model.UrlSplit Model.Parser Model.Environ
  Model.Proxy Model.ProxyEnviron Spec.Pep3333 Spec.ProxySpec.
Extraction "model.ml" Parser.received parser_init get_environment environ_of serve_request
  head_parts line_name proxy_line host_line underscore_name_line ignorable kept_lines maps_to key_lines value_of_lines
  is_proxy_key proxy_keys metadata_keys
  N.add N.mul Z.of_N Z.to_N Z.of_nat Z.abs_N.
