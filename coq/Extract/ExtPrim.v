From Coq Require Import List NArith ExtrOcamlBasic.
From WV Require Import Lib.PyBytes.
Extraction "model.ml" find rfind split split1 rsplit1 partition strip_by lstrip_by rstrip_by
  is_bytes_ws is_str_ws is_sp_htab upper_ascii lower_ascii lower_latin1 split_ws join
  dec_value hex_value to_dec to_hex_upper replace_byte startswith endswith last_k N.add N.mul.
