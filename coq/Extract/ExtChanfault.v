From Coq Require Import List Arith NArith ExtrOcamlBasic.
From WV Require Import Model.ChanFault Proof.ChanFaultSpec.
Extraction "model.ml" step init getc getth wants is_yield next_instr asked_r asked_w loop_okb workers_okb listener_okb once_okb io_onlyb closes releasedb no_wcontb no_setup_faultb N.add N.mul.
