From Coq Require Import List NArith ExtrOcamlBasic.
From WV Require Import Lib.Regex Lib.RegexDec Gen.GenRegex Spec.Grammar.
Extraction "model.ml" matches witness
  gate_chunk_size gate_chunk_ext gate_content_length gate_header_field gate_request_line gate_quoted_string
  spec_chunk_size spec_chunk_ext spec_content_length spec_header_field spec_request_line N.add N.mul.
