From Coq Require Import List NArith ZArith ExtrOcamlBasic.
From WV Require Import Lib.PyBytes Gen.GenAdjust Model.Adjust Spec.AdjustCli.
Extraction "model.ml" cast_value construct parse_args cli_construct getopt
  excl excl_names proxy_refused proxy_count_defaulted proxy_headers_defaulted
  families_refused families_value check_sockets middleware_installed hostport_override
  params cli_long_opts cli_mangle cli_unmangle docs_args help_opts truthy known_proxy_headers
  splitlines aslist_str parse_int memstr N.add N.mul
  scan keyword_form has_help has_call choose_app resolve option_table
  class_defaults docs_defaults help_defaults runner_rst_defaults
  docs_proxy_headers help_proxy_headers runner_rst_proxy_headers.
