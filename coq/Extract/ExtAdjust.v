From Coq Require Import List NArith ZArith ExtrOcamlBasic.
From WV Require Import Lib.PyBytes Gen.GenAdjust Model.Adjust.
Extraction "model.ml" cast_value construct parse_args cli_construct getopt
  excl excl_names proxy_refused proxy_count_defaulted proxy_headers_defaulted
  families_refused families_value check_sockets middleware_installed hostport_override
  params cli_long_opts cli_mangle cli_unmangle docs_args help_opts truthy known_proxy_headers
  splitlines aslist_str parse_int memstr N.add N.mul.
