From Coq Require Import List NArith ZArith ExtrOcamlBasic.
From WV Require Import Model.ChanWake Proof.ChanWakeInv.
Extraction "model.ml" step init quiescent c05_ok io_enabled w_enabled is_env no_pending_output no_unserved_request no_producer_parked closing_closed parked_after_close inv_ok quiescent_parked quiescent_app app_ok N.add N.mul.
