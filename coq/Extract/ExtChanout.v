From Coq Require Import List NArith ZArith ExtrOcamlBasic.
From WV Require Import Lib.PyBytes Model.Buffers Model.ChanOut.
Extraction "model.ml" cstep chan_new b_len ro_init ro_prepare written_by N.add N.mul.
