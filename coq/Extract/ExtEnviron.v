From Coq Require Import List NArith ZArith ExtrOcamlBasic.
From WV Require Import Lib.PyBytes Lib.Regex Model.Receiver Model.UrlSplit Model.Parser Model.Environ Spec.Pep3333.
Extraction "model.ml" Parser.received parser_init get_environment upper_str environ_path
  spec_environ spec_header pct_decode raw_path raw_query path_info collapse
  N.add N.mul Z.of_N Z.to_N Z.of_nat Z.abs_N.
