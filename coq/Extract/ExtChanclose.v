From Coq Require Import List Arith NArith Bool ExtrOcamlBasic.
From WV Require Import Model.ChanClose.
Extraction "model.ml" step init monitor mon_step mon0 covered all_kinds N.add N.mul.
