From Coq Require Import List NArith ZArith ExtrOcamlBasic.
From WV Require Import Lib.PyBytes Model.Buffers Spec.Fifo.
Extraction "model.ml" step_f step o_new o_len rep_of ro_init ro_prepare ro_step fb_close fb_len q_step q_empty N.add N.mul.
