From Coq Require Import List NArith ZArith ExtrOcamlBasic.
From WV Require Import Model.ChanPipe.
Extraction "model.ml" step init io_invisible wk_invisible wire_ok transport_ok production_ok once_ok one_ok entry_ok quiescent_ok owners pending stream N.add N.mul.
