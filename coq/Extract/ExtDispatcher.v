From Coq Require Import List NArith ZArith ExtrOcamlBasic.
From WV Require Import Model.Dispatcher Spec.Pool.
Extraction "model.ml" step init quiescent is_env all_ok once_ok quiescent_ok resize_ok shutdown_done_ok N.add N.mul.
