From Coq Require Import List NArith ZArith ExtrOcamlBasic.
From WV Require Import Lib.PyBytes Gen.GenTables Model.Task Spec.ClientParse Model.HttpDate.
Extraction "model.ml" build_http_date weekdayname monthname run_task run_task_wc handler_thread py_cap py_lower py_int wire parse_one parse_stream decode_chunked N.add N.mul Z.of_N Z.to_N Z.opp.
