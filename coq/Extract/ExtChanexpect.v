From Coq Require Import List Arith NArith ZArith ExtrOcamlBasic.
From WV Require Import Model.ChanExpect.
Extraction "model.ml" ChanExpect.step ChanExpect.init ChanExpect.astep ChanExpect.fresh_req N.add N.mul Z.add.
