(* A whole-stream, non-incremental reference for HTTP/1.x request framing,
   written from RFC 9112 (and RFC 9110 section 5 for field syntax), not from
   waitress.  [ref_run c no_devs s] is the list of messages an RFC 9112
   recipient extracts from the byte stream [s], cut after the first refusal
   and after the first message that requires the connection to be closed.

   Named tolerances (granted by the RFC, documented by waitress) are part of
   the reference; named deviations ([devs]) are NOT part of it: each flag
   switches one clause to the behaviour observed in waitress and exists only
   so that the search can classify a disagreement narrowly (the class of a
   finding is "strict and deviated reference differ on this input"). *)
From Coq Require Import List NArith Bool.
From WV Require Import Lib.PyBytes Lib.Regex Spec.Grammar.
Import ListNotations.
Local Open Scope N_scope.

(* ------------------------------------------------------------------ *)
(* configuration *)

Record cfg := {
  max_header : N;            (* C06: head of this many bytes or more -> 431 *)
  max_body : N;              (* C06: body of this many bytes or more -> 413 *)
  tol_reqline_ws : bool;     (* RFC 9112 section 3 MAY: whitespace (SP HTAB VT FF bare CR) around the request line ignored *)
  tol_limit_first : bool     (* the size limit is tested before the chunk syntax: a malformed chunked body
                                followed by max_body bytes or more is a 413 instead of a 400 *)
}.

Record devs := {
  dv_trailer : bool          (* F10: trailer section not validated as field lines *)
}.

Definition no_devs : devs := {| dv_trailer := false |}.

(* ------------------------------------------------------------------ *)
(* messages and outcomes *)

Record msg := {
  m_method : bytes;
  m_target : bytes;
  m_version : bytes;                    (* "1.1", "1.0", ... ; empty when the request line has no version *)
  m_fields : list (bytes * bytes);      (* (name, value) in arrival order, as sent *)
  m_body : bytes
}.

Inductive ref_outcome :=
| Deliver (m : msg) (close_after : bool)
| Refuse (code : N)
| Incomplete.

(* ------------------------------------------------------------------ *)
(* character classes (RFC 5234 B.1, RFC 9110 5.6.2, 5.5) *)

Definition is_alpha (x : N) : bool := ((65 <=? x) && (x <=? 90)) || ((97 <=? x) && (x <=? 122)).
Definition is_dig (x : N) : bool := (48 <=? x) && (x <=? 57).
Definition is_hexdig (x : N) : bool :=
  is_dig x || ((65 <=? x) && (x <=? 70)) || ((97 <=? x) && (x <=? 102)).
(* tchar = "!" / "#" / "$" / "%" / "&" / "'" / "*" / "+" / "-" / "." / "^" / "_" / "`" / "|" / "~" / DIGIT / ALPHA *)
Definition is_tchar (x : N) : bool :=
  is_alpha x || is_dig x || (x =? 33) || ((35 <=? x) && (x <=? 39)) || (x =? 42) || (x =? 43)
  || (x =? 45) || (x =? 46) || (x =? 94) || (x =? 95) || (x =? 96) || (x =? 124) || (x =? 126).
Definition is_ows (x : N) : bool := (x =? 32) || (x =? 9).
(* field-vchar = VCHAR / obs-text ; inside a field value also SP and HTAB *)
Definition is_field_vchar (x : N) : bool := ((33 <=? x) && (x <=? 126)) || ((128 <=? x) && (x <=? 255)).
Definition is_field_char (x : N) : bool := is_ows x || is_field_vchar x.
Definition is_lower (x : N) : bool := (97 <=? x) && (x <=? 122).

Fixpoint drop_while (f : N -> bool) (s : bytes) : bytes :=
  match s with
  | x :: r => if f x then drop_while f r else s
  | [] => []
  end.
Definition trim (f : N -> bool) (s : bytes) : bytes := rev (drop_while f (rev (drop_while f s))).
Definition to_lower (s : bytes) : bytes := map (fun x => if (65 <=? x) && (x <=? 90) then x + 32 else x) s.
Definition ieq (a b : bytes) : bool := beqb (to_lower a) (to_lower b).
Definition nonempty (s : bytes) : bool := match s with [] => false | _ => true end.

(* "1.1" *)
Definition v11 : bytes := [49; 46; 49].
Definition v10 : bytes := [49; 46; 48].
Definition n_transfer_encoding : bytes := [116;114;97;110;115;102;101;114;45;101;110;99;111;100;105;110;103].
Definition n_content_length : bytes := [99;111;110;116;101;110;116;45;108;101;110;103;116;104].
Definition n_content_type : bytes := [99;111;110;116;101;110;116;45;116;121;112;101].
Definition n_host : bytes := [104;111;115;116].
Definition n_connection : bytes := [99;111;110;110;101;99;116;105;111;110].
Definition w_chunked : bytes := [99;104;117;110;107;101;100].
Definition w_close : bytes := [99;108;111;115;101].
Definition w_keep_alive : bytes := [107;101;101;112;45;97;108;105;118;101].

(* ------------------------------------------------------------------ *)
(* lines: everything up to CRLF *)

Fixpoint read_line (s acc : bytes) : option (bytes * bytes) :=
  match s with
  | [] => None
  | x :: r =>
    match r with
    | y :: r' => if (x =? 13) && (y =? 10) then Some (rev acc, r') else read_line r (x :: acc)
    | [] => None
    end
  end.

(* The head: a non-empty sequence of lines ended by an empty line.  Returns
   the lines, the rest of the stream and the number of bytes of the head
   (terminator included). *)
Fixpoint read_head (s cur : bytes) (acc : list bytes) (n : N) : option (list bytes * bytes * N) :=
  match s with
  | [] => None
  | x :: r =>
    match r with
    | y :: r' =>
      if (x =? 13) && (y =? 10) then
        match cur, acc with
        | [], _ :: _ => Some (rev acc, r', n + 2)
        | _, _ => read_head r' [] (rev cur :: acc) (n + 2)
        end
      else read_head r (x :: cur) acc (n + 1)
    | [] => None
    end
  end.

(* ------------------------------------------------------------------ *)
(* request-line = method SP request-target [ SP "HTTP/" DIGIT "." DIGIT ]
   (specification decisions shared with C10: the version is optional; the
   method is a token without lower-case letters; the target is 1*(octet
   except SP CR LF), ASCII, with a balanced IP-literal when absolute) *)

Definition is_rl_ws (x : N) : bool := (x =? 32) || (x =? 9) || (x =? 11) || (x =? 12) || (x =? 13).
Definition is_py_ws (x : N) : bool := ((9 <=? x) && (x <=? 13)) || (x =? 32).

Fixpoint split_on (c : N) (s cur : bytes) : list bytes :=
  match s with
  | [] => [rev cur]
  | x :: r => if x =? c then rev cur :: split_on c r [] else split_on c r (x :: cur)
  end.

Definition method_ok (m : bytes) : bool :=
  nonempty m && forallb (fun x => is_tchar x && negb (is_lower x)) m.

Definition is_scheme_ch (x : N) : bool := is_alpha x || is_dig x || (x =? 43) || (x =? 45) || (x =? 46).

(* the authority of an absolute-form target: after scheme "://" up to "/", "?" or "#" *)
Fixpoint take_until (f : N -> bool) (s : bytes) : bytes :=
  match s with
  | x :: r => if f x then [] else x :: take_until f r
  | [] => []
  end.
Definition authority_of (t : bytes) : option bytes :=
  let sch := take_until (fun x => x =? 58) t in
  match sch with
  | c :: _ =>
    if is_alpha c && forallb is_scheme_ch sch then
      match skipn (length sch) t with
      | 58 :: 47 :: 47 :: r => Some (take_until (fun x => (x =? 47) || (x =? 63) || (x =? 35)) r)
      | _ => None
      end
    else None
  | [] => None
  end.

(* request-target = 1*( VCHAR / obs-text ): no SP, no control character *)
Definition target_byte (x : N) : bool := (33 <=? x) && negb (x =? 127).
Definition target_shape (t : bytes) : bool :=
  nonempty t && forallb target_byte t.

(* ... of which only ASCII targets with a balanced IP-literal are URIs (RFC 3986) *)
Definition target_policy (t : bytes) : bool :=
  forallb (fun x => x <? 128) t
  && match authority_of t with
     | Some a => Bool.eqb (memb 91 a) (memb 93 a)
     | None => true
     end.

(* "HTTP/" DIGIT "." DIGIT  ->  DIGIT "." DIGIT *)
Definition version_of (v : bytes) : option bytes :=
  match v with
  | [h; t1; t2; p; sl; a; dot; b] =>
    if (h =? 72) && (t1 =? 84) && (t2 =? 84) && (p =? 80) && (sl =? 47) && is_dig a && (dot =? 46) && is_dig b
    then Some [a; 46; b] else None
  | _ => None
  end.

(* the grammar of the line: method SP target [ SP version ] *)
Definition request_line_shape (line : bytes) : option (bytes * bytes * bytes) :=
  match split_on 32 line [] with
  | [m; t] => if method_ok m && target_shape t then Some (m, t, []) else None
  | [m; t; v] =>
    if method_ok m && target_shape t then
      match version_of v with Some ver => Some (m, t, ver) | None => None end
    else None
  | _ => None
  end.

Definition parse_request_line (line : bytes) : option (bytes * bytes * bytes) :=
  match request_line_shape line with
  | Some (m, t, v) => if target_policy t then Some (m, t, v) else None
  | None => None
  end.

(* what is done to the raw first line before it is parsed *)
Definition prepare_request_line (c : cfg) (line : bytes) : bytes :=
  if tol_reqline_ws c then trim is_rl_ws line else line.

(* leading lines that are ignored: empty lines (RFC 9112 2.2) *)
Fixpoint drop_leading (ls : list bytes) : list bytes :=
  match ls with
  | l :: r => if nonempty l then ls else drop_leading r
  | [] => []
  end.

(* ------------------------------------------------------------------ *)
(* field lines (RFC 9112 5):  field-line = field-name ":" OWS field-value OWS,
   checked character by character.  obs-fold (a line starting with SP / HTAB)
   is accepted by joining it to the line before (named tolerance). *)

Definition has_crlf_byte (l : bytes) : bool := existsb (fun x => (x =? 13) || (x =? 10)) l.

Fixpoint unfold_lines (ls : list bytes) (pending : option bytes) : option (list bytes) :=
  match ls with
  | [] => Some (match pending with Some p => [p] | None => [] end)
  | l :: rest =>
    if has_crlf_byte l then None
    else
      match l with
      | c :: _ =>
        if is_ows c then
          match pending with
          | Some p => unfold_lines rest (Some (p ++ l))
          | None => None
          end
        else
          match unfold_lines rest (Some l) with
          | Some out => Some (match pending with Some p => p :: out | None => out end)
          | None => None
          end
      | [] => None
      end
  end.

Fixpoint split_colon (s name : bytes) : option (bytes * bytes) :=
  match s with
  | [] => None
  | x :: r => if x =? 58 then Some (rev name, r) else split_colon r (x :: name)
  end.

Definition parse_field_line (l : bytes) : option (bytes * bytes) :=
  match split_colon l [] with
  | None => None
  | Some (name, rest) =>
    if nonempty name && forallb is_tchar name && forallb is_field_char rest
    then Some (name, trim is_ows rest) else None
  end.

Fixpoint parse_fields (ls : list bytes) : option (list (bytes * bytes)) :=
  match ls with
  | [] => Some []
  | l :: rest =>
    match parse_field_line l, parse_fields rest with
    | Some f, Some fs => Some (f :: fs)
    | _, _ => None
    end
  end.

(* named tolerance: a field whose name contains "_" is dropped *)
Definition drop_underscore (fs : list (bytes * bytes)) : list (bytes * bytes) :=
  filter (fun f => negb (memb 95 (fst f))) fs.

(* RFC 9110 5.3: field lines with the same name are combined, in order, with
   ", ".  Names are case-insensitive: they are normalised to upper case with "-"
   written "_" (the CGI form in which they are handed on; injective up to case
   because names containing "_" have been dropped). *)
Definition norm_name (n : bytes) : bytes :=
  map (fun x => if x =? 45 then 95 else if is_lower x then x - 32 else x) n.

Definition K_TE : bytes := norm_name n_transfer_encoding.
Definition K_CL : bytes := norm_name n_content_length.
Definition K_CT : bytes := norm_name n_content_type.
Definition K_HOST : bytes := norm_name n_host.
Definition K_CONN : bytes := norm_name n_connection.

(* fields that must not be repeated (RFC 9112 3.2 Host, 6.3 Content-Length; Content-Type by decision) *)
Definition is_single_key (k : bytes) : bool := beqb k K_HOST || beqb k K_CL || beqb k K_CT.

Fixpoint no_repeated_single (seen : list bytes) (fs : list (bytes * bytes)) : bool :=
  match fs with
  | [] => true
  | (n, _) :: r =>
    let k := norm_name n in
    if is_single_key k && existsb (beqb k) seen then false
    else no_repeated_single (k :: seen) r
  end.

(* the field section of a head: None = refuse 400 *)
Definition head_fields (ls : list bytes) : option (list (bytes * bytes)) :=
  match unfold_lines ls None with
  | None => None
  | Some joined =>
    match parse_fields joined with
    | None => None
    | Some fs => let fs' := drop_underscore fs in
                 if no_repeated_single [] fs' then Some fs' else None
    end
  end.

Fixpoint combine_add (d : list (bytes * bytes)) (k v : bytes) : list (bytes * bytes) :=
  match d with
  | [] => [(k, v)]
  | (k', v') :: r => if beqb k k' then (k', v' ++ [44; 32] ++ v) :: r else (k', v') :: combine_add r k v
  end.
Definition combined (fs : list (bytes * bytes)) : list (bytes * bytes) :=
  fold_left (fun d f => combine_add d (norm_name (fst f)) (snd f)) fs [].

Fixpoint lookup (d : list (bytes * bytes)) (k : bytes) : option bytes :=
  match d with
  | [] => None
  | (k', v) :: r => if beqb k k' then Some v else lookup r k
  end.
Fixpoint remove (d : list (bytes * bytes)) (k : bytes) : list (bytes * bytes) :=
  match d with
  | [] => []
  | (k', v) :: r => if beqb k k' then r else (k', v) :: remove r k
  end.

(* ------------------------------------------------------------------ *)
(* framing, RFC 9112 section 6.3, clause by clause *)

Inductive framing :=
| FrNone                   (* no body *)
| FrLength (n : N)
| FrChunked
| FrRefuse (code : N).

(* #token list: elements separated by ",", OWS around elements, empty elements ignored (RFC 9110 5.6.1) *)
Definition list_elems (v : bytes) : list bytes :=
  filter nonempty (map (fun e => to_lower (trim is_ows e)) (split_on 44 v [])).

Definition max_cl_digits : N := 4300.    (* a longer Content-Length is refused (RFC 9112 6.3: prevent conversion overflows) *)

Definition content_length_of (v : bytes) : option N :=
  if nonempty v && forallb is_dig v && (lenN v <=? max_cl_digits) then Some (dec_value v) else None.

(* [dict] is the combined field section *)
Definition framing_of (version : bytes) (dict : list (bytes * bytes)) : framing :=
  let te := if beqb version v11
            then match lookup dict K_TE with Some v => list_elems v | None => [] end
            else [] in
  match te with
  | _ :: _ =>
    (* 6.3 clause 3/4: Transfer-Encoding present (and overrides Content-Length) *)
    match te with
    | [e] => if beqb e w_chunked then FrChunked else FrRefuse 501
    | _ => FrRefuse 501
    end
  | [] =>
    match lookup dict K_CL with
    | None => FrNone                                           (* 6.3 clause 7 (request): no body *)
    | Some v =>
      match content_length_of v with                           (* 6.3 clause 5/6 *)
      | Some 0 => FrNone
      | Some n => FrLength n
      | None => FrRefuse 400
      end
    end
  end.

(* must the connection be closed after this message (RFC 9112 6.1, 6.3 clause 3, 9.3, 9.6) *)
Definition has_option (w : bytes) (v : bytes) : bool := existsb (fun e => beqb e w) (list_elems v).

Definition close_after_of (version : bytes) (dict : list (bytes * bytes)) : bool :=
  let conn := match lookup dict K_CONN with Some v => v | None => [] end in
  if beqb version v11 then
    has_option w_close conn
    || (match framing_of version dict with FrChunked => true | _ => false end
        && match lookup dict K_CL with Some _ => true | None => false end)
  else
    (* not HTTP/1.1: persistent only on an explicit keep-alive (taken conservatively: the sole option) *)
    negb (beqb (to_lower conn) w_keep_alive)
    || match lookup dict K_TE with Some _ => true | None => false end.

(* the field section as handed on (RFC 9112 7.1 decoding algorithm): chunked
   is removed from Transfer-Encoding and Content-Length set to the decoded length *)
Definition delivered_dict (version : bytes) (dict : list (bytes * bytes)) (fr : framing) (body : bytes)
  : list (bytes * bytes) :=
  let d1 := if beqb version v11 then remove dict K_TE else dict in
  match fr with
  | FrChunked => remove d1 K_CL ++ [(K_CL, to_dec (lenN body))]
  | _ => d1
  end.

(* ------------------------------------------------------------------ *)
(* chunked body (RFC 9112 7.1), recursive descent over the rest of the stream *)

Inductive chunked_result :=
| ChDone (body rest : bytes)
| ChBad (examined : N)        (* malformed; [examined] = bytes a limit-first recipient has looked at *)
| ChIncomplete.

(* chunk-size [ chunk-ext ]:  1*HEXDIG *( ";" name [ "=" val ] ) *)
Definition parse_chunk_line (line : bytes) : option N :=
  let size := take_until (fun x => x =? 59) line in
  let ext := skipn (length size) line in
  if nonempty size && forallb is_hexdig size && matches spec_chunk_ext ext
  then Some (hex_value size) else None.

(* position just after the first CRLF CRLF *)
Definition lf_cr_lf (r : bytes) : bool :=
  match r with
  | a :: b :: c :: _ => (a =? 10) && (b =? 13) && (c =? 10)
  | _ => false
  end.
Fixpoint after_double_crlf (s : bytes) (n : N) : option N :=
  match s with
  | [] => None
  | x :: r => if (x =? 13) && lf_cr_lf r then Some (n + 4) else after_double_crlf r (n + 1)
  end.

(* trailer-section = *( field-line CRLF ), then the empty line *)
Fixpoint read_trailer (fuel : nat) (d : devs) (s : bytes) : option (option bytes) :=
  (* None = incomplete; Some None = malformed; Some (Some rest) = done *)
  match fuel with
  | O => None
  | S f =>
    match read_line s [] with
    | None => None
    | Some (l, rest) =>
      match l with
      | [] => Some (Some rest)
      | _ => if dv_trailer d then read_trailer f d rest
             else if has_crlf_byte l then Some None
             else match parse_field_line l with
                  | Some _ => read_trailer f d rest
                  | None => Some None
                  end
      end
    end
  end.

Fixpoint read_chunks (fuel : nat) (d : devs) (s : bytes) (total : N) (acc : bytes) : chunked_result :=
  match fuel with
  | O => ChIncomplete
  | S f =>
    match read_line s [] with
    | None => ChIncomplete
    | Some (line, rest) =>
      match line with
      | [] => ChBad total
      | _ =>
        match parse_chunk_line line with
        | None => ChBad total
        | Some 0 =>
          match read_trailer (S (length rest)) d rest with
          | None => ChIncomplete
          | Some None => ChBad total
          | Some (Some rest') => ChDone acc rest'
          end
        | Some n =>
          let k := N.to_nat n in
          let data := firstn k rest in
          let after := skipn k rest in
          if Nat.ltb (length data) k then ChIncomplete
          else
            match after with
            | a :: b :: rest' =>
              if (a =? 13) && (b =? 10) then read_chunks f d rest' total (acc ++ data)
              else
                (* chunk data not followed by CRLF *)
                ChBad (match after_double_crlf after 0 with
                       | Some p => total - lenN after + p
                       | None => total
                       end)
            | _ => ChIncomplete
            end
        end
      end
    end
  end.

Definition ref_chunked (d : devs) (s : bytes) : chunked_result :=
  read_chunks (S (length s)) d s (lenN s) [].

(* ------------------------------------------------------------------ *)
(* the whole stream *)

Definition mk_msg (m t v : bytes) (fs : list (bytes * bytes)) (body : bytes) : msg :=
  {| m_method := m; m_target := t; m_version := v; m_fields := fs; m_body := body |}.

Fixpoint ref_loop (fuel : nat) (c : cfg) (d : devs) (s : bytes) : list ref_outcome :=
  match fuel with
  | O => []
  | S f =>
    match s with
    | [] => []
    | _ :: _ =>
      match read_head s [] [] 0 with
      | None => if max_header c <=? lenN s then [Refuse 431] else [Incomplete]
      | Some (lines, rest, n) =>
        if max_header c <=? n then [Refuse 431]
        else
          match drop_leading lines with
          | [] => ref_loop f c d rest                 (* only empty lines: ignored (RFC 9112 2.2) *)
          | rl :: flines =>
            match head_fields flines with
            | None => [Refuse 400]
            | Some fs =>
              match parse_request_line (prepare_request_line c rl) with
              | None => [Refuse 400]
              | Some (m, t, v) =>
                let dict := combined fs in
                let close := close_after_of v dict in
                let continue (o : ref_outcome) (rest' : bytes) :=
                  o :: (if close then [] else ref_loop f c d rest') in
                match framing_of v dict with
                | FrRefuse code => [Refuse code]
                | FrNone => continue (Deliver (mk_msg m t v fs []) close) rest
                | FrLength k =>
                  if max_body c <=? k then [Refuse 413]
                  else if lenN rest <? k then [Incomplete]
                  else continue (Deliver (mk_msg m t v fs (firstn (N.to_nat k) rest)) close)
                                (skipn (N.to_nat k) rest)
                | FrChunked =>
                  match ref_chunked d rest with
                  | ChIncomplete => if max_body c <=? lenN rest then [Refuse 413] else [Incomplete]
                  | ChBad examined =>
                    if tol_limit_first c && (max_body c <=? examined) then [Refuse 413] else [Refuse 400]
                  | ChDone body rest' =>
                    if max_body c <=? lenN rest - lenN rest' then [Refuse 413]
                    else continue (Deliver (mk_msg m t v fs body) close) rest'
                  end
                end
              end
            end
          end
      end
    end
  end.

Definition ref_run_dev (c : cfg) (d : devs) (s : bytes) : list ref_outcome :=
  ref_loop (S (length s)) c d s.

Definition ref_run (c : cfg) (s : bytes) : list ref_outcome := ref_run_dev c no_devs s.

(* what a delivered message looks like when handed on: the combined field
   section with the framing fields rewritten *)
Definition delivered_view (m : msg) : list (bytes * bytes) :=
  let dict := combined (m_fields m) in
  delivered_dict (m_version m) dict (framing_of (m_version m) dict) (m_body m).
