(* Specification vocabulary for C15 / C16, written independently of the model
   (Model/Proxy.v): which hop is selected, what "pruned" means, which header
   values are malformed, what the keys are that an untrusted peer must not
   influence.  Everything here is executable so that the check can run the
   same predicates against the real middleware (search). *)
From Coq Require Import String.
From Coq Require Import List NArith ZArith Bool.
From WV Require Import Lib.PyBytes Lib.PyStrProxy Lib.Regex Spec.Grammar.
Import ListNotations.
Local Open Scope N_scope.

(* ---- hop selection ------------------------------------------------------ *)
(* 0-based index of the k-th element from the right of a list of n elements,
   the leftmost one when there are fewer than k *)
Definition pick_index (n k : nat) : nat := (n - Nat.min k n)%nat.
Definition pick {A} (l : list A) (k : nat) : option A := nth_error l (pick_index (List.length l) k).
(* the trusted suffix: the last k elements (all of them when there are fewer) *)
Definition suffix {A} (l : list A) (k : nat) : list A := skipn (pick_index (List.length l) k) l.

(* Forwarded: the oldest (leftmost) entry of the trusted suffix that carries
   the field; "" when none does *)
Fixpoint first_nonempty (l : list str) : str :=
  match l with
  | [] => []
  | x :: l' => match x with [] => first_nonempty l' | _ => x end
  end.

(* ---- quoting (RFC 9110 5.6.4) ------------------------------------------ *)
Definition dq : N := 34.
Definition starts_dq (v : str) : bool := match v with x :: _ => x =? dq | [] => false end.
Definition ends_dq (v : str) : bool := match last_opt v with Some x => x =? dq | None => false end.
(* a value that begins or ends with DQUOTE but is not a quoted-string *)
Definition bad_quoting (v : str) : bool := (starts_dq v || ends_dq v) && negb (matches quoted_string v).

(* the text denoted by the inside of a quoted-string: qdtext stands for itself,
   a quoted-pair for its second character *)
Inductive Unq : str -> str -> Prop :=
| UnqNil : Unq [] []
| UnqText : forall c s t, matches qdtext [c] = true -> Unq s t -> Unq (c :: s) (c :: t)
| UnqPair : forall c s t, matches quoted_pair [92; c] = true -> Unq s t -> Unq (92 :: c :: s) (c :: t).

(* ---- address / host text ------------------------------------------------ *)
Definition colon : N := 58.
Definition rbr : N := 93.
Definition lbr : N := 91.
Fixpoint take_until (c : N) (s : str) : str :=
  match s with [] => [] | x :: s' => if x =? c then [] else x :: take_until c s' end.
Fixpoint drop_through (c : N) (s : str) : str :=
  match s with [] => [] | x :: s' => if x =? c then s' else drop_through c s' end.
(* split at the last occurrence of c *)
Fixpoint split_last (c : N) (s : str) : option (str * str) :=
  match s with
  | [] => None
  | x :: s' =>
    match split_last c s' with
    | Some (a, b) => Some (x :: a, b)
    | None => if x =? c then Some ([], s') else None
    end
  end.
Definition before_last (c : N) (s : str) : str := match split_last c s with Some (a, _) => a | None => s end.
Definition after_last (c : N) (s : str) : str := match split_last c s with Some (_, b) => b | None => [] end.
Definition ends_with_char (c : N) (s : str) : bool := match last_opt s with Some x => x =? c | None => false end.

(* "addr:port" unless the text ends with "]" (a bracketed IPv6 literal without port) *)
Definition has_port (s : str) : bool := memb colon s && negb (ends_with_char rbr s).
Definition addr_text (s : str) : str := strip (if has_port s then before_last colon s else s).
Definition port_text (s : str) : option str := if has_port s then Some (strip (after_last colon s)) else None.
Definition unbracket (s : str) : str :=
  match s with
  | x :: _ => if (x =? lbr) && ends_with_char rbr s then removelast (tl s) else s
  | [] => []
  end.

(* F19: a non-empty client address whose address part is empty *)
Definition bad_client (c : str) : bool := truthy c && negb (truthy (addr_text c)).
(* F20: a non-empty forwarded host whose host part is empty *)
Definition host_text (h : str) : str := if has_port h then before_last colon h else h.
Definition empty_host (h : str) : bool := truthy h && negb (truthy (strip (host_text h))).

(* ---- 400 categories ------------------------------------------------------ *)
Definition comma : N := 44.
Definition semi : N := 59.
Definition eqc : N := 61.

(* list-valued header (X-Forwarded-For / -Host): some element badly quoted *)
Definition cat_list_quoting (raw : str) : bool :=
  existsb (fun h => bad_quoting (strip h)) (split raw [comma]).
(* single-valued header (X-Forwarded-Proto / -Port) *)
Definition cat_single_quoting (v : str) : bool := bad_quoting v.
Definition cat_several_values (v : str) : bool := memb comma v.

Definition t_by : str := Eval vm_compute in s2l "by".
Definition t_for : str := Eval vm_compute in s2l "for".
Definition t_host : str := Eval vm_compute in s2l "host".
Definition t_proto : str := Eval vm_compute in s2l "proto".
Definition known_token (t : str) : bool := beqb t t_by || beqb t t_for || beqb t t_host || beqb t t_proto.

(* one forwarded-pair (already lower-cased: the grammar is case-insensitive) *)
Definition pair_token (p : str) : str := take_until eqc p.
Definition pair_value (p : str) : str := drop_through eqc p.
Definition cat_pair_no_eq (p : str) : bool := truthy p && negb (memb eqc p).
Definition cat_pair_padded (p : str) : bool :=
  memb eqc p && (negb (beqb (strip (pair_token p)) (pair_token p)) || negb (beqb (strip (pair_value p)) (pair_value p))).
Definition cat_pair_quoting (p : str) : bool :=
  memb eqc p && known_token (pair_token p) && bad_quoting (pair_value p).
Definition pair_bad (p : str) : bool := cat_pair_no_eq p || cat_pair_padded p || cat_pair_quoting p.
Definition element_bad (el : str) : bool :=
  existsb (fun p => pair_bad (lower_latin1 p)) (split (strip el) [semi]).
Definition cat_forwarded (raw : str) : bool := existsb element_bad (split raw [comma]).

Definition t_http : str := Eval vm_compute in s2l "http".
Definition t_https : str := Eval vm_compute in s2l "https".
Definition cat_scheme (p : str) : bool :=
  truthy p && negb (beqb (lower_latin1 p) t_http || beqb (lower_latin1 p) t_https).

(* ---- keys ---------------------------------------------------------------- *)
Definition proxy_keys : list str := Eval vm_compute in
  map s2l ["HTTP_X_FORWARDED_FOR"; "HTTP_X_FORWARDED_HOST"; "HTTP_X_FORWARDED_PROTO";
           "HTTP_X_FORWARDED_PORT"; "HTTP_X_FORWARDED_BY"; "HTTP_FORWARDED"]%string.
Definition metadata_keys : list str := Eval vm_compute in
  map s2l ["REMOTE_ADDR"; "REMOTE_HOST"; "REMOTE_PORT"; "SERVER_NAME"; "SERVER_PORT";
           "HTTP_HOST"; "wsgi.url_scheme"]%string.
Definition is_proxy_key (k : str) : bool := existsb (beqb k) proxy_keys.

(* two environs agree on every key outside D *)
Definition agree_off (D : str -> bool) (e1 e2 : dict str) : Prop :=
  forall k, D k = false -> lookup k e1 = lookup k e2.

(* ============================================================================================ *)
(* C16 extension (appended): the functional specification of a trusted peer's request.           *)
(* Written without reference to the model: which request is refused and why (refusal_reason),     *)
(* which values are selected (select) and what every key of the environ handed to the             *)
(* application is (spec_out).  Proved equal to the model in Proof/ProxyConverse*.v and run against *)
(* the real middleware by checks/C16.py (S-fspec).                                                 *)
(* ============================================================================================ *)

(* ---- names ---------------------------------------------------------------------------------- *)
Definition nm_xff : str := Eval vm_compute in s2l "x-forwarded-for".
Definition nm_xfh : str := Eval vm_compute in s2l "x-forwarded-host".
Definition nm_xfproto : str := Eval vm_compute in s2l "x-forwarded-proto".
Definition nm_xfport : str := Eval vm_compute in s2l "x-forwarded-port".
Definition nm_xfby : str := Eval vm_compute in s2l "x-forwarded-by".
Definition nm_fwd : str := Eval vm_compute in s2l "forwarded".

Definition hk_xff : str := Eval vm_compute in s2l "HTTP_X_FORWARDED_FOR".
Definition hk_xfh : str := Eval vm_compute in s2l "HTTP_X_FORWARDED_HOST".
Definition hk_xfproto : str := Eval vm_compute in s2l "HTTP_X_FORWARDED_PROTO".
Definition hk_xfport : str := Eval vm_compute in s2l "HTTP_X_FORWARDED_PORT".
Definition hk_xfby : str := Eval vm_compute in s2l "HTTP_X_FORWARDED_BY".
Definition hk_fwd : str := Eval vm_compute in s2l "HTTP_FORWARDED".

Definition mk_remote_addr : str := Eval vm_compute in s2l "REMOTE_ADDR".
Definition mk_remote_host : str := Eval vm_compute in s2l "REMOTE_HOST".
Definition mk_remote_port : str := Eval vm_compute in s2l "REMOTE_PORT".
Definition mk_server_name : str := Eval vm_compute in s2l "SERVER_NAME".
Definition mk_server_port : str := Eval vm_compute in s2l "SERVER_PORT".
Definition mk_http_host : str := Eval vm_compute in s2l "HTTP_HOST".
Definition mk_url_scheme : str := Eval vm_compute in s2l "wsgi.url_scheme".

Definition p80 : str := Eval vm_compute in s2l "80".
Definition p443 : str := Eval vm_compute in s2l "443".

(* membership in trusted_proxy_headers (a set of lower-case names) *)
Definition trusts (tph : list str) (name : str) : bool := existsb (beqb name) tph.
(* the header's value, "" when it is absent *)
Definition hdr (key : str) (e : dict str) : str := match lookup key e with Some v => v | None => [] end.

(* ---- the text a (well quoted) field denotes ------------------------------------------------------ *)
(* inside of a quoted-string: a backslash and the next character stand for that character *)
Fixpoint unq_text (s : str) : str :=
  match s with
  | [] => []
  | x :: t =>
    match t with
    | c :: s' => if x =? 92 then c :: unq_text s' else x :: unq_text t
    | [] => [x]
    end
  end.
Definition field_value (v : str) : str := if starts_dq v then unq_text (mid v) else v.

(* an X-Forwarded-For element: OWS stripped, unquoted; a bare IPv6 address (colons, no dot, not
   ending in "]") is put into brackets *)
Definition dot : N := 46.
Definition xff_address (h : str) : str :=
  let v := field_value (strip h) in
  if negb (memb dot v) && memb colon v && negb (ends_with_char rbr v) then lbr :: v ++ [rbr] else v.

(* a forwarded-element: the value of the last pair name=value of THIS element (parameter names
   and values are case-folded), "" when the element has no such pair *)
Definition fwd_field (name el : str) : str :=
  fold_left (fun acc p => let q := lower_latin1 p in
                          if memb eqc q && beqb (pair_token q) name then field_value (pair_value q) else acc)
            (split (strip el) [semi]) [].

(* ---- hops ------------------------------------------------------------------------------------------ *)
Definition elements (raw : str) : list str := split raw [comma].
(* the k-th element from the right, the leftmost when there are fewer *)
Definition picked (raw : str) (k : nat) : str := match pick (elements raw) k with Some h => h | None => [] end.
(* the header handed on: the trusted suffix *)
Definition pruned (raw : str) (k : nat) : str := strip (join [comma] (suffix (elements raw) k)).
(* Forwarded: the oldest element of the trusted suffix that has the parameter *)
Definition fwd_oldest (name raw : str) (k : nat) : str :=
  first_nonempty (map (fwd_field name) (suffix (elements raw) k)).

(* ---- what is selected -------------------------------------------------------------------------------- *)
Record selection := { sel_client : str; sel_host : str; sel_proto : str; sel_port : str }.

Definition fwd_active (tph : list str) (e : dict str) : bool := trusts tph nm_fwd && truthy (hdr hk_fwd e).
Definition xf_client (tph : list str) (k : nat) (e : dict str) : str :=
  if trusts tph nm_xff then match lookup hk_xff e with Some raw => xff_address (picked raw k) | None => [] end else [].
Definition xf_host (tph : list str) (k : nat) (e : dict str) : str :=
  if trusts tph nm_xfh then match lookup hk_xfh e with Some raw => field_value (strip (picked raw k)) | None => [] end else [].
Definition xf_single (name key : str) (tph : list str) (e : dict str) : str :=
  if trusts tph name then field_value (hdr key e) else [].

Definition select (tph : list str) (k : nat) (e : dict str) : selection :=
  if fwd_active tph e then
    let raw := hdr hk_fwd e in
    {| sel_client := match fwd_oldest t_for raw k with [] => xf_client tph k e | x => x end;
       sel_host := fwd_oldest t_host raw k;
       sel_proto := fwd_oldest t_proto raw k;
       sel_port := [] |}
  else
    {| sel_client := xf_client tph k e;
       sel_host := xf_host tph k e;
       sel_proto := xf_single nm_xfproto hk_xfproto tph e;
       sel_port := xf_single nm_xfport hk_xfport tph e |}.

(* ---- when the request is refused (400), and why --------------------------------------------------------- *)
Inductive category :=
| CatXffQuoting | CatXfhQuoting
| CatProtoQuoting | CatProtoSeveral | CatPortQuoting | CatPortSeveral
| CatPairNoEq | CatPairPadded | CatPairQuoting
| CatScheme | CatEmptyHost | CatEmptyClient.

Definition orelse {A} (a b : option A) : option A := match a with Some _ => a | None => b end.
Fixpoint first_some {A B} (f : A -> option B) (l : list A) : option B :=
  match l with
  | [] => None
  | x :: l' => match f x with Some b => Some b | None => first_some f l' end
  end.

Definition list_reason (tph : list str) (name key : str) (e : dict str) (c : category) : option category :=
  if trusts tph name
  then match lookup key e with Some raw => if cat_list_quoting raw then Some c else None | None => None end
  else None.
Definition single_reason (tph : list str) (name key : str) (e : dict str) (cq cs : category) : option category :=
  if trusts tph name
  then if cat_single_quoting (hdr key e) then Some cq
       else if cat_several_values (hdr key e) then Some cs else None
  else None.
Definition pair_reason (q : str) : option category :=
  if cat_pair_no_eq q then Some CatPairNoEq
  else if cat_pair_padded q then Some CatPairPadded
  else if cat_pair_quoting q then Some CatPairQuoting else None.
Definition element_reason (el : str) : option category :=
  first_some (fun p => pair_reason (lower_latin1 p)) (split (strip el) [semi]).
Definition forwarded_reason (raw : str) : option category := first_some element_reason (elements raw).
Definition syntax_reason (tph : list str) (e : dict str) : option category :=
  orelse (list_reason tph nm_xff hk_xff e CatXffQuoting)
  (orelse (list_reason tph nm_xfh hk_xfh e CatXfhQuoting)
  (orelse (single_reason tph nm_xfproto hk_xfproto e CatProtoQuoting CatProtoSeveral)
  (orelse (single_reason tph nm_xfport hk_xfport e CatPortQuoting CatPortSeveral)
          (if fwd_active tph e then forwarded_reason (hdr hk_fwd e) else None)))).
Definition selection_reason (s : selection) : option category :=
  if cat_scheme (sel_proto s) then Some CatScheme
  else if empty_host (sel_host s) then Some CatEmptyHost
  else if bad_client (sel_client s) then Some CatEmptyClient else None.
Definition refusal_reason (tph : list str) (k : nat) (e : dict str) : option category :=
  orelse (syntax_reason tph e) (selection_reason (select tph k e)).

(* the header named in the 400 body *)
Definition hn_xff : str := Eval vm_compute in s2l "X-Forwarded-For".
Definition hn_xfh : str := Eval vm_compute in s2l "X-Forwarded-Host".
Definition hn_xfproto : str := Eval vm_compute in s2l "X-Forwarded-Proto".
Definition hn_xfport : str := Eval vm_compute in s2l "X-Forwarded-Port".
Definition hn_fwd : str := Eval vm_compute in s2l "Forwarded".
Definition hn_fwd_proto : str := Eval vm_compute in s2l "Forwarded Proto=".
Definition hn_fwd_host : str := Eval vm_compute in s2l "Forwarded Host=".
Definition category_header (fwd : bool) (c : category) : str :=
  match c with
  | CatXffQuoting => hn_xff
  | CatXfhQuoting => hn_xfh
  | CatProtoQuoting | CatProtoSeveral => hn_xfproto
  | CatPortQuoting | CatPortSeveral => hn_xfport
  | CatPairNoEq | CatPairPadded | CatPairQuoting => hn_fwd
  | CatScheme => if fwd then hn_fwd_proto else hn_xfproto
  | CatEmptyHost => if fwd then hn_fwd_host else hn_xfh
  | CatEmptyClient => if fwd then hn_fwd else hn_xff
  end.

(* what each category says about the request (the converse direction of the characterisation) *)
Definition category_holds (tph : list str) (k : nat) (e : dict str) (c : category) : bool :=
  match c with
  | CatXffQuoting => trusts tph nm_xff && match lookup hk_xff e with Some raw => cat_list_quoting raw | None => false end
  | CatXfhQuoting => trusts tph nm_xfh && match lookup hk_xfh e with Some raw => cat_list_quoting raw | None => false end
  | CatProtoQuoting => trusts tph nm_xfproto && cat_single_quoting (hdr hk_xfproto e)
  | CatProtoSeveral => trusts tph nm_xfproto && cat_several_values (hdr hk_xfproto e)
  | CatPortQuoting => trusts tph nm_xfport && cat_single_quoting (hdr hk_xfport e)
  | CatPortSeveral => trusts tph nm_xfport && cat_several_values (hdr hk_xfport e)
  | CatPairNoEq => fwd_active tph e &&
      existsb (fun el => existsb (fun p => cat_pair_no_eq (lower_latin1 p)) (split (strip el) [semi])) (elements (hdr hk_fwd e))
  | CatPairPadded => fwd_active tph e &&
      existsb (fun el => existsb (fun p => cat_pair_padded (lower_latin1 p)) (split (strip el) [semi])) (elements (hdr hk_fwd e))
  | CatPairQuoting => fwd_active tph e &&
      existsb (fun el => existsb (fun p => cat_pair_quoting (lower_latin1 p)) (split (strip el) [semi])) (elements (hdr hk_fwd e))
  | CatScheme => cat_scheme (sel_proto (select tph k e))
  | CatEmptyHost => empty_host (sel_host (select tph k e))
  | CatEmptyClient => bad_client (sel_client (select tph k e))
  end.

(* ---- the environ handed to the application, key by key --------------------------------------------------- *)
Definition default_port (scheme : str) : str :=
  if beqb scheme t_http then p80 else if beqb scheme t_https then p443 else [].
Definition final_scheme (s : selection) (e : dict str) : option str :=
  if truthy (sel_proto s) then Some (lower_latin1 (sel_proto s)) else lookup mk_url_scheme e.
(* the port known before the host is looked at: X-Forwarded-Port, else the default port of the
   forwarded scheme *)
Definition port_before_host (s : selection) : str :=
  if truthy (sel_proto s) && negb (truthy (sel_port s)) then default_port (lower_latin1 (sel_proto s)) else sel_port s.
(* a port inside the forwarded host wins *)
Definition final_port (s : selection) : str :=
  if truthy (sel_host s) && has_port (sel_host s) then after_last colon (sel_host s) else port_before_host s.
Definition port_is_default (port : str) (scheme : option str) : bool :=
  match scheme with
  | Some sc => (beqb port p80 && beqb sc t_http) || (beqb port p443 && beqb sc t_https)
  | None => false
  end.
Definition server_name_value (h : str) : str := if has_port h then strip (host_text h) else h.
(* HTTP_HOST: the forwarded host as it is when it carries a port; otherwise host:port unless the
   port is the default port of the (final) scheme, 80 for http and 443 for https *)
Definition http_host_value (s : selection) (e : dict str) : str :=
  let h := sel_host s in
  if has_port h then h
  else let p := port_before_host s in
       if truthy p && negb (port_is_default p (final_scheme s e)) then h ++ colon :: p else h.

(* which kinds are cleared as untrusted: with Forwarded trusted every X-Forwarded-* kind, otherwise
   the kinds that are not listed *)
Definition kind_untrusted (tph : list str) (name : str) : bool :=
  if trusts tph nm_fwd then negb (beqb name nm_fwd) else negb (trusts tph name).
Definition header_out (tph : list str) (k : nat) (clear : bool) (e : dict str) (name key : str) (rewritten : bool) : option str :=
  if clear && kind_untrusted tph name then None
  else match lookup key e with
       | Some raw => if rewritten then Some (pruned raw k) else Some raw
       | None => None
       end.

(* the seven metadata keys, from the selection; every other key as it is in e *)
Definition meta_out (s : selection) (e : dict str) (key : str) : option str :=
  if beqb key mk_remote_addr || beqb key mk_remote_host then
    if truthy (sel_client s) then Some (unbracket (addr_text (sel_client s))) else lookup key e
  else if beqb key mk_remote_port then
    match port_text (sel_client s) with Some p => Some p | None => lookup key e end
  else if beqb key mk_server_name then
    if truthy (sel_host s) then Some (server_name_value (sel_host s)) else lookup key e
  else if beqb key mk_server_port then
    if truthy (final_port s) then Some (final_port s) else lookup key e
  else if beqb key mk_http_host then
    if truthy (sel_host s) then Some (http_host_value s e) else lookup key e
  else if beqb key mk_url_scheme then final_scheme s e
  else lookup key e.
(* the six proxy header keys: cleared when untrusted, pruned to the trusted suffix when list-valued
   and trusted, otherwise handed on as they are *)
Definition headers_out (tph : list str) (k : nat) (clear : bool) (e : dict str) (key : str) : option str :=
  if beqb key hk_xff then header_out tph k clear e nm_xff hk_xff (trusts tph nm_xff)
  else if beqb key hk_xfh then header_out tph k clear e nm_xfh hk_xfh (trusts tph nm_xfh)
  else if beqb key hk_xfproto then header_out tph k clear e nm_xfproto hk_xfproto false
  else if beqb key hk_xfport then header_out tph k clear e nm_xfport hk_xfport false
  else if beqb key hk_xfby then header_out tph k clear e nm_xfby hk_xfby false
  else if beqb key hk_fwd then header_out tph k clear e nm_fwd hk_fwd (fwd_active tph e)
  else lookup key e.
Definition spec_out (tph : list str) (k : nat) (clear : bool) (e : dict str) (key : str) : option str :=
  if is_proxy_key key then headers_out tph k clear e key else meta_out (select tph k e) e key.

(* ---- a grammar of well-formed proxy headers (sufficient for acceptance) ---------------------------------- *)
(* characters of a node / host name: ALPHA DIGIT . - _ : [ ]  (no whitespace, no DQUOTE, no
   backslash, no comma, semicolon or "=") *)
Definition is_alnum (x : N) : bool :=
  ((48 <=? x) && (x <=? 57)) || ((65 <=? x) && (x <=? 90)) || ((97 <=? x) && (x <=? 122)).
Definition is_node_char (x : N) : bool :=
  is_alnum x || (x =? 46) || (x =? 45) || (x =? 95) || (x =? 58) || (x =? 91) || (x =? 93).
(* a node / host: non-empty, node characters, does not begin with ":" *)
Definition wf_node (s : str) : bool :=
  match s with
  | x :: _ => negb (x =? 58) && forallb is_node_char s
  | [] => false
  end.
(* bare or quoted *)
Definition wf_value (body_ok : str -> bool) (v : str) : bool :=
  if starts_dq v then ends_dq v && (2 <=? N.of_nat (List.length v)) && body_ok (mid v) else body_ok v.
(* a member of an X-Forwarded-For / X-Forwarded-Host list: OWS node OWS or OWS DQUOTE node DQUOTE OWS *)
Definition wf_list_member (el : str) : bool := wf_value wf_node (strip el).
Definition wf_list (raw : str) : bool := forallb wf_list_member (elements raw).
Definition is_scheme (s : str) : bool := beqb (lower_latin1 s) t_http || beqb (lower_latin1 s) t_https.
Definition wf_proto (v : str) : bool := match v with [] => true | _ => wf_value is_scheme v end.
Definition is_port_numeral (s : str) : bool := match s with [] => false | _ => forallb is_digit s end.
Definition wf_port (v : str) : bool := match v with [] => true | _ => wf_value is_port_numeral v end.
(* forwarded-pair: token "=" value, no whitespace anywhere; for/by: a node, host: a host,
   proto: http / https, any other parameter: a token or a quoted node; empty pairs are skipped *)
Definition is_tchar (x : N) : bool := is_alnum x || (x =? 45) || (x =? 95) || (x =? 46).
Definition wf_token (s : str) : bool := match s with [] => false | _ => forallb is_tchar s end.
Definition wf_pair (q : str) : bool :=      (* q: the pair, case-folded *)
  match q with
  | [] => true
  | _ => memb eqc q && wf_token (pair_token q) &&
         (if beqb (pair_token q) t_proto then wf_value is_scheme (pair_value q) else wf_value wf_node (pair_value q))
  end.
Definition wf_element (el : str) : bool := forallb (fun p => wf_pair (lower_latin1 p)) (split (strip el) [semi]).
Definition wf_forwarded (raw : str) : bool := forallb wf_element (elements raw).

Definition wf_headers (tph : list str) (e : dict str) : bool :=
  (negb (trusts tph nm_xff) || match lookup hk_xff e with Some raw => wf_list raw | None => true end) &&
  (negb (trusts tph nm_xfh) || match lookup hk_xfh e with Some raw => wf_list raw | None => true end) &&
  (negb (trusts tph nm_xfproto) || wf_proto (hdr hk_xfproto e)) &&
  (negb (trusts tph nm_xfport) || wf_port (hdr hk_xfport e)) &&
  (negb (fwd_active tph e) || wf_forwarded (hdr hk_fwd e)).
