(* Specification vocabulary for C15 / C16, written independently of the model
   (Model/Proxy.v): which hop is selected, what "pruned" means, which header
   values are malformed, what the keys are that an untrusted peer must not
   influence.  Everything here is executable so that the check can run the
   same predicates against the real middleware (search). *)
From Coq Require Import String.
From Coq Require Import List NArith ZArith Bool.
From WV Require Import Lib.PyBytes Lib.PyStrProxy Lib.Regex Spec.Grammar.
Import ListNotations.
Local Open Scope N_scope.

(* ---- hop selection ------------------------------------------------------ *)
(* 0-based index of the k-th element from the right of a list of n elements,
   the leftmost one when there are fewer than k *)
Definition pick_index (n k : nat) : nat := (n - Nat.min k n)%nat.
Definition pick {A} (l : list A) (k : nat) : option A := nth_error l (pick_index (List.length l) k).
(* the trusted suffix: the last k elements (all of them when there are fewer) *)
Definition suffix {A} (l : list A) (k : nat) : list A := skipn (pick_index (List.length l) k) l.

(* Forwarded: the oldest (leftmost) entry of the trusted suffix that carries
   the field; "" when none does *)
Fixpoint first_nonempty (l : list str) : str :=
  match l with
  | [] => []
  | x :: l' => match x with [] => first_nonempty l' | _ => x end
  end.

(* ---- quoting (RFC 9110 5.6.4) ------------------------------------------ *)
Definition dq : N := 34.
Definition starts_dq (v : str) : bool := match v with x :: _ => x =? dq | [] => false end.
Definition ends_dq (v : str) : bool := match last_opt v with Some x => x =? dq | None => false end.
(* a value that begins or ends with DQUOTE but is not a quoted-string *)
Definition bad_quoting (v : str) : bool := (starts_dq v || ends_dq v) && negb (matches quoted_string v).

(* the text denoted by the inside of a quoted-string: qdtext stands for itself,
   a quoted-pair for its second character *)
Inductive Unq : str -> str -> Prop :=
| UnqNil : Unq [] []
| UnqText : forall c s t, matches qdtext [c] = true -> Unq s t -> Unq (c :: s) (c :: t)
| UnqPair : forall c s t, matches quoted_pair [92; c] = true -> Unq s t -> Unq (92 :: c :: s) (c :: t).

(* ---- address / host text ------------------------------------------------ *)
Definition colon : N := 58.
Definition rbr : N := 93.
Definition lbr : N := 91.
Fixpoint take_until (c : N) (s : str) : str :=
  match s with [] => [] | x :: s' => if x =? c then [] else x :: take_until c s' end.
Fixpoint drop_through (c : N) (s : str) : str :=
  match s with [] => [] | x :: s' => if x =? c then s' else drop_through c s' end.
(* split at the last occurrence of c *)
Fixpoint split_last (c : N) (s : str) : option (str * str) :=
  match s with
  | [] => None
  | x :: s' =>
    match split_last c s' with
    | Some (a, b) => Some (x :: a, b)
    | None => if x =? c then Some ([], s') else None
    end
  end.
Definition before_last (c : N) (s : str) : str := match split_last c s with Some (a, _) => a | None => s end.
Definition after_last (c : N) (s : str) : str := match split_last c s with Some (_, b) => b | None => [] end.
Definition ends_with_char (c : N) (s : str) : bool := match last_opt s with Some x => x =? c | None => false end.

(* "addr:port" unless the text ends with "]" (a bracketed IPv6 literal without port) *)
Definition has_port (s : str) : bool := memb colon s && negb (ends_with_char rbr s).
Definition addr_text (s : str) : str := strip (if has_port s then before_last colon s else s).
Definition port_text (s : str) : option str := if has_port s then Some (strip (after_last colon s)) else None.
Definition unbracket (s : str) : str :=
  match s with
  | x :: _ => if (x =? lbr) && ends_with_char rbr s then removelast (tl s) else s
  | [] => []
  end.

(* F19: a non-empty client address whose address part is empty *)
Definition bad_client (c : str) : bool := truthy c && negb (truthy (addr_text c)).
(* F20: a non-empty forwarded host whose host part is empty *)
Definition host_text (h : str) : str := if has_port h then before_last colon h else h.
Definition empty_host (h : str) : bool := truthy h && negb (truthy (strip (host_text h))).

(* ---- 400 categories ------------------------------------------------------ *)
Definition comma : N := 44.
Definition semi : N := 59.
Definition eqc : N := 61.

(* list-valued header (X-Forwarded-For / -Host): some element badly quoted *)
Definition cat_list_quoting (raw : str) : bool :=
  existsb (fun h => bad_quoting (strip h)) (split raw [comma]).
(* single-valued header (X-Forwarded-Proto / -Port) *)
Definition cat_single_quoting (v : str) : bool := bad_quoting v.
Definition cat_several_values (v : str) : bool := memb comma v.

Definition t_by : str := Eval vm_compute in s2l "by".
Definition t_for : str := Eval vm_compute in s2l "for".
Definition t_host : str := Eval vm_compute in s2l "host".
Definition t_proto : str := Eval vm_compute in s2l "proto".
Definition known_token (t : str) : bool := beqb t t_by || beqb t t_for || beqb t t_host || beqb t t_proto.

(* one forwarded-pair (already lower-cased: the grammar is case-insensitive) *)
Definition pair_token (p : str) : str := take_until eqc p.
Definition pair_value (p : str) : str := drop_through eqc p.
Definition cat_pair_no_eq (p : str) : bool := truthy p && negb (memb eqc p).
Definition cat_pair_padded (p : str) : bool :=
  memb eqc p && (negb (beqb (strip (pair_token p)) (pair_token p)) || negb (beqb (strip (pair_value p)) (pair_value p))).
Definition cat_pair_quoting (p : str) : bool :=
  memb eqc p && known_token (pair_token p) && bad_quoting (pair_value p).
Definition pair_bad (p : str) : bool := cat_pair_no_eq p || cat_pair_padded p || cat_pair_quoting p.
Definition element_bad (el : str) : bool :=
  existsb (fun p => pair_bad (lower_latin1 p)) (split (strip el) [semi]).
Definition cat_forwarded (raw : str) : bool := existsb element_bad (split raw [comma]).

Definition t_http : str := Eval vm_compute in s2l "http".
Definition t_https : str := Eval vm_compute in s2l "https".
Definition cat_scheme (p : str) : bool :=
  truthy p && negb (beqb (lower_latin1 p) t_http || beqb (lower_latin1 p) t_https).

(* ---- keys ---------------------------------------------------------------- *)
Definition proxy_keys : list str := Eval vm_compute in
  map s2l ["HTTP_X_FORWARDED_FOR"; "HTTP_X_FORWARDED_HOST"; "HTTP_X_FORWARDED_PROTO";
           "HTTP_X_FORWARDED_PORT"; "HTTP_X_FORWARDED_BY"; "HTTP_FORWARDED"]%string.
Definition metadata_keys : list str := Eval vm_compute in
  map s2l ["REMOTE_ADDR"; "REMOTE_HOST"; "REMOTE_PORT"; "SERVER_NAME"; "SERVER_PORT";
           "HTTP_HOST"; "wsgi.url_scheme"]%string.
Definition is_proxy_key (k : str) : bool := existsb (beqb k) proxy_keys.

(* two environs agree on every key outside D *)
Definition agree_off (D : str -> bool) (e1 e2 : dict str) : Prop :=
  forall k, D k = false -> lookup k e1 = lookup k e2.
