(* An independent client-side HTTP/1.x response parser (RFC 9112): status
   line, header fields, and the message body length rules of section 6.3.
   It knows nothing of the server model; it is the specification the response
   side is proved against (C03) and it is run, extracted, on the bytes the
   real task wrote. *)
From Coq Require Import List NArith Bool.
From WV Require Import Lib.PyBytes.
Import ListNotations.
Local Open Scope N_scope.

(* one line: everything before the first CRLF *)
Fixpoint read_line (s : bytes) : option (bytes * bytes) :=
  match s with
  | [] => None
  | x :: s' =>
      if (x =? 13) && match s' with y :: _ => y =? 10 | [] => false end
      then Some ([], tl s')
      else match read_line s' with
           | Some (l, rest) => Some (x :: l, rest)
           | None => None
           end
  end.

(* lines up to and excluding the first empty line *)
Fixpoint read_lines (fuel : nat) (s : bytes) : option (list bytes * bytes) :=
  match fuel with
  | O => None
  | S f =>
      match read_line s with
      | None => None
      | Some ([], rest) => Some ([], rest)
      | Some (l, rest) =>
          match read_lines f rest with
          | Some (ls, r) => Some (l :: ls, r)
          | None => None
          end
      end
  end.

(* field-line = field-name ":" OWS field-value OWS *)
Definition parse_field (l : bytes) : option (bytes * bytes) :=
  match find l [58] with
  | None => None
  | Some i => Some (firstn i l, strip_by is_sp_htab (skipn (S i) l))
  end.

Fixpoint parse_fields (ls : list bytes) : option (list (bytes * bytes)) :=
  match ls with
  | [] => Some []
  | l :: ls' =>
      match parse_field l, parse_fields ls' with
      | Some f, Some fs => Some (f :: fs)
      | _, _ => None
      end
  end.

(* status-line = HTTP-version SP status-code SP [reason]: the three bytes after the first SP *)
Definition status_code (line : bytes) : bytes :=
  match find line [32] with
  | None => []
  | Some i => firstn 3 (skipn (S i) line)
  end.

Definition no_body_status (code : bytes) : bool :=
  match code with x :: _ => x =? 49 | [] => false end          (* 1xx *)
  || beqb code [50; 48; 52] || beqb code [51; 48; 52].        (* 204, 304 *)

Inductive framing := FNoBody | FChunked | FLength (n : N) | FEof.

Definition field_is (name : bytes) (f : bytes * bytes) : bool := beqb (lower_ascii (fst f)) name.
Definition te_name : bytes := [116;114;97;110;115;102;101;114;45;101;110;99;111;100;105;110;103].
Definition cl_name : bytes := [99;111;110;116;101;110;116;45;108;101;110;103;116;104].
Definition chunked_tok : bytes := [99;104;117;110;107;101;100].

Definition all_digits (s : bytes) : bool :=
  match s with [] => false | _ => forallb is_digit s end.

(* RFC 9112 section 6.3 *)
Definition decide_framing (is_head : bool) (status_line : bytes) (fields : list (bytes * bytes)) : option framing :=
  if is_head || no_body_status (status_code status_line) then Some FNoBody
  else
    match filter (field_is te_name) fields with
    | te :: _ =>
        if beqb (lower_ascii (snd te)) chunked_tok then Some FChunked else Some FEof
    | [] =>
        match filter (field_is cl_name) fields with
        | [] => Some FEof
        | c :: cs =>
            if all_digits (snd c) && forallb (fun d => beqb (snd d) (snd c)) cs
            then Some (FLength (dec_value (snd c)))
            else None
        end
    end.

Definition all_hex (s : bytes) : bool :=
  match s with
  | [] => false
  | _ => forallb (fun x => match hexval x with Some _ => true | None => false end) s
  end.

(* chunked-body = *chunk last-chunk trailer-section CRLF *)
Fixpoint decode_chunked (fuel : nat) (s : bytes) : option (bytes * bytes) :=
  match fuel with
  | O => None
  | S f =>
      match read_line s with
      | None => None
      | Some (szline, rest) =>
          let sz := match find szline [59] with Some i => firstn i szline | None => szline end in
          if negb (all_hex sz) then None
          else
            let n := hex_value sz in
            if n =? 0 then
              match read_lines (S (length rest)) rest with        (* trailer section *)
              | Some (_, rest') => Some ([], rest')
              | None => None
              end
            else
              if lenN rest <? n + 2 then None           (* compared in N: n may be astronomically large *)
              else
                let k := N.to_nat n in
                let data := firstn k rest in
                let after := skipn k rest in
                if negb (startswith after [13; 10]) then None
                else match decode_chunked f (skipn 2 after) with
                     | Some (body, rest') => Some (data ++ body, rest')
                     | None => None
                     end
      end
  end.

Record response := mkResponse {
  rs_status_line : bytes;
  rs_fields : list (bytes * bytes);
  rs_framing : framing;
  rs_body : bytes;
}.

(* one response from the front of the stream; None = malformed or incomplete.
   An EOF-delimited body takes everything that is left. *)
Definition parse_one (is_head : bool) (s : bytes) : option (response * bytes) :=
  match read_lines (S (length s)) s with
  | None => None
  | Some ([], _) => None
  | Some (sl :: ls, rest) =>
      match parse_fields ls with
      | None => None
      | Some fields =>
          match decide_framing is_head sl fields with
          | None => None
          | Some FNoBody => Some (mkResponse sl fields FNoBody [], rest)
          | Some FEof => Some (mkResponse sl fields FEof rest, [])
          | Some (FLength n) =>
              if lenN rest <? n then None
              else let k := N.to_nat n in
                   Some (mkResponse sl fields (FLength n) (firstn k rest), skipn k rest)
          | Some FChunked =>
              match decode_chunked (S (length rest)) rest with
              | Some (body, rest') => Some (mkResponse sl fields FChunked body, rest')
              | None => None
              end
          end
      end
  end.

(* the responses to a sequence of requests (is_head per request) found in a
   byte stream, and what is left unparsed *)
Fixpoint parse_stream (heads : list bool) (s : bytes) : list response * bytes :=
  match heads with
  | [] => ([], s)
  | h :: hs =>
      match s with
      | [] => ([], [])
      | _ =>
          match parse_one h s with
          | None => ([], s)
          | Some (r, rest) =>
              let '(rs, leftover) := parse_stream hs rest in (r :: rs, leftover)
          end
      end
  end.
