(* RFC 9110 / 9112 grammars of the framing-critical tokens, transcribed from
   the ABNF as regular expressions.  Written independently of the patterns in
   waitress (those are in Gen/GenRegex.v). *)
From Coq Require Import List NArith.
From WV Require Import Lib.Regex.
Import ListNotations.
Local Open Scope N_scope.

(* RFC 5234 core rules *)
Definition DIGIT : re := Cls [(48, 57)].
Definition HEXDIG : re := Cls [(48, 57); (65, 70); (97, 102)].     (* "A"-"F" case-insensitive *)
Definition SP : re := Sym 32.
Definition HTAB : re := Sym 9.
Definition WSP : re := Cls [(9, 9); (32, 32)].
Definition VCHAR : re := Cls [(33, 126)].
Definition DQUOTE : re := Sym 34.
Definition obs_text : re := Cls [(128, 255)].

(* RFC 9110 5.6.2:  tchar = "!" / "#" / "$" / "%" / "&" / "'" / "*" / "+" / "-" / "." /
                            "^" / "_" / "`" / "|" / "~" / DIGIT / ALPHA *)
Definition tchar : re :=
  Cls [(33,33); (35,35); (36,36); (37,37); (38,38); (39,39); (42,42); (43,43);
       (45,45); (46,46); (94,94); (95,95); (96,96); (124,124); (126,126);
       (48,57); (65,90); (97,122)].
Definition token : re := Plus tchar.
Definition OWS : re := Star WSP.

(* RFC 9110 5.6.4 *)
Definition qdtext : re := Cls [(9,9); (32,32); (33,33); (35,91); (93,126); (128,255)].
Definition quoted_pair : re := Cat (Sym 92) (Cls [(9,9); (32,32); (33,126); (128,255)]).
Definition quoted_string : re := Cat DQUOTE (Cat (Star (Alt qdtext quoted_pair)) DQUOTE).

(* Content-Length = 1*DIGIT *)
Definition spec_content_length : re := Plus DIGIT.
(* chunk-size = 1*HEXDIG *)
Definition spec_chunk_size : re := Plus HEXDIG.
(* chunk-ext = *( ";" chunk-ext-name [ "=" chunk-ext-val ] )   (as stated in C10: no BWS) *)
Definition spec_chunk_ext : re :=
  Star (Cat (Sym 59) (Cat token (Opt (Cat (Sym 61) (Alt token quoted_string))))).

(* field-line = field-name ":" OWS field-value OWS     (RFC 9112 5)
   field-value = *field-content
   field-content = field-vchar [ 1*( SP / HTAB / field-vchar ) field-vchar ]
   i.e. empty, or begins and ends with a field-vchar *)
Definition field_vchar : re := Alt VCHAR obs_text.
Definition field_value : re :=
  Opt (Cat field_vchar (Opt (Cat (Star (Alt WSP field_vchar)) field_vchar))).
Definition spec_header_field : re :=
  Cat token (Cat (Sym 58) (Cat OWS (Cat field_value OWS))).

(* request-line = method SP request-target [ SP "HTTP/" DIGIT "." DIGIT ]
   Specification decisions (DESIGN.md section 8): request-target is taken as
   1*( VCHAR / obs-text ) -- no SP, no control character (C0, DEL): RFC 9112
   section 3.2 builds the target from RFC 3986 characters; the bytes above 127
   are left to the target policy (split_uri refuses them);
   method is a token without lower-case letters (waitress deliberately refuses
   lower-case methods; all registered methods are upper-case). *)
Definition method_char : re :=
  Cls [(33,33); (35,39); (42,43); (45,46); (48,57); (65,90); (94,96); (124,124); (126,126)].
Definition target_char : re := Cls [(33,126); (128,255)].
Definition http_version : re :=
  Cat (Lit [72;84;84;80;47]) (Cat DIGIT (Cat (Sym 46) DIGIT)).
Definition spec_request_line : re :=
  Cat (Plus method_char) (Cat SP (Cat (Plus target_char) (Opt (Cat SP http_version)))).

(* strings without CR and LF -- what can reach a gate after the line splitter *)
Definition no_crlf : re := Star (Cls [(0,9); (11,12); (14,255)]).
