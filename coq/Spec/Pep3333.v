(* The WSGI environ a PEP 3333 / RFC 3875 gateway owes the application for one
   HTTP/1.x request, written from the documents and not from waitress:

     PEP 3333 "environ Variables", RFC 3875 4.1 (meta-variables), 4.1.18
     (protocol-specific meta-variables: HTTP_ + upper-cased name with "-"
     replaced by "_"; repeated fields joined by ", "), RFC 9110 5.5 (field
     values exclude leading/trailing SP / HTAB), RFC 3986 3 and 2.1 (target
     components, percent-encoding), RFC 9112 6 (the body after the framing is
     removed; a chunked body is handed on with its decoded length).

   Input: the request as a *reference* parse delivers it -- request-line
   pieces, the field lines in arrival order as (name, text after the first
   colon), the framing verdict and the body with the framing removed.  Nothing
   here mentions the parser model.

   Specification decisions (DESIGN.md section 8): field names containing "_"
   are dropped (they alias the "-" form); leading slashes of the path are
   collapsed to one before the prefix split; a target starting with "//" is an
   origin-form path, never an authority; SERVER_PROTOCOL is specified only for
   versions 1.0 and 1.1; on HTTP/1.1 Transfer-Encoding is never handed on; a
   line folded with obs-fold reaches this specification already joined (the
   CRLF removed, the white space kept). *)
From Coq Require Import List NArith Bool.
From WV Require Import Lib.PyBytes.
Import ListNotations.
Local Open Scope N_scope.

Record request := {
  rq_method : bytes;
  rq_target : bytes;
  rq_version : bytes;                 (* "1.1", "1.0", ...; [] when the request line carries no version *)
  rq_fields : list (bytes * bytes);   (* (field-name, text after the first colon), arrival order *)
  rq_chunked : bool;                  (* the body was framed by the chunked transfer coding *)
  rq_body : bytes                     (* the body, framing removed *)
}.

(* what the gateway knows by itself; every component is already a string *)
Record gateway := {
  gw_prefix : bytes;        (* mount point: "" or "/x/y" without a trailing slash *)
  gw_server_name : bytes;
  gw_server_port : bytes;
  gw_software : bytes;
  gw_remote_addr : bytes;
  gw_remote_port : bytes;
  gw_scheme : bytes
}.

Inductive sval :=
| SStr (s : bytes)          (* a native string, one code point per byte: latin-1 *)
| SVersion10                (* the tuple (1, 0) *)
| SBool (b : bool)
| SInput (data : bytes)     (* an input stream yielding exactly these bytes, then EOF *)
| SObject.                  (* an object this specification does not constrain further *)

(* ------------------------------------------------------------------ *)
(* header fields *)

Definition c_CONTENT_LENGTH : bytes := [67;79;78;84;69;78;84;95;76;69;78;71;84;72].
Definition c_CONTENT_TYPE : bytes := [67;79;78;84;69;78;84;95;84;89;80;69].
Definition c_HTTP_ : bytes := [72;84;84;80;95].
Definition c_HTTP_TRANSFER_ENCODING : bytes :=
  [72;84;84;80;95;84;82;65;78;83;70;69;82;95;69;78;67;79;68;73;78;71].
Definition c_1_0 : bytes := [49;46;48].
Definition c_1_1 : bytes := [49;46;49].

(* RFC 3875 4.1.18: upper case, "-" becomes "_" *)
Definition cgi_char (x : N) : N :=
  if x =? 45 then 95 else if (97 <=? x) && (x <=? 122) then x - 32 else x.
Definition cgi_base (name : bytes) : bytes := map cgi_char name.
Definition cgi_key (name : bytes) : bytes :=
  let b := cgi_base name in
  if beqb b c_CONTENT_LENGTH || beqb b c_CONTENT_TYPE then b else c_HTTP_ ++ b.

Definition has_underscore (name : bytes) : bool := existsb (N.eqb 95) name.

(* OWS = *( SP / HTAB ) *)
Definition ows (x : N) : bool := (x =? 32) || (x =? 9).
Fixpoint trim_left (s : bytes) : bytes :=
  match s with
  | [] => []
  | x :: s' => if ows x then trim_left s' else s
  end.
Fixpoint trim_right (s : bytes) : bytes :=
  match s with
  | [] => []
  | x :: s' =>
    match trim_right s' with
    | [] => if ows x then [] else [x]
    | t => x :: t
    end
  end.
Definition trim (s : bytes) : bytes := trim_right (trim_left s).

(* RFC 9112 5.2 obs-fold, as far as this specification goes: a line that
   begins with SP / HTAB continues the line before it (the CRLF is removed, the
   white space kept); empty lines carry nothing *)
Fixpoint gather (cur : bytes) (ls : list bytes) : list bytes :=
  match ls with
  | [] => [cur]
  | l :: ls' =>
    match l with
    | [] => gather cur ls'
    | c :: _ => if ows c then gather (cur ++ l) ls' else cur :: gather l ls'
    end
  end.
Fixpoint unfold_lines (ls : list bytes) : list bytes :=
  match ls with
  | [] => []
  | l :: ls' => match l with [] => unfold_lines ls' | _ :: _ => gather l ls' end
  end.

(* the values of the field lines that land on CGI key k, arrival order *)
Definition field_values (fields : list (bytes * bytes)) (k : bytes) : list bytes :=
  flat_map (fun nv => if negb (has_underscore (fst nv)) && beqb (cgi_key (fst nv)) k
                      then [trim (snd nv)] else []) fields.

Definition comma_sp : bytes := [44; 32].
Definition joined (vs : list bytes) : option bytes :=
  match vs with
  | [] => None
  | v :: rest => Some (v ++ concat (map (fun w => comma_sp ++ w) rest))
  end.

(* the entry of the environ under a protocol-specific key *)
Definition spec_header (rq : request) (k : bytes) : option bytes :=
  if beqb (rq_version rq) c_1_1 && beqb k c_HTTP_TRANSFER_ENCODING then None
  else if rq_chunked rq && beqb k c_CONTENT_LENGTH then Some (to_dec (lenN (rq_body rq)))
  else joined (field_values (rq_fields rq) k).

(* ------------------------------------------------------------------ *)
(* request target (RFC 3986 3; RFC 9112 3.2) *)

Definition alpha (x : N) : bool := ((65 <=? x) && (x <=? 90)) || ((97 <=? x) && (x <=? 122)).
Definition digit (x : N) : bool := (48 <=? x) && (x <=? 57).
Definition scheme_char (x : N) : bool := alpha x || digit x || (x =? 43) || (x =? 45) || (x =? 46).

(* prefix before the first character satisfying stop / the rest from that character on *)
Fixpoint until (stop : N -> bool) (s : bytes) : bytes :=
  match s with
  | [] => []
  | x :: s' => if stop x then [] else x :: until stop s'
  end.
Fixpoint from (stop : N -> bool) (s : bytes) : bytes :=
  match s with
  | [] => []
  | x :: s' => if stop x then s else from stop s'
  end.

(* s = *scheme_char ":" rest *)
Fixpoint scheme_rest (s : bytes) : option bytes :=
  match s with
  | [] => None
  | x :: s' => if x =? 58 then Some s' else if scheme_char x then scheme_rest s' else None
  end.
(* target = ALPHA *scheme_char ":" rest *)
Definition after_scheme (t : bytes) : option bytes :=
  match t with
  | x :: t' => if alpha x then scheme_rest t' else None
  | [] => None
  end.

Definition two_slashes (s : bytes) : bool :=
  match s with x :: y :: _ => (x =? 47) && (y =? 47) | _ => false end.
Definition path_end (x : N) : bool := (x =? 63) || (x =? 35).           (* "?" "#" *)
Definition auth_end (x : N) : bool := (x =? 47) || (x =? 63) || (x =? 35).

(* the target with scheme and authority removed *)
Definition hier (t : bytes) : bytes :=
  if two_slashes t then t
  else match after_scheme t with
       | Some rest => if two_slashes rest then from auth_end (skipn 2 rest) else rest
       | None => t
       end.
Definition raw_path (t : bytes) : bytes := until path_end (hier t).
Definition raw_query (t : bytes) : bytes :=
  match from path_end (hier t) with
  | x :: q => if x =? 63 then until (N.eqb 35) q else []
  | [] => []
  end.

(* RFC 3986 2.1: "%" HEXDIG HEXDIG is decoded; any other "%" stands for itself *)
Definition hexdig (x : N) : option N :=
  if digit x then Some (x - 48)
  else if (65 <=? x) && (x <=? 70) then Some (x - 55)
  else if (97 <=? x) && (x <=? 102) then Some (x - 87)
  else None.
Fixpoint pct_decode (s : bytes) : bytes :=
  match s with
  | [] => []
  | x :: rest =>
    if x =? 37 then
      match rest with
      | a :: b :: rest' =>
        match hexdig a, hexdig b with
        | Some ha, Some hb => (16 * ha + hb) :: pct_decode rest'
        | _, _ => x :: pct_decode rest
        end
      | _ => x :: pct_decode rest
      end
    else x :: pct_decode rest
  end.

(* "/" *"/" rest  ->  "/" rest *)
Fixpoint drop_slashes (s : bytes) : bytes :=
  match s with
  | x :: s' => if x =? 47 then drop_slashes s' else s
  | [] => []
  end.
Definition collapse (p : bytes) : bytes :=
  match p with
  | x :: _ => if x =? 47 then 47 :: drop_slashes p else p
  | [] => []
  end.

Fixpoint strip_prefix (pre s : bytes) : option bytes :=
  match pre, s with
  | [], _ => Some s
  | x :: pre', y :: s' => if x =? y then strip_prefix pre' s' else None
  | _ :: _, [] => None
  end.
(* SCRIPT_NAME ++ PATH_INFO is the path whenever the path lies under the mount point *)
Definition path_info (prefix p : bytes) : bytes :=
  match prefix with
  | [] => p
  | _ =>
    match strip_prefix prefix p with
    | Some [] => []
    | Some (x :: r) => if x =? 47 then x :: r else p
    | None => p
    end
  end.

Definition spec_path_info (gw : gateway) (rq : request) : bytes :=
  path_info (gw_prefix gw) (collapse (pct_decode (raw_path (rq_target rq)))).

Definition spec_protocol (rq : request) : option bytes :=
  if beqb (rq_version rq) c_1_0 || beqb (rq_version rq) c_1_1
  then Some ([72;84;84;80;47] ++ rq_version rq) else None.

(* ------------------------------------------------------------------ *)
(* the whole environ, as a finite map (the order carries no meaning) *)

Definition str (s : list N) : bytes := s.     (* only to name the literals below *)

Fixpoint nodup_keys (ks seen : list bytes) : list bytes :=
  match ks with
  | [] => []
  | k :: ks' => if existsb (beqb k) seen then nodup_keys ks' seen else k :: nodup_keys ks' (k :: seen)
  end.

Definition header_keys (rq : request) : list bytes :=
  nodup_keys ((if rq_chunked rq then [c_CONTENT_LENGTH] else [])
              ++ map (fun nv => cgi_key (fst nv)) (filter (fun nv => negb (has_underscore (fst nv))) (rq_fields rq))) [].

Definition header_entries (rq : request) : list (bytes * sval) :=
  flat_map (fun k => match spec_header rq k with Some v => [(k, SStr v)] | None => [] end) (header_keys rq).

Definition spec_environ (gw : gateway) (rq : request) : list (bytes * sval) :=
  [ (str [82;69;77;79;84;69;95;65;68;68;82], SStr (gw_remote_addr gw));                       (* REMOTE_ADDR *)
    (str [82;69;77;79;84;69;95;72;79;83;84], SStr (gw_remote_addr gw));                       (* REMOTE_HOST: no reverse lookup *)
    (str [82;69;77;79;84;69;95;80;79;82;84], SStr (gw_remote_port gw));                       (* REMOTE_PORT *)
    (str [82;69;81;85;69;83;84;95;77;69;84;72;79;68], SStr (rq_method rq));                   (* REQUEST_METHOD *)
    (str [83;69;82;86;69;82;95;80;79;82;84], SStr (gw_server_port gw));                       (* SERVER_PORT *)
    (str [83;69;82;86;69;82;95;78;65;77;69], SStr (gw_server_name gw));                       (* SERVER_NAME *)
    (str [83;69;82;86;69;82;95;83;79;70;84;87;65;82;69], SStr (gw_software gw));              (* SERVER_SOFTWARE *)
    (str [83;67;82;73;80;84;95;78;65;77;69], SStr (gw_prefix gw));                            (* SCRIPT_NAME *)
    (str [80;65;84;72;95;73;78;70;79], SStr (spec_path_info gw rq));                          (* PATH_INFO *)
    (str [82;69;81;85;69;83;84;95;85;82;73], SStr (rq_target rq));                            (* REQUEST_URI *)
    (str [81;85;69;82;89;95;83;84;82;73;78;71], SStr (raw_query (rq_target rq)));             (* QUERY_STRING *)
    (str [119;115;103;105;46;117;114;108;95;115;99;104;101;109;101], SStr (gw_scheme gw));    (* wsgi.url_scheme *)
    (str [119;115;103;105;46;118;101;114;115;105;111;110], SVersion10);                       (* wsgi.version *)
    (str [119;115;103;105;46;101;114;114;111;114;115], SObject);                              (* wsgi.errors *)
    (str [119;115;103;105;46;109;117;108;116;105;116;104;114;101;97;100], SBool true);        (* wsgi.multithread *)
    (str [119;115;103;105;46;109;117;108;116;105;112;114;111;99;101;115;115], SBool false);   (* wsgi.multiprocess *)
    (str [119;115;103;105;46;114;117;110;95;111;110;99;101], SBool false);                    (* wsgi.run_once *)
    (str [119;115;103;105;46;105;110;112;117;116], SInput (rq_body rq));                      (* wsgi.input *)
    (str [119;115;103;105;46;102;105;108;101;95;119;114;97;112;112;101;114], SObject);        (* wsgi.file_wrapper *)
    (str [119;115;103;105;46;105;110;112;117;116;95;116;101;114;109;105;110;97;116;101;100], SBool true);  (* wsgi.input_terminated *)
    (str [119;97;105;116;114;101;115;115;46;99;108;105;101;110;116;95;100;105;115;99;111;110;110;101;99;116;101;100], SObject) ]
  ++ match spec_protocol rq with
     | Some v => [(str [83;69;82;86;69;82;95;80;82;79;84;79;67;79;76], SStr v)]              (* SERVER_PROTOCOL *)
     | None => []
     end
  ++ header_entries rq.

Fixpoint slookup (e : list (bytes * sval)) (k : bytes) : option sval :=
  match e with
  | [] => None
  | (k', v) :: e' => if beqb k k' then Some v else slookup e' k
  end.
