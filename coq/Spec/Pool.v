(* Spec/Pool.v -- what C14 demands of the worker pool, stated over the states
   and label traces of Model/Dispatcher.v, independently of how it is proved.
   Every statement has a Prop form (used by the theorems) and, where it is a
   state predicate, a bool form (run by the model explorer and on every step of
   the correspondence). *)
From Coq Require Import List Arith ZArith Bool.
From WV Require Import Model.Dispatcher.
Import ListNotations.

Definition next_id (s : state) : nat := length (ledger s).
Definition info (s : state) (t : task) : tinfo := nth t (ledger s) ti0.
Definition st (s : state) (t : task) : tstate := ti_st (info s t).
Definition svc (s : state) (t : task) : nat := ti_svc (info s t).
Definition cnc (s : state) (t : task) : nat := ti_cnc (info s t).
Definition submitted (s : state) (t : task) : Prop := t < next_id s.

(* ---- exactly once ------------------------------------------------------ *)

(* The ledger is a function, so a task is in exactly one of the four classes;
   the class is tied to where the task physically is (in the queue / in the
   hands of a worker / nowhere), and to the number of service() and cancel()
   calls made on it. *)
Record once_spec (s : state) : Prop := {
  once_nodup : NoDup (queue s);
  once_queue_submitted : forall t, In t (queue s) -> submitted s t;
  once_queued : forall t, submitted s t -> (st s t = Queued <-> In t (queue s));
  once_running : forall t w, submitted s t -> (st s t = Running w <-> In (w, WRun t) (workers s));
  once_worker_task : forall t w, In (w, WRun t) (workers s) -> submitted s t;
  once_one_task_per_worker : forall w pc1 pc2, In (w, pc1) (workers s) -> In (w, pc2) (workers s) -> pc1 = pc2;
  once_svc : forall t, submitted s t ->
     svc s t = match st s t with Running _ | Done => 1 | _ => 0 end;
  once_cnc : forall t, submitted s t ->
     cnc s t = match st s t with Cancelled => 1 | _ => 0 end
}.

Definition tstate_eqb (a b : tstate) : bool :=
  match a, b with
  | Queued, Queued | Done, Done | Cancelled, Cancelled => true
  | Running v, Running w => v =? w
  | _, _ => false
  end.

Definition wpc_eqb (a b : wpc) : bool :=
  match a, b with
  | WAcq, WAcq | WWait, WWait | WNotified, WNotified => true
  | WRun t, WRun u => t =? u
  | _, _ => false
  end.

Fixpoint nodupb (l : list nat) : bool :=
  match l with [] => true | x :: r => negb (mem x r) && nodupb r end.

Definition task_ok (s : state) (t : task) : bool :=
  let i := info s t in
  match ti_st i with
  | Queued => mem t (queue s) && (ti_svc i =? 0) && (ti_cnc i =? 0)
  | Running w => negb (mem t (queue s)) && (ti_svc i =? 1) && (ti_cnc i =? 0)
                 && match get_pc w (workers s) with Some (WRun u) => u =? t | _ => false end
  | Done => negb (mem t (queue s)) && (ti_svc i =? 1) && (ti_cnc i =? 0)
  | Cancelled => negb (mem t (queue s)) && (ti_svc i =? 0) && (ti_cnc i =? 1)
  end.

Definition once_ok (s : state) : bool :=
  nodupb (queue s)
  && forallb (fun t => t <? next_id s) (queue s)
  && forallb (task_ok s) (seq 0 (next_id s))
  && nodupb (map fst (workers s))
  && forallb (fun p => match snd p with
                       | WRun t => (t <? next_id s) && tstate_eqb (st s t) (Running (fst p))
                       | _ => true end) (workers s).

(* ---- submission order --------------------------------------------------- *)

Fixpoint submits (tr : list label) : list task :=
  match tr with
  | [] => []
  | LSubmit _ t :: r => t :: submits r
  | _ :: r => submits r
  end.

(* removals from the queue front: by a worker (pop) or by shutdown (cancel) *)
Fixpoint takes (tr : list label) : list task :=
  match tr with
  | [] => []
  | LPop _ t :: r => t :: takes r
  | LCancel t :: r => t :: takes r
  | _ :: r => takes r
  end.

Fixpoint starts (tr : list label) : list task :=
  match tr with
  | [] => []
  | LService _ t :: r => t :: starts r
  | _ :: r => starts r
  end.

Inductive Subseq {A} : list A -> list A -> Prop :=
| Subseq_nil : Subseq [] []
| Subseq_skip : forall x l m, Subseq l m -> Subseq l (x :: m)
| Subseq_take : forall x l m, Subseq l m -> Subseq (x :: l) (x :: m).

(* The queue is exactly the submitted tasks that have not been taken yet, in
   submission order; hence the i-th removal from the queue removes the i-th
   submitted task, and the tasks that start running do so in submission order. *)
Record fifo_spec (s : state) (tr : list label) : Prop := {
  fifo_queue : submits tr = takes tr ++ queue s;
  fifo_fresh : NoDup (submits tr);
  fifo_starts : Subseq (starts tr) (takes tr)
}.

(* ---- quiescence / resize -------------------------------------------------- *)

(* no lost wake-up inside the pool: when nothing can move until new work or a new
   request arrives from outside, a non-empty queue means that there is no worker
   at all (so none sleeps while a task waits) *)
Definition quiescent_spec (s : state) : Prop :=
  quiescent s = true -> queue s <> [] -> workers s = [] /\ threads s = [].

Definition resize_spec (s : state) : Prop :=
  length (threads s) = requested s + stop_count s /\
  (quiescent s = true -> stop_count s = 0 /\ length (workers s) = requested s).

Definition quiescent_ok (s : state) : bool :=
  if quiescent s then
    match queue s, workers s with
    | _ :: _, _ :: _ => false
    | _, _ => true
    end && (stop_count s =? 0) && (length (workers s) =? requested s)
  else true.

Definition resize_ok (s : state) : bool :=
  (length (threads s) =? requested s + stop_count s)
  && (length (workers s) =? length (threads s))
  && forallb (fun w => mem w (threads s)) (map fst (workers s))
  && Z.eqb (active_count s) (Z.of_nat (cnt is_active (workers s))).

(* ---- shutdown ----------------------------------------------------------------- *)

(* properties of single transitions s --c--> s' with labels l *)
Definition shutdown_true_spec (s' : state) (l : list label) : Prop :=
  In (LSdReturn true) l ->
  queue s' = [] /\
  forall t, In t (sd_snap s') -> st s' t = Cancelled /\ cnc s' t = 1 /\ svc s' t = 0.

(* sd_snap is the queue at the moment the wait loop ended, and from then until
   the return only the cancel loop itself touches the queue *)
Definition shutdown_snap_spec (s : state) (c : choice) (s' : state) : Prop :=
  (sd s <> SdCancel -> sd s' = SdCancel -> sd_snap s' = queue s /\ queue s' = queue s) /\
  (sd s = SdCancel -> sd_snap s' = sd_snap s /\
     (queue s' = queue s \/ exists t e, c = CSd e /\ queue s = t :: queue s')).

Definition shutdown_false_spec (s s' : state) (l : list label) : Prop :=
  In (LSdReturn false) l -> queue s' = queue s /\ ledger s' = ledger s /\ sd_cancel s = false.

(* what the code does with the tasks left behind: with no worker alive nothing
   is started (until set_thread_count(n > 0) is called again) *)
Definition no_worker_spec (s : state) (l : list label) : Prop :=
  workers s = [] -> starts l = [].

Definition shutdown_done_ok (s : state) : bool :=
  match sd s with
  | SdDone true => forallb (fun t => tstate_eqb (st s t) Cancelled) (sd_snap s)
  | _ => true
  end.

Definition all_ok (s : state) : bool :=
  once_ok s && quiescent_ok s && resize_ok s && shutdown_done_ok s.
