(* C20, command lines of any length: the SPECIFICATION of the runner's command
   line, written independently of getopt / Adjustments.parse_args.

   Domain: argv is any list of strings; a string is any list of code points
   (no bound on the length of either, no restriction on the characters).

   The grammar (what `waitress-serve` documents):
     * the option table is derived from the parameter table `params` alone:
       every boolean adjustment p gives  --p  and  --no-p  (no value), every
       other adjustment gives  --p VALUE | --p=VALUE ; plus  --help, --call,
       --app VALUE  (underscores are written as dashes);
     * a word  --typed[=inline]  names the option whose name is exactly
       `typed`, or else the only option whose name starts with `typed`;
       none -> refused (unknown), several -> refused (ambiguous);
     * a value option takes the inline text after the first `=`, or else the
       next word whatever it looks like (missing -> refused); a flag with an
       inline value is refused;
     * `--` ends the options, and so does the first word that is not an option
       (`-` alone is not an option); any other word starting with `-` is
       refused (there are no short options).

   The keyword form of the recognised occurrences (the "obvious per-option
   translation"): the adjustments in order of first appearance; a flag gives
   True / False, a value option gives its string; of several occurrences of
   the same adjustment the LAST one counts, except `listen`, whose values are
   joined with single spaces.  `--no-p` sets the same key as `--p`.

   No proofs in this file. *)
From Coq Require Import List NArith ZArith Bool.
From WV Require Import Lib.PyBytes Gen.GenAdjust Model.Adjust.
Import ListNotations.
Local Open Scope N_scope.

(* ---- the option table ---- *)
Inductive okind :=
  | KHelp | KCall | KApp
  | KFlag (p : str) (b : bool)      (* --p (b = true) / --no-p (b = false) for a boolean adjustment p *)
  | KVal (p : str).                 (* --p VALUE for any other adjustment *)

Definition takes_value (k : okind) : bool :=
  match k with KApp | KVal _ => true | _ => false end.

(* host_name -> host-name *)
Definition dashed (p : str) : str := map (fun x => if x =? 95 then 45 else x) p.
Definition s_no_dash : str := [110; 111; 45].                       (* no- *)

Definition options_of (pc : str * cast) : list (str * okind) :=
  match snd pc with
  | CBool => [(dashed (fst pc), KFlag (fst pc) true); (s_no_dash ++ dashed (fst pc), KFlag (fst pc) false)]
  | _ => [(dashed (fst pc), KVal (fst pc))]
  end.

Definition option_table : list (str * okind) :=
  [(k_help, KHelp); (k_call, KCall)] ++ flat_map options_of params ++ [(k_app, KApp)].

(* ---- which option does --typed name? ---- *)
Inductive resolution := Unknown | Ambiguous | Found (name : str) (k : okind).

Definition resolve (typed : str) : resolution :=
  match List.find (fun o => beqb (fst o) typed) option_table with
  | Some (n, k) => Found n k                                        (* exact name *)
  | None =>
    match filter (fun o => startswith (fst o) typed) option_table with
    | [] => Unknown
    | [(n, k)] => Found n k                                         (* unique prefix *)
    | _ => Ambiguous
    end
  end.

(* ---- the words of a command line ---- *)
Inductive word :=
  | WTerminator                                   (* -- *)
  | WPositional                                   (* anything not starting with '-', and '-' itself *)
  | WShort                                        (* -x...: there are no short options *)
  | WLong (typed : str) (inline : option str).    (* --typed  or  --typed=inline *)

(* text before the first '=', text after it (if there is one) *)
Fixpoint cut_eq (s : str) : str * option str :=
  match s with
  | [] => ([], None)
  | x :: s' => if x =? 61 then ([], Some s')
               else let r := cut_eq s' in (x :: fst r, snd r)
  end.

Definition classify_word (a : str) : word :=
  if beqb a [45; 45] then WTerminator
  else if startswith a [45; 45] then let r := cut_eq (skipn 2 a) in WLong (fst r) (snd r)
  else if beqb a [45] then WPositional
  else if startswith a [45] then WShort
  else WPositional.

(* ---- scanning ---- *)
(* one recognised option: full name, kind, value ("" for a flag) *)
Definition occ := (str * okind * str)%type.
Definition occ_kind (o : occ) : okind := snd (fst o).
Definition occ_value (o : occ) : str := snd o.

Inductive refusal := RUnknown | RAmbiguous | RMissingValue | RUnexpectedValue | RShortOption.
Inductive scanned :=
  | Refused (why : refusal)
  | Scanned (occs : list occ) (positional : list str).

Definition push (o : occ) (r : scanned) : scanned :=
  match r with Refused w => Refused w | Scanned os p => Scanned (o :: os) p end.

Fixpoint scan (argv : list str) : scanned :=
  match argv with
  | [] => Scanned [] []
  | a :: rest =>
    match classify_word a with
    | WTerminator => Scanned [] rest
    | WPositional => Scanned [] (a :: rest)
    | WShort => Refused RShortOption
    | WLong typed inline =>
      match resolve typed with
      | Unknown => Refused RUnknown
      | Ambiguous => Refused RAmbiguous
      | Found n k =>
        if takes_value k then
          match inline with
          | Some v => push (n, k, v) (scan rest)
          | None => match rest with
                    | [] => Refused RMissingValue
                    | v :: rest' => push (n, k, v) (scan rest')
                    end
          end
        else
          match inline with
          | Some _ => Refused RUnexpectedValue
          | None => push (n, k, []) (scan rest)
          end
      end
    end
  end.

(* ---- the keyword form ---- *)
Definition setting_of (o : occ) : list (str * value) :=
  match occ_kind o with
  | KVal p => [(p, VStr (occ_value o))]
  | KFlag p b => [(p, VBool b)]
  | _ => []
  end.
Definition settings_of (occs : list occ) : list (str * value) := flat_map setting_of occs.

(* the distinct names of l in order of first appearance *)
Fixpoint first_occ (seen l : list str) : list str :=
  match l with
  | [] => []
  | k :: l' => if memstr k seen then first_occ seen l' else k :: first_occ (seen ++ [k]) l'
  end.

Definition values_of (p : str) (l : list (str * value)) : list value :=
  map snd (filter (fun kv => beqb (fst kv) p) l).

(* the text of a command-line value (values of --listen are always strings) *)
Definition text_of (v : value) : str :=
  match v with
  | VStr s => s
  | VBool true => [116; 114; 117; 101]
  | VBool false => [102; 97; 108; 115; 101]
  | _ => []
  end.

Definition keyword_value (p : str) (l : list (str * value)) : value :=
  if beqb p k_listen then VStr (join [32] (map text_of (values_of p l)))
  else last (values_of p l) VNone.

Definition keyword_form (occs : list occ) : kwargs :=
  let l := settings_of occs in
  map (fun p => (p, keyword_value p l)) (first_occ [] (map fst l)).

(* ---- help, call, the application ---- *)
Definition is_help (k : okind) : bool := match k with KHelp => true | _ => false end.
Definition is_call (k : okind) : bool := match k with KCall => true | _ => false end.
Definition has_help (occs : list occ) : bool := existsb (fun o => is_help (occ_kind o)) occs.
Definition has_call (occs : list occ) : bool := existsb (fun o => is_call (occ_kind o)) occs.

(* the last --app, if any *)
Definition app_option (occs : list occ) : option str :=
  fold_left (fun acc o => match occ_kind o with KApp => Some (occ_value o) | _ => acc end) occs None.

Inductive app_choice := AppMissing | AppExtra | AppIs (a : str).
Definition choose_app (occs : list occ) (positional : list str) : app_choice :=
  match app_option occs, positional with
  | Some a, [] => AppIs a
  | Some _, _ :: _ => AppExtra
  | None, [] => AppMissing
  | None, [a] => AppIs a
  | None, _ :: _ :: _ => AppExtra
  end.

(* ---- what `waitress-serve argv` must do, up to the Adjustments object ---- *)
Definition cli_spec (e : env) (argv : list str) : outcome (option attrs) :=
  match scan argv with
  | Refused _ => Exn GetoptError
  | Scanned occs positional =>
    if has_help occs then Ok None                      (* print the help text, start nothing *)
    else match choose_app occs positional with
         | AppMissing | AppExtra => Exn AppResolutionError
         | AppIs _ => lift Some (construct e (keyword_form occs))
         end
  end.
