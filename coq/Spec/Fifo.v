(* Specification for C17: a FIFO byte queue.  Independent of the model
   (no import from Model/): a queue is a list of bytes, oldest first. *)
From Coq Require Import List NArith ZArith Bool.
Import ListNotations.
Local Open Scope Z_scope.

Definition queue := list N.

Definition q_empty : queue := [].
Definition q_append (q : queue) (s : list N) : queue := q ++ s.
(* the first n bytes; everything when n is negative (Python's numbytes=-1) or larger than the queue *)
Definition q_peek (n : Z) (q : queue) : list N := if n <? 0 then q else firstn (Z.to_nat n) q.
Definition q_consume (n : nat) (q : queue) : queue := skipn n q.
Definition q_len (q : queue) : Z := Z.of_nat (length q).

(* operations of the specification *)
Inductive qop :=
| QAppend (s : list N)
| QPeek (n : Z)          (* look at up to n bytes *)
| QTake (n : Z)          (* remove up to n bytes and return them *)
| QConsume (n : N)       (* remove exactly n bytes; an error when fewer are queued *)
| QLength
| QView.                 (* everything that is queued, as a file view *)

Inductive qout := QUnit | QBytes (b : list N) | QNum (n : Z) | QErr.

Definition q_step (q : queue) (p : qop) : queue * qout :=
  match p with
  | QAppend s => (q_append q s, QUnit)
  | QPeek n => (q, QBytes (q_peek n q))
  | QTake n => let r := q_peek n q in (q_consume (length r) q, QBytes r)
  | QConsume n => if Z.of_N n <=? q_len q then (q_consume (N.to_nat n) q, QUnit) else (q, QErr)
  | QLength => (q, QNum (q_len q))
  | QView => (q, QBytes q)
  end.

Definition q_next (q : queue) (p : qop) : queue := fst (q_step q p).
Definition q_exec (q : queue) (ps : list qop) : queue := fold_left q_next ps q.

(* the contract of the property's statement, in terms of the queue before the operation *)
Definition is_prefix (b q : list N) : Prop := exists rest, q = b ++ rest.

(* "a peek returns a prefix of the queued bytes at least as long as requested (or all of them)" *)
Definition peek_ok (n : Z) (q : queue) (b : list N) : Prop :=
  is_prefix b q /\ (length (q_peek n q) <= length b)%nat.
(* a consuming read returns exactly the requested prefix *)
Definition take_ok (n : Z) (q : queue) (b : list N) : Prop := b = q_peek n q.

(* ghost accounting: the bytes appended so far and the number consumed so far *)
Definition q_appended_by (p : qop) : list N := match p with QAppend s => s | _ => [] end.
Definition q_consumed_by (q : queue) (p : qop) : nat :=
  match p with
  | QTake n => length (q_peek n q)
  | QConsume n => if Z.of_N n <=? q_len q then N.to_nat n else 0%nat
  | _ => 0%nat
  end.
Fixpoint q_appended (ps : list qop) : list N :=
  match ps with [] => [] | p :: ps' => q_appended_by p ++ q_appended ps' end.
Fixpoint q_consumed (q : queue) (ps : list qop) : nat :=
  match ps with [] => 0%nat | p :: ps' => (q_consumed_by q p + q_consumed (q_next q p) ps')%nat end.
