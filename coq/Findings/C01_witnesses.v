(* Whole-stream witnesses of the open C01 findings, in the model: on each
   stored witness of KNOWN_FINDINGS.txt the channel model (observed as in
   C01Observe) and the strict RFC 9112 reference disagree.  Compiled
   separately; a failure is a note (the finding stopped reproducing). *)
From Coq Require Import List NArith ZArith Bool.
From WV Require Import Lib.PyBytes Lib.Regex Model.Receiver Model.Parser Model.ChanSeq Spec.Ref9112 Proof.C01Observe.
Import ListNotations.
Local Open Scope N_scope.

(* kf_c01_clte_keepalive : b'POST /a HTTP/1.1\r\nContent-Length: 3\r\nTransfer-Encoding: chunked\r\n\r\n3\r\nabc\r\n0\r\n\r\nGET /b HTTP/1.1\r\n\r\n' *)
Definition w_clte_keepalive : bytes := [80;79;83;84;32;47;97;32;72;84;84;80;47;49;46;49;13;10;67;111;110;116;101;110;116;45;76;101;110;103;116;104;58;32;51;13;10;84;114;97;110;115;102;101;114;45;69;110;99;111;100;105;110;103;58;32;99;104;117;110;107;101;100;13;10;13;10;51;13;10;97;98;99;13;10;48;13;10;13;10;71;69;84;32;47;98;32;72;84;84;80;47;49;46;49;13;10;13;10].
Lemma clte_keepalive_refuted :
  observe (feed adj0 chan_init [w_clte_keepalive]) <> Some (map (ref_view no_devs) (ref_run (cfg_of adj0) w_clte_keepalive)).
Proof. intro H. vm_compute in H. discriminate H. Qed.

(* kf_c01_te_http10 : b'POST /a HTTP/1.0\r\nConnection: keep-alive\r\nTransfer-Encoding: chunked\r\n\r\nGET /smuggled HTTP/1.1\r\n\r\n' *)
Definition w_te_http10 : bytes := [80;79;83;84;32;47;97;32;72;84;84;80;47;49;46;48;13;10;67;111;110;110;101;99;116;105;111;110;58;32;107;101;101;112;45;97;108;105;118;101;13;10;84;114;97;110;115;102;101;114;45;69;110;99;111;100;105;110;103;58;32;99;104;117;110;107;101;100;13;10;13;10;71;69;84;32;47;115;109;117;103;103;108;101;100;32;72;84;84;80;47;49;46;49;13;10;13;10].
Lemma te_http10_refuted :
  observe (feed adj0 chan_init [w_te_http10]) <> Some (map (ref_view no_devs) (ref_run (cfg_of adj0) w_te_http10)).
Proof. intro H. vm_compute in H. discriminate H. Qed.

(* kf_c01_reqline_ws : b'GET /a HTTP/1.1\n\r\n\r\n' *)
Definition w_reqline_ws : bytes := [71;69;84;32;47;97;32;72;84;84;80;47;49;46;49;10;13;10;13;10].
Lemma reqline_ws_refuted :
  observe (feed adj0 chan_init [w_reqline_ws]) <> Some (map (ref_view no_devs) (ref_run (cfg_of adj0) w_reqline_ws)).
Proof. intro H. vm_compute in H. discriminate H. Qed.

(* kf_c01_trailer_unvalidated : b'POST /a HTTP/1.1\r\nTransfer-Encoding: chunked\r\n\r\n0\r\nfoo: b\nar\r\n\r\nGET /b HTTP/1.1\r\n\r\n' *)
Definition w_trailer_unvalidated : bytes := [80;79;83;84;32;47;97;32;72;84;84;80;47;49;46;49;13;10;84;114;97;110;115;102;101;114;45;69;110;99;111;100;105;110;103;58;32;99;104;117;110;107;101;100;13;10;13;10;48;13;10;102;111;111;58;32;98;10;97;114;13;10;13;10;71;69;84;32;47;98;32;72;84;84;80;47;49;46;49;13;10;13;10].
Lemma trailer_unvalidated_refuted :
  observe (feed adj0 chan_init [w_trailer_unvalidated]) <> Some (map (ref_view no_devs) (ref_run (cfg_of adj0) w_trailer_unvalidated)).
Proof. intro H. vm_compute in H. discriminate H. Qed.

(* kf_c01_empty_chunk_line : b'POST /a HTTP/1.1\r\nTransfer-Encoding: chunked\r\n\r\n\r\n3\r\nabc\r\n\r\n0\r\n\r\n' *)
Definition w_empty_chunk_line : bytes := [80;79;83;84;32;47;97;32;72;84;84;80;47;49;46;49;13;10;84;114;97;110;115;102;101;114;45;69;110;99;111;100;105;110;103;58;32;99;104;117;110;107;101;100;13;10;13;10;13;10;51;13;10;97;98;99;13;10;13;10;48;13;10;13;10].
Lemma empty_chunk_line_refuted :
  observe (feed adj0 chan_init [w_empty_chunk_line]) <> Some (map (ref_view no_devs) (ref_run (cfg_of adj0) w_empty_chunk_line)).
Proof. intro H. vm_compute in H. discriminate H. Qed.

(* kf_c01_conn_close_list : b'GET /a HTTP/1.1\r\nConnection: close, x\r\n\r\nGET /next HTTP/1.1\r\n\r\n' *)
Definition w_conn_close_list : bytes := [71;69;84;32;47;97;32;72;84;84;80;47;49;46;49;13;10;67;111;110;110;101;99;116;105;111;110;58;32;99;108;111;115;101;44;32;120;13;10;13;10;71;69;84;32;47;110;101;120;116;32;72;84;84;80;47;49;46;49;13;10;13;10].
Lemma conn_close_list_refuted :
  observe (feed adj0 chan_init [w_conn_close_list]) <> Some (map (ref_view no_devs) (ref_run (cfg_of adj0) w_conn_close_list)).
Proof. intro H. vm_compute in H. discriminate H. Qed.

(* kf_c01_te_ws_element : b'POST /a HTTP/1.1\r\nTransfer-Encoding: chunked\r\nTransfer-Encoding: \r\n\r\n0\r\n\r\n' *)
Definition w_te_ws_element : bytes := [80;79;83;84;32;47;97;32;72;84;84;80;47;49;46;49;13;10;84;114;97;110;115;102;101;114;45;69;110;99;111;100;105;110;103;58;32;99;104;117;110;107;101;100;13;10;84;114;97;110;115;102;101;114;45;69;110;99;111;100;105;110;103;58;32;13;10;13;10;48;13;10;13;10].
Lemma te_ws_element_refuted :
  observe (feed adj0 chan_init [w_te_ws_element]) <> Some (map (ref_view no_devs) (ref_run (cfg_of adj0) w_te_ws_element)).
Proof. intro H. vm_compute in H. discriminate H. Qed.

(* kf_c01_target_nonascii : b'GET //a\xe9 HTTP/1.1\r\n\r\n' *)
Definition w_target_nonascii : bytes := [71;69;84;32;47;47;97;233;32;72;84;84;80;47;49;46;49;13;10;13;10].
Lemma target_nonascii_refuted :
  observe (feed adj0 chan_init [w_target_nonascii]) <> Some (map (ref_view no_devs) (ref_run (cfg_of adj0) w_target_nonascii)).
Proof. intro H. vm_compute in H. discriminate H. Qed.
