(* Whole-stream witnesses of the open C01 findings, in the model: on each
   stored witness of KNOWN_FINDINGS.txt the channel model (observed as in
   C01Observe) and the strict RFC 9112 reference disagree.  Compiled
   separately; a failure is a note (the finding stopped reproducing). *)
From Coq Require Import List NArith ZArith Bool.
From WV Require Import Lib.PyBytes Lib.Regex Model.Receiver Model.Parser Model.ChanSeq Spec.Ref9112 Proof.C01Observe.
Import ListNotations.
Local Open Scope N_scope.

(* kf_c01_trailer_unvalidated : b'POST /a HTTP/1.1\r\nTransfer-Encoding: chunked\r\n\r\n0\r\nfoo: b\nar\r\n\r\nGET /b HTTP/1.1\r\n\r\n' *)
Definition w_trailer_unvalidated : bytes := [80;79;83;84;32;47;97;32;72;84;84;80;47;49;46;49;13;10;84;114;97;110;115;102;101;114;45;69;110;99;111;100;105;110;103;58;32;99;104;117;110;107;101;100;13;10;13;10;48;13;10;102;111;111;58;32;98;10;97;114;13;10;13;10;71;69;84;32;47;98;32;72;84;84;80;47;49;46;49;13;10;13;10].
Lemma trailer_unvalidated_refuted :
  observe (feed adj0 chan_init [w_trailer_unvalidated]) <> Some (map ref_view (ref_run (cfg_of adj0) w_trailer_unvalidated)).
Proof. intro H. vm_compute in H. discriminate H. Qed.
