(* Open known finding kf_c10_reqline_ws (C10): a request line with trailing
   whitespace is accepted by the code around the request-line gate although the
   grammar has none.  Compiled separately from the property theorems: if this
   file stops compiling the finding no longer reproduces in the model (a note,
   never a violation). *)
From Coq Require Import List NArith Bool.
From WV Require Import Lib.Regex Lib.PyBytes Gen.GenRegex Spec.Grammar Proof.C10RequestLine.
Import ListNotations.
Local Open Scope N_scope.

(* the open finding: surrounding whitespace is accepted although the grammar has none *)
Lemma C10_request_line_refuted :
  exists line, bytes_ok line /\ request_line_accepts line = true /\ ~ Lang spec_request_line line.
Proof.
  exists [71;69;84;32;47;32;72;84;84;80;47;49;46;49;32].     (* "GET / HTTP/1.1 " *)
  split; [repeat constructor|]. split; [vm_compute; reflexivity|].
  intro H. apply matches_correct in H. vm_compute in H. discriminate.
Qed.

