(* Findings/C13_F17_F18.v -- the two findings of property C13 (both REPAIRED in /repo:
   F17 by 8a2ea3a, F18 by da3bf3a) as statements about the model with the OLD knob values
   (wc_close = true, init_guarded = false), with their concrete witnesses
   (Proof/ChanFaultWitness.v) and how each was reproduced on the code before the repair.
   checks/C13.py keeps both inputs as regression scenarios.

   F17  server.py, BaseWSGIServer.handle_accept: `self.channel_class(...)` is called
        after the try/except OSError.  HTTPChannel.__init__ calls
        sock.getsockopt(SOL_SOCKET, SO_SNDBUF) and, through dispatcher.__init__,
        sock.setblocking(0).  An OSError from either propagates out of the LISTENER's
        handle_read_event into wasyncore.read's bare except -> listener.handle_error()
        -> handle_close() -> BaseWSGIServer.close(): trigger closed, listening socket
        closed, both leave the socket map.
        Real code: harness/chanfault.ListenerWorld, steps
          [("connect", {"getsockopt": EINVAL}), ("turn",)]   (or {"setblocking": EBADF})
        -> map 2 -> 0.  Small repair: move channel construction into the try and close
        the accepted socket on failure.

   F18  channel.py, HTTPChannel.service: at the end of a request, when a further
        request head expecting 100-continue has been read, the WORKER calls
        send_continue(), whose _flush_some() uses the default do_close=True.  If that
        send fails with an errno of _DISCONNECTED, dispatcher.send calls handle_close()
        on the worker thread: buffers closed, fd deleted from the socket map and
        active_channels, socket.close().  If the I/O thread has already evaluated
        readable()/writable() for this turn, select() is then called with a closed
        descriptor: EBADF is not EINTR, wasyncore.poll re-raises, loop() and
        BaseWSGIServer.run() do not catch it: the I/O loop is dead.
        Real code: harness/chanfault.F18_LOOP_DEATH_CASE / F18_LOOP_DEATH_SCHEDULE.
        Small repair: give send_continue a do_close parameter passed on to _flush_some
        and call self.send_continue(do_close=False) from service(); the I/O thread then
        closes on its next turn (Props/C13.v: C13_once_repaired, C13_loop_repaired). *)
From Coq Require Import List Arith Bool.
From WV Require Import Model.ChanFault Proof.ChanFaultSpec Proof.ChanFaultWitness.
Import ListNotations.

Lemma F17_listener_gone :
  lst_in_map (run wcfg w_listener) = false /\ trg_in_map (run wcfg w_listener) = false /\
  In (LSetupFault A) (trace wcfg w_listener).
Proof. vm_compute. intuition. Qed.

Lemma F18_worker_closes_and_loop_dies :
  In (LClose (W A) A) (trace wcfg w_loop) /\ In (LMapDel (W A) (FC A)) (trace wcfg w_loop) /\
  In (LLoopDied (XOSError EBADF)) (trace wcfg w_loop) /\ io_dead (run wcfg w_loop) = true.
Proof. vm_compute. intuition. Qed.
