(* Open known finding kf_c02_1 (C02, F12): with exact error tags the outcome
   depends on the segmentation -- a chunked body with an invalid chunk-size line
   followed by >= max_request_body_size bytes is a 413 in one read and a 400
   byte-wise.  Compiled separately from the property theorems: if this file stops
   compiling the finding no longer reproduces in the model (a note, never a
   violation). *)
From Coq Require Import List NArith ZArith Bool.
From RecordUpdate Require Import RecordUpdate.
From WV Require Import Lib.PyBytes Model.Receiver Model.Parser Model.ChanSeq
  Proof.SplitParser Proof.SplitChan Proof.SplitExamples.
Import ListNotations.
Local Open Scope N_scope.

Lemma f12_whole :
  map ev_err (cut (snd (feed_tr false adj10 chan_init [f12_stream]))) = [Some (Some EBodyTooLarge)].
Proof. vm_compute. reflexivity. Qed.

Lemma f12_bytes :
  map ev_err (cut (snd (feed_tr false adj10 chan_init (bytewise f12_stream)))) = [Some (Some EInvalidChunkSize)].
Proof. vm_compute. reflexivity. Qed.

(* ... is refuted: 413 in one read, 400 byte-wise *)
Lemma split_independent_exact_refuted : ~ split_independent_exact.
Proof.
  intros H. specialize (H adj10 [f12_stream] (bytewise f12_stream)).
  rewrite bytewise_concat in H. cbn [concat] in H. rewrite app_nil_r in H. specialize (H eq_refl).
  pose proof f12_whole as A. pose proof f12_bytes as B. rewrite H in A. rewrite A in B. discriminate.
Qed.

(* with the abstraction of the theorem both runs are observed alike *)
Example f12_abstracted :
  map ev_err (cut (snd (feed_tr true adj10 chan_init [f12_stream]))) =
  map ev_err (cut (snd (feed_tr true adj10 chan_init (bytewise f12_stream)))).
Proof. vm_compute. reflexivity. Qed.


Theorem C02_exact_refuted : ~ split_independent_exact.
Proof. exact split_independent_exact_refuted. Qed.
Print Assumptions C02_exact_refuted.
