(* Findings/C11_F22.v -- finding F22 (property C11), FIXED by /repo commit 64d926d; kept for the reader.

   WHAT FAILED.  will_close := True written by HTTPChannel._flush_exception -- on a worker inside
   write_soon / _flush_outbufs_below_high_watermark (do_close=False), or on the I/O thread inside
   handle_write -- after a send error that is NOT in wasyncore._DISCONNECTED (EHOSTUNREACH, ENETDOWN,
   ENOBUFS, ...) was a close decision that (a) is not taken under requests_lock and (b) was not read
   by service(), whose first test was `if self.connected:`.  A request buffered behind the one being
   served was submitted and executed by the application after the decision.

   Real code, before the fix: two pipelined GETs in one read, the first send of the first response
   fails with EHOSTUNREACH: `decide(will_close by waitress-0)`, `service_start`, `app_call /r1` under
   the default schedule; the I/O-thread variant (send plan [EWOULDBLOCK, EHOSTUNREACH]) needed two
   pre-emptions (I/O thread stopped between `will_close = True` and handle_close()).

   THE FIX.  service(): `if self.connected and not self.will_close: task.service() else:
   task.close_on_finish = True`.  will_close is never reset, the read comes after the entry of
   service(): the late invocation takes the close branch (close_when_flushed, requests cleared under
   the lock).  Model: program point WSvc1b; theorem C11 (Props/C11.v) now covers every kind of
   decision; the two schedules are replayed in Proof/ChanCloseStmt.v (f22_trace_now,
   f22_io_trace_now): LServiceStart 1 is followed by LDecide DWorkerClose, not by LAppCall.
   checks/C11.py keeps both scenarios as directed cases (a revert of 64d926d is reported with
   scenario and schedule). *)
From WV Require Import Lib.Conc Model.ChanClose Proof.ChanCloseStmt.
Check C11_full_holds.
Check f22_trace_now.
Check f22_io_trace_now.
