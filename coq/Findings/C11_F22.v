(* Findings/C11_F22.v -- finding F22 (property C11), for the reader.

   WHAT FAILS.  will_close := True written by HTTPChannel._flush_exception -- on a worker inside
   write_soon / _flush_outbufs_below_high_watermark (do_close=False), or on the I/O thread inside
   handle_write -- after a send error that is NOT in wasyncore._DISCONNECTED (EHOSTUNREACH, ENETDOWN,
   ENOBUFS, ...) is a close decision that (a) is not taken under requests_lock and (b) is not read
   by service(): its chaining step is `if self.connected and self.requests: add_task`, and its
   first test is `if self.connected:`.  A request buffered behind the one being served is
   therefore submitted and executed by the application after the decision; the channel is
   closed only when handle_write next runs `if self.will_close: self.handle_close()`.

   REAL CODE (checks/C11.py, replayable): two pipelined GETs in one read, the first send of the
   first response fails with EHOSTUNREACH: trace `decide(will_close by waitress-0)`,
   `service_start`, `app_call /r1` under the default schedule; the I/O-thread variant (send plan
   [EWOULDBLOCK, EHOSTUNREACH]) needs two pre-emptions (I/O thread stopped between
   `will_close = True` and handle_close()).

   MODEL.  Proof/ChanCloseRefute.v: sched_f22, sched_f22_io; the traces are computed by vm_compute
   (f22_trace, f22_io_trace); C11_full_refuted : ~ C11_full.  The theorem that holds,
   C11_partial (Props/C11.v), is the same statement for every other kind of decision
   (covered k = true).

   REPAIR (not applied here).  In service():  `if self.connected and not self.will_close:
   task.service() else: task.close_on_finish = True`.  Then every decision is monotone and read
   after the service() entry, the late invocation takes the close branch (close_when_flushed,
   requests cleared under the lock) and the full statement holds.  Testing will_close only before
   chaining (`if task.close_on_finish or self.will_close:`) repairs the worker-side case but
   leaves a window for the I/O-side one (decision between that test and add_task). *)
From WV Require Import Lib.Conc Model.ChanClose Proof.ChanCloseRefute.
Check C11_full_refuted.
Check C11_refuted_worker_flush.
Check C11_refuted_io_flush.
