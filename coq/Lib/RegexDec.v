(* A verified (sound, fail-closed) decision procedure for language
   equivalence / inclusion of regular expressions over the byte alphabet,
   plus an unverified shortest-witness search used only to produce replays. *)
From Coq Require Import List NArith Bool Lia.
From WV Require Import Lib.Regex.
Import ListNotations.
Local Open Scope N_scope.

Definition alphabet : list N := map N.of_nat (seq 0 256).

Lemma alphabet_complete x : x < 256 -> In x alphabet.
Proof.
  intro H. unfold alphabet. rewrite <- (N2Nat.id x). apply in_map.
  apply in_seq. lia.
Qed.

Definition pair_eqb (p q : re * re) : bool :=
  re_eqb (fst p) (fst q) && re_eqb (snd p) (snd q).

Fixpoint mem (p : re * re) (l : list (re * re)) : bool :=
  match l with
  | [] => false
  | q :: l' => pair_eqb p q || mem p l'
  end.

Lemma mem_In p l : mem p l = true -> In p l.
Proof.
  induction l as [|q l IH]; simpl; [discriminate|].
  intro H. apply orb_true_iff in H as [H|H]; auto.
  left. unfold pair_eqb in H. apply andb_true_iff in H as [H1 H2].
  apply re_eqb_eq in H1, H2. destruct p, q; simpl in *; subst; auto.
Qed.

Definition succs (p : re * re) : list (re * re) :=
  map (fun x => (deriv x (fst p), deriv x (snd p))) alphabet.

Fixpoint dedup (l acc : list (re * re)) : list (re * re) :=
  match l with
  | [] => acc
  | p :: l' => if mem p acc then dedup l' acc else dedup l' (p :: acc)
  end.

(* exploration: NOT verified, its result is re-checked by [closedb] *)
Fixpoint explore (fuel : nat) (todo visited : list (re * re)) : option (list (re * re)) :=
  match fuel with
  | O => None
  | S f =>
    match todo with
    | [] => Some visited
    | p :: todo' =>
      if mem p visited then explore f todo' visited
      else if Bool.eqb (nullable (fst p)) (nullable (snd p))
           then explore f (dedup (succs p) [] ++ todo') (p :: visited)
           else None
    end
  end.

Definition closedb (R : list (re * re)) : bool :=
  forallb (fun p =>
     Bool.eqb (nullable (fst p)) (nullable (snd p)) &&
     forallb (fun x => mem (deriv x (fst p), deriv x (snd p)) R) alphabet) R.

Definition explore_fuel : nat := 4000.

Definition equiv_check (r1 r2 : re) : bool :=
  match explore explore_fuel [(r1, r2)] [] with
  | Some R => mem (r1, r2) R && closedb R
  | None => false
  end.

Lemma closed_sound R : closedb R = true ->
  forall s, bytes_ok s -> forall a b, In (a, b) R -> matches a s = matches b s.
Proof.
  intros C s. induction s as [|x s IH]; intros Hs a b HIn.
  - cbn [matches]. unfold closedb in C. rewrite forallb_forall in C.
    specialize (C _ HIn). apply andb_true_iff in C as [C _].
    apply eqb_prop in C. exact C.
  - cbn [matches]. inversion Hs as [|? ? Hx Hs']; subst.
    unfold closedb in C. pose proof C as C0. rewrite forallb_forall in C.
    specialize (C _ HIn). apply andb_true_iff in C as [_ C].
    rewrite forallb_forall in C. specialize (C x (alphabet_complete x Hx)).
    cbn [fst snd] in C. apply mem_In in C. apply IH; auto.
Qed.

Theorem equiv_check_sound r1 r2 : equiv_check r1 r2 = true ->
  forall s, bytes_ok s -> (Lang r1 s <-> Lang r2 s).
Proof.
  unfold equiv_check. destruct (explore _ _ _) as [R|]; [|discriminate].
  intro H. apply andb_true_iff in H as [H1 H2]. apply mem_In in H1.
  intros s Hs. rewrite <- !matches_correct.
  rewrite (closed_sound R H2 s Hs r1 r2 H1). reflexivity.
Qed.

Definition incl_check (a b : re) : bool := equiv_check (Alt a b) b.

Theorem incl_check_sound a b : incl_check a b = true ->
  forall s, bytes_ok s -> Lang a s -> Lang b s.
Proof.
  unfold incl_check. intros H s Hs La.
  pose proof (equiv_check_sound (Alt a b) b H s Hs) as [G _]. apply G. apply LAltL; exact La.
Qed.

(* ------------------------------------------------------------------ *)
(* shortest distinguishing string (unverified; used for replays only) *)

Fixpoint witness_bfs (fuel : nat) (queue : list (re * re * list N)) (visited : list (re * re))
  : option (list N) :=
  match fuel with
  | O => None
  | S f =>
    match queue with
    | [] => None
    | (a, b, path) :: q' =>
      if mem (a, b) visited then witness_bfs f q' visited
      else if Bool.eqb (nullable a) (nullable b)
      then witness_bfs f
             (q' ++ map (fun x => (deriv x a, deriv x b, x :: path)) alphabet)
             ((a, b) :: visited)
      else Some (rev path)
    end
  end.

Definition witness (r1 r2 : re) : option (list N) :=
  witness_bfs (N.to_nat 100000%N) [(r1, r2, [])] [].
