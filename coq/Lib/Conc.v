(* Lib/Conc.v -- small generic library for interleaving models.

   A system is an executable step function
       step : state -> choice -> option (state * list label)
   where a [choice] names which enabled logical thread moves together with the
   environment's choices for that move; [None] means "this choice is not
   enabled in this state".  A schedule is a list of choices; choices that are
   not enabled are skipped, so every list is a schedule and "for all
   interleavings" is literally [forall sched].

   [run_tr] executes a schedule and accumulates the labels, [run] forgets the
   labels.  The invariant rules turn a one-step preservation lemma into a
   theorem over all schedules, without any bound on their length. *)
From Coq Require Import List.
Import ListNotations.

Section Conc.
  Variables state choice label : Type.
  Variable step : state -> choice -> option (state * list label).

  Definition exec1 (sl : state * list label) (c : choice) : state * list label :=
    match step (fst sl) c with
    | Some (s', l) => (s', snd sl ++ l)
    | None => sl
    end.

  Definition run_tr (init : state) (sched : list choice) : state * list label :=
    fold_left exec1 sched (init, []).

  Definition run (init : state) (sched : list choice) : state := fst (run_tr init sched).
  Definition trace (init : state) (sched : list choice) : list label := snd (run_tr init sched).

  Definition reachable (init s : state) : Prop := exists sched, s = run init sched.

  Lemma run_tr_snoc : forall init sched c,
    run_tr init (sched ++ [c]) = exec1 (run_tr init sched) c.
  Proof. intros. unfold run_tr. rewrite fold_left_app. reflexivity. Qed.

  (* invariants over (state, trace so far) *)
  Theorem invariant_rule_tr : forall (Inv : state -> list label -> Prop) init,
    Inv init [] ->
    (forall s tr c s' l, Inv s tr -> step s c = Some (s', l) -> Inv s' (tr ++ l)) ->
    forall sched, Inv (run init sched) (trace init sched).
  Proof.
    intros Inv init H0 Hstep sched.
    induction sched as [|c sched IH] using rev_ind.
    - exact H0.
    - unfold run, trace in *. rewrite run_tr_snoc. unfold exec1.
      destruct (step (fst (run_tr init sched)) c) as [[s' l]|] eqn:E.
      + simpl. eapply Hstep; eauto.
      + exact IH.
  Qed.

  (* invariants over states *)
  Theorem invariant_rule : forall (Inv : state -> Prop) init,
    Inv init ->
    (forall s c s' l, Inv s -> step s c = Some (s', l) -> Inv s') ->
    forall sched, Inv (run init sched).
  Proof.
    intros Inv init H0 Hstep sched.
    apply (invariant_rule_tr (fun s _ => Inv s)); auto.
    intros; eapply Hstep; eauto.
  Qed.

  Corollary reachable_inv : forall (Inv : state -> Prop) init,
    Inv init ->
    (forall s c s' l, Inv s -> step s c = Some (s', l) -> Inv s') ->
    forall s, reachable init s -> Inv s.
  Proof. intros Inv init H0 H s [sched ->]. apply invariant_rule; auto. Qed.

  (* a property of every transition taken from a reachable state *)
  Corollary transition_rule : forall (Inv : state -> Prop)
      (P : state -> choice -> state -> list label -> Prop) init,
    Inv init ->
    (forall s c s' l, Inv s -> step s c = Some (s', l) -> Inv s') ->
    (forall s c s' l, Inv s -> step s c = Some (s', l) -> P s c s' l) ->
    forall sched c s' l, step (run init sched) c = Some (s', l) -> P (run init sched) c s' l.
  Proof. intros Inv P init H0 H HP sched c s' l E. apply HP; auto. apply invariant_rule; auto. Qed.
End Conc.

Arguments exec1 {state choice label}.
Arguments run_tr {state choice label}.
Arguments run {state choice label}.
Arguments trace {state choice label}.
Arguments reachable {state choice label}.
