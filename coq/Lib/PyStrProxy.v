(* Additional Python str / list / dict primitives used by the proxy-header
   model (Model/Proxy.v).  A str is a list of code points (latin-1 decoded
   header text: every code point < 256).  Validated against CPython by
   harness/proxy.py (the "prim" stream of K-proxy). *)
From Coq Require Import List NArith ZArith Bool String Ascii.
From WV Require Import Lib.PyBytes.
Import ListNotations.
Local Open Scope N_scope.

Definition str := list N.

(* string literals: [s2l "abc"] is evaluated at definition time, the model
   only ever contains the resulting list of code points *)
Fixpoint s2l (s : string) : str :=
  match s with
  | EmptyString => []
  | String a s' => N_of_ascii a :: s2l s'
  end.

(* bool(s) for a str *)
Definition truthy (s : str) : bool := match s with [] => false | _ => true end.

(* s[0] and s[-1]; None is IndexError *)
Definition first_opt (s : str) : option N := match s with [] => None | x :: _ => Some x end.
Fixpoint last_opt (s : str) : option N :=
  match s with
  | [] => None
  | [x] => Some x
  | _ :: s' => last_opt s'
  end.

(* s[1:-1] *)
Definition mid (s : str) : str := removelast (tl s).

(* c in s  for a single character *)
Definition has_char (c : N) (s : str) : bool := memb c s.

(* l[-k:] for an arbitrary Python int k:
     k > 0  : the last k elements (all of them if there are fewer)
     k = 0  : l[-0:] = l[0:] = l
     k < 0  : l[|k|:]                                                     *)
Definition py_lastk {A} (l : list A) (k : Z) : list A :=
  match k with
  | Zpos p => last_k l (Pos.to_nat p)
  | Z0 => l
  | Zneg p => skipn (Pos.to_nat p) l
  end.

(* str.strip() without argument *)
Definition strip (s : str) : str := strip_by is_str_ws s.

(* --- dict with str keys, as an association list ------------------------- *)
Section Dict.
  Context {V : Type}.
  Definition dict := list (str * V).

  Fixpoint lookup (k : str) (d : dict) : option V :=
    match d with
    | [] => None
    | (k', v) :: d' => if beqb k k' then Some v else lookup k d'
    end.

  (* d[k] = v : replaces the value in place when the key exists, appends otherwise *)
  Fixpoint set (k : str) (v : V) (d : dict) : dict :=
    match d with
    | [] => [(k, v)]
    | (k', v') :: d' => if beqb k k' then (k', v) :: d' else (k', v') :: set k v d'
    end.

  (* d.pop(k, default) : the dict afterwards *)
  Fixpoint pop (k : str) (d : dict) : dict :=
    match d with
    | [] => []
    | (k', v') :: d' => if beqb k k' then pop k d' else (k', v') :: pop k d'
    end.
End Dict.
Arguments dict : clear implicits.
