(* Regular expressions over N (bytes are N < 256), relational semantics,
   Brzozowski derivatives and a matcher proved correct.  Stdlib only. *)
From Coq Require Import List NArith Bool Lia.
Import ListNotations.
Local Open Scope N_scope.

Inductive re : Type :=
| Emp : re                         (* empty language *)
| Eps : re                         (* empty string   *)
| Cls : list (N * N) -> re         (* one symbol in a union of inclusive ranges *)
| Cat : re -> re -> re
| Alt : re -> re -> re
| Star : re -> re
| And : re -> re -> re.          (* intersection *)

Fixpoint in_ranges (x : N) (rs : list (N * N)) : bool :=
  match rs with
  | [] => false
  | (lo, hi) :: rs' => ((lo <=? x) && (x <=? hi)) || in_ranges x rs'
  end.

Inductive Lang : re -> list N -> Prop :=
| LEps : Lang Eps []
| LCls : forall rs x, in_ranges x rs = true -> Lang (Cls rs) [x]
| LCat : forall a b s t, Lang a s -> Lang b t -> Lang (Cat a b) (s ++ t)
| LAltL : forall a b s, Lang a s -> Lang (Alt a b) s
| LAltR : forall a b s, Lang b s -> Lang (Alt a b) s
| LStar0 : forall a, Lang (Star a) []
| LStarS : forall a s t, Lang a s -> Lang (Star a) t -> Lang (Star a) (s ++ t)
| LAnd : forall a b s, Lang a s -> Lang b s -> Lang (And a b) s.

Fixpoint nullable (r : re) : bool :=
  match r with
  | Emp => false
  | Eps => true
  | Cls _ => false
  | Cat a b => nullable a && nullable b
  | Alt a b => nullable a || nullable b
  | Star _ => true
  | And a b => nullable a && nullable b
  end.

(* syntactic equality *)
Fixpoint ranges_eqb (a b : list (N * N)) : bool :=
  match a, b with
  | [], [] => true
  | (l1, h1) :: a', (l2, h2) :: b' => (l1 =? l2) && (h1 =? h2) && ranges_eqb a' b'
  | _, _ => false
  end.

Fixpoint re_eqb (a b : re) : bool :=
  match a, b with
  | Emp, Emp => true
  | Eps, Eps => true
  | Cls r1, Cls r2 => ranges_eqb r1 r2
  | Cat a1 a2, Cat b1 b2 => re_eqb a1 b1 && re_eqb a2 b2
  | Alt a1 a2, Alt b1 b2 => re_eqb a1 b1 && re_eqb a2 b2
  | Star a1, Star b1 => re_eqb a1 b1
  | And a1 a2, And b1 b2 => re_eqb a1 b1 && re_eqb a2 b2
  | _, _ => false
  end.

Lemma ranges_eqb_eq a b : ranges_eqb a b = true -> a = b.
Proof.
  revert b; induction a as [|[l1 h1] a IH]; intros [|[l2 h2] b]; simpl; try discriminate; auto.
  intro H. apply andb_true_iff in H as [H H3]. apply andb_true_iff in H as [H1 H2].
  apply N.eqb_eq in H1, H2. subst. f_equal. auto.
Qed.

Lemma re_eqb_eq a b : re_eqb a b = true -> a = b.
Proof.
  revert b; induction a; intros []; simpl; try discriminate; auto.
  - intro H; apply ranges_eqb_eq in H; subst; auto.
  - intro H; apply andb_true_iff in H as [H1 H2]. f_equal; auto.
  - intro H; apply andb_true_iff in H as [H1 H2]. f_equal; auto.
  - intro H; f_equal; auto.
  - intro H; apply andb_true_iff in H as [H1 H2]. f_equal; auto.
Qed.

Lemma ranges_eqb_refl a : ranges_eqb a a = true.
Proof. induction a as [|[l h] a IH]; simpl; auto. rewrite !N.eqb_refl, IH; auto. Qed.

Lemma re_eqb_refl a : re_eqb a a = true.
Proof. induction a; simpl; auto using ranges_eqb_refl; rewrite ?IHa1, ?IHa2; auto. Qed.

(* smart constructors: language preserving simplifications that keep the
   set of derivatives small *)
Definition cat (a b : re) : re :=
  match a, b with
  | Emp, _ => Emp
  | _, Emp => Emp
  | Eps, _ => b
  | _, Eps => a
  | _, _ => Cat a b
  end.

Fixpoint alt_mem (a : re) (b : re) : bool :=
  (* is [a] one of the alternatives of the right-nested alternation [b] *)
  match b with
  | Alt b1 b2 => re_eqb a b1 || alt_mem a b2
  | _ => re_eqb a b
  end.

Definition alt1 (a b : re) : re :=
  match a, b with
  | Emp, _ => b
  | _, Emp => a
  | _, _ => if alt_mem a b then b else Alt a b
  end.

(* flatten left-nested alternations to the right *)
Fixpoint alt (a b : re) : re :=
  match a with
  | Alt a1 a2 => alt1 a1 (alt a2 b)
  | _ => alt1 a b
  end.

Definition and_ (a b : re) : re :=
  match a, b with
  | Emp, _ => Emp
  | _, Emp => Emp
  | _, _ => if re_eqb a b then a else And a b
  end.

Definition star (a : re) : re :=
  match a with
  | Emp => Eps
  | Eps => Eps
  | Star _ => a
  | _ => Star a
  end.

Fixpoint deriv (x : N) (r : re) : re :=
  match r with
  | Emp => Emp
  | Eps => Emp
  | Cls rs => if in_ranges x rs then Eps else Emp
  | Cat a b => if nullable a then alt (cat (deriv x a) b) (deriv x b)
               else cat (deriv x a) b
  | Alt a b => alt (deriv x a) (deriv x b)
  | Star a => cat (deriv x a) (star a)
  | And a b => and_ (deriv x a) (deriv x b)
  end.

Fixpoint matches (r : re) (s : list N) : bool :=
  match s with
  | [] => nullable r
  | x :: s' => matches (deriv x r) s'
  end.

(* ------------------------------------------------------------------ *)
(* correctness *)

Lemma nullable_correct r : nullable r = true <-> Lang r [].
Proof.
  split.
  - induction r; simpl; intro H; try discriminate.
    + constructor.
    + apply andb_true_iff in H as [H1 H2].
      change (@nil N) with (@nil N ++ @nil N). constructor; auto.
    + apply orb_true_iff in H as [H|H]; [apply LAltL | apply LAltR]; auto.
    + constructor.
    + apply andb_true_iff in H as [H1 H2]. constructor; auto.
  - intro H. remember [] as s eqn:E. induction H; simpl; auto; try discriminate.
    + apply app_eq_nil in E as [-> ->]. rewrite IHLang1, IHLang2; auto.
    + rewrite IHLang; auto.
    + rewrite IHLang; auto using orb_true_r.
    + rewrite IHLang1, IHLang2; auto.
Qed.

Lemma Lang_Emp s : ~ Lang Emp s.
Proof. intro H; inversion H. Qed.

Lemma Lang_Eps s : Lang Eps s <-> s = [].
Proof. split; intro H; [inversion H; auto | subst; constructor]. Qed.

Lemma Lang_Cat a b s : Lang (Cat a b) s <-> exists u v, s = u ++ v /\ Lang a u /\ Lang b v.
Proof.
  split.
  - intro H; inversion H; subst; eauto.
  - intros (u & v & -> & H1 & H2); constructor; auto.
Qed.

Lemma Lang_Alt a b s : Lang (Alt a b) s <-> Lang a s \/ Lang b s.
Proof.
  split.
  - intro H; inversion H; subst; auto.
  - intros [H|H]; [apply LAltL | apply LAltR]; auto.
Qed.

Lemma cat_eps_l b s : (exists u v, s = u ++ v /\ Lang Eps u /\ Lang b v) <-> Lang b s.
Proof.
  split.
  - intros (u & v & -> & H1 & H2). apply Lang_Eps in H1; subst; auto.
  - intro H; exists [], s; repeat split; auto; constructor.
Qed.

Lemma cat_eps_r a s : (exists u v, s = u ++ v /\ Lang a u /\ Lang Eps v) <-> Lang a s.
Proof.
  split.
  - intros (u & v & -> & H1 & H2). apply Lang_Eps in H2; subst. rewrite app_nil_r; auto.
  - intro H; exists s, []; rewrite app_nil_r; repeat split; auto; constructor.
Qed.

Lemma cat_emp_l b s : (exists u v, s = u ++ v /\ Lang Emp u /\ Lang b v) <-> Lang Emp s.
Proof.
  split.
  - intros (u & v & _ & H1 & _). exfalso; eapply Lang_Emp; eauto.
  - intro H; exfalso; eapply Lang_Emp; eauto.
Qed.

Lemma cat_emp_r a s : (exists u v, s = u ++ v /\ Lang a u /\ Lang Emp v) <-> Lang Emp s.
Proof.
  split.
  - intros (u & v & _ & _ & H1). exfalso; eapply Lang_Emp; eauto.
  - intro H; exfalso; eapply Lang_Emp; eauto.
Qed.

Lemma Lang_And a b s : Lang (And a b) s <-> Lang a s /\ Lang b s.
Proof.
  split.
  - intro H; inversion H; subst; auto.
  - intros [H1 H2]; constructor; auto.
Qed.

Lemma Lang_and_ a b s : Lang (and_ a b) s <-> Lang a s /\ Lang b s.
Proof.
  assert (G : Lang (if re_eqb a b then a else And a b) s <-> Lang a s /\ Lang b s).
  { destruct (re_eqb a b) eqn:M.
    - apply re_eqb_eq in M; subst. tauto.
    - apply Lang_And. }
  assert (E : forall r, (Lang Emp s /\ Lang r s) <-> Lang Emp s).
  { intro r; split; [tauto|]. intro H; exfalso; eapply Lang_Emp; eauto. }
  assert (E' : forall r, (Lang r s /\ Lang Emp s) <-> Lang Emp s).
  { intro r; split; [tauto|]. intro H; exfalso; eapply Lang_Emp; eauto. }
  unfold and_.
  destruct a; [rewrite E; reflexivity | ..];
    (destruct b; [rewrite E'; reflexivity | ..]; exact G).
Qed.

Lemma Lang_cat a b s : Lang (cat a b) s <-> Lang (Cat a b) s.
Proof.
  rewrite Lang_Cat.
  destruct a, b; simpl;
    first [ rewrite cat_emp_l; reflexivity | rewrite cat_emp_r; reflexivity
          | rewrite cat_eps_l; reflexivity | rewrite cat_eps_r; reflexivity
          | apply Lang_Cat ].
Qed.

Lemma alt_mem_sound a b s : alt_mem a b = true -> Lang a s -> Lang b s.
Proof.
  revert a; induction b; simpl; intros a0 H L;
    try (apply re_eqb_eq in H; subst; auto; fail).
  apply orb_true_iff in H as [H|H].
  - apply re_eqb_eq in H; subst. apply LAltL; auto.
  - apply LAltR; eauto.
Qed.

Lemma Lang_alt1 a b s : Lang (alt1 a b) s <-> Lang a s \/ Lang b s.
Proof.
  assert (G : Lang (if alt_mem a b then b else Alt a b) s <-> Lang a s \/ Lang b s).
  { destruct (alt_mem a b) eqn:M.
    - split; auto. intros [H|H]; auto. eapply alt_mem_sound; eauto.
    - apply Lang_Alt. }
  assert (E : forall r, (Lang Emp s \/ Lang r s) <-> Lang r s).
  { intro r; split; auto. intros [H|H]; auto. exfalso; eapply Lang_Emp; eauto. }
  assert (E' : forall r, (Lang r s \/ Lang Emp s) <-> Lang r s).
  { intro r; split; auto. intros [H|H]; auto. exfalso; eapply Lang_Emp; eauto. }
  unfold alt1.
  destruct a; [rewrite E; reflexivity | ..];
    (destruct b; [rewrite E'; reflexivity | ..]; exact G).
Qed.

Lemma Lang_alt a b s : Lang (alt a b) s <-> Lang a s \/ Lang b s.
Proof.
  revert b s; induction a; intros b0 s; try apply Lang_alt1.
  cbn [alt]. rewrite Lang_alt1, IHa2, Lang_Alt. tauto.
Qed.

Lemma Lang_Star_unfold a s :
  Lang (Star a) s <-> s = [] \/ exists x u v, s = (x :: u) ++ v /\ Lang a (x :: u) /\ Lang (Star a) v.
Proof.
  split.
  - intro H. remember (Star a) as r eqn:E. induction H; try discriminate; auto.
    injection E as ->. destruct s as [|x u].
    + simpl. apply IHLang2; auto.
    + right. exists x, u, t. auto.
  - intros [->|(x & u & v & -> & H1 & H2)]; [constructor|].
    apply LStarS; auto.
Qed.

Lemma Lang_star a s : Lang (star a) s <-> Lang (Star a) s.
Proof.
  destruct a; simpl; try reflexivity.
  - rewrite Lang_Eps. split; [intros ->; constructor|].
    intro H. apply Lang_Star_unfold in H as [->|(x & u & v & _ & H & _)]; auto.
    exfalso; eapply Lang_Emp; eauto.
  - rewrite Lang_Eps. split; [intros ->; constructor|].
    intro H. apply Lang_Star_unfold in H as [->|(x & u & v & _ & H & _)]; auto.
    inversion H.
  - split.
    + intro H. rewrite <- (app_nil_r s). apply LStarS; auto. constructor.
    + intro H. remember (Star (Star a)) as r eqn:E.
      induction H; try discriminate.
      * constructor.
      * injection E as ->. specialize (IHLang2 eq_refl).
        clear H0 IHLang1.
        remember (Star a) as r eqn:E. revert IHLang2.
        induction H; try discriminate; intro G; auto.
        injection E as ->. rewrite <- app_assoc. apply LStarS; auto.
Qed.

Lemma deriv_correct x r s : Lang (deriv x r) s <-> Lang r (x :: s).
Proof.
  revert s; induction r; intro s; simpl.
  - split; intro H; inversion H.
  - split; intro H; inversion H.
  - destruct (in_ranges x l) eqn:E.
    + rewrite Lang_Eps. split.
      * intros ->; constructor; auto.
      * intro H; inversion H; auto.
    + split; intro H; inversion H; subst. congruence.
  - assert (C : Lang (cat (deriv x r1) r2) s <->
                exists u v, s = u ++ v /\ Lang r1 (x :: u) /\ Lang r2 v).
    { rewrite Lang_cat, Lang_Cat. split; intros (u & v & -> & H1 & H2); exists u, v;
        repeat split; auto; apply IHr1; auto. }
    destruct (nullable r1) eqn:N1.
    + rewrite Lang_alt, C, IHr2, Lang_Cat. split.
      * intros [(u & v & -> & H1 & H2)|H].
        -- exists (x :: u), v; auto.
        -- exists [], (x :: s); repeat split; auto. apply nullable_correct; auto.
      * intros (u & v & E & H1 & H2). destruct u as [|y u]; simpl in E.
        -- subst; auto.
        -- injection E as -> ->. left; eauto.
    + rewrite C, Lang_Cat. split.
      * intros (u & v & -> & H1 & H2). exists (x :: u), v; auto.
      * intros (u & v & E & H1 & H2). destruct u as [|y u]; simpl in E.
        -- apply nullable_correct in H1; congruence.
        -- injection E as -> ->. eauto.
  - rewrite Lang_alt, IHr1, IHr2, Lang_Alt. tauto.
  - rewrite Lang_cat, Lang_Cat. split.
    + intros (u & v & -> & H1 & H2). apply IHr in H1. apply Lang_star in H2.
      change (x :: u ++ v) with ((x :: u) ++ v). apply LStarS; auto.
    + intro H. apply Lang_Star_unfold in H as [H|(y & u & v & E & H1 & H2)]; [discriminate|].
      injection E as -> ->. exists u, v. repeat split; auto.
      * apply IHr; auto.
      * apply Lang_star; auto.
  - rewrite Lang_and_, IHr1, IHr2, Lang_And. tauto.
Qed.

Theorem matches_correct r s : matches r s = true <-> Lang r s.
Proof.
  revert r; induction s as [|x s IH]; intro r; simpl.
  - apply nullable_correct.
  - rewrite IH. apply deriv_correct.
Qed.

(* convenient derived forms used by generated terms and specifications *)
Definition Sym (x : N) : re := Cls [(x, x)].
Definition Plus (a : re) : re := Cat a (Star a).
Definition Opt (a : re) : re := Alt Eps a.
Fixpoint Lit (s : list N) : re :=
  match s with [] => Eps | x :: s' => Cat (Sym x) (Lit s') end.
(* between m and n repetitions, n >= m *)
Fixpoint RepN (a : re) (m : nat) : re :=
  match m with O => Eps | S m' => Cat a (RepN a m') end.
Fixpoint RepUpTo (a : re) (k : nat) : re :=
  match k with O => Eps | S k' => Opt (Cat a (RepUpTo a k')) end.
Definition Rep (a : re) (m k : nat) : re := Cat (RepN a m) (RepUpTo a k).  (* m .. m+k *)
Definition RepMin (a : re) (m : nat) : re := Cat (RepN a m) (Star a).      (* m .. inf *)

Lemma Lang_Sym x s : Lang (Sym x) s <-> s = [x].
Proof.
  unfold Sym. split.
  - intro H; inversion H; subst. simpl in *. rewrite orb_false_r in *.
    apply andb_true_iff in H1 as [A B]. apply N.leb_le in A, B. f_equal. lia.
  - intros ->. constructor. simpl. rewrite !N.leb_refl. auto.
Qed.

Lemma Lang_Lit l s : Lang (Lit l) s <-> s = l.
Proof.
  revert s; induction l as [|x l IH]; intro s; simpl.
  - apply Lang_Eps.
  - rewrite Lang_Cat. split.
    + intros (u & v & -> & H1 & H2). apply Lang_Sym in H1. apply IH in H2. subst; auto.
    + intros ->. exists [x], l. repeat split; auto; [apply Lang_Sym | apply IH]; auto.
Qed.

Definition bytes_ok (s : list N) : Prop := Forall (fun b => b < 256) s.
