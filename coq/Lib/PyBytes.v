(* Python bytes / str primitives used by the modelled code, as total Gallina
   functions on [list N].  A byte string is a list of N (< 256 when it comes
   from the wire); a str is a list of code points.  Every function here is
   validated against CPython by the K-prim differential suite
   (harness/prim.py). *)
From Coq Require Import List NArith Bool Lia.
Import ListNotations.
Local Open Scope N_scope.

Definition bytes := list N.

Fixpoint beqb (a b : bytes) : bool :=
  match a, b with
  | [], [] => true
  | x :: a', y :: b' => (x =? y) && beqb a' b'
  | _, _ => false
  end.

Lemma beqb_eq a b : beqb a b = true <-> a = b.
Proof.
  revert b; induction a as [|x a IH]; intros [|y b]; simpl; split; try discriminate; auto.
  - intro H. apply andb_true_iff in H as [H1 H2]. apply N.eqb_eq in H1. apply IH in H2. subst; auto.
  - intro H. injection H as -> ->. rewrite N.eqb_refl. apply IH. auto.
Qed.

Fixpoint startswith (s p : bytes) : bool :=
  match p, s with
  | [], _ => true
  | x :: p', y :: s' => (x =? y) && startswith s' p'
  | _ :: _, [] => false
  end.

Definition endswith (s p : bytes) : bool := startswith (rev s) (rev p).

Definition memb (x : N) (l : list N) : bool := existsb (N.eqb x) l.

(* s.find(p): index of the first occurrence *)
Fixpoint find_from (s p : bytes) (i : nat) : option nat :=
  if startswith s p then Some i
  else match s with
       | [] => None
       | _ :: s' => find_from s' p (S i)
       end.
Definition find (s p : bytes) : option nat := find_from s p 0.
Definition contains (s p : bytes) : bool :=
  match find s p with Some _ => true | None => false end.

(* s.split(sep) for a non-empty separator.  [fuel] only has to be > length s. *)
Fixpoint split_fuel (fuel : nat) (s sep : bytes) : list bytes :=
  match fuel with
  | O => [s]
  | S f =>
    match find s sep with
    | None => [s]
    | Some i => firstn i s :: split_fuel f (skipn (i + length sep) s) sep
    end
  end.
Definition split (s sep : bytes) : list bytes := split_fuel (S (length s)) s sep.

(* s.split(sep, 1) *)
Definition split1 (s sep : bytes) : list bytes :=
  match find s sep with
  | None => [s]
  | Some i => [firstn i s; skipn (i + length sep) s]
  end.

(* s.partition(sep) *)
Definition partition (s sep : bytes) : bytes * bytes * bytes :=
  match find s sep with
  | None => (s, [], [])
  | Some i => (firstn i s, sep, skipn (i + length sep) s)
  end.

(* last occurrence: s.rfind(p) *)
Fixpoint rfind_from (s p : bytes) (i : nat) (best : option nat) : option nat :=
  let best' := if startswith s p then Some i else best in
  match s with
  | [] => best'
  | _ :: s' => rfind_from s' p (S i) best'
  end.
Definition rfind (s p : bytes) : option nat := rfind_from s p 0 None.

(* s.rsplit(sep, 1) *)
Definition rsplit1 (s sep : bytes) : list bytes :=
  match rfind s sep with
  | None => [s]
  | Some i => [firstn i s; skipn (i + length sep) s]
  end.

Fixpoint lstrip_by (f : N -> bool) (s : bytes) : bytes :=
  match s with
  | x :: s' => if f x then lstrip_by f s' else s
  | [] => []
  end.
Definition rstrip_by (f : N -> bool) (s : bytes) : bytes := rev (lstrip_by f (rev s)).
Definition strip_by (f : N -> bool) (s : bytes) : bytes := rstrip_by f (lstrip_by f s).

(* bytes.strip() with no argument: ASCII whitespace  b' \t\n\r\x0b\x0c' *)
Definition is_bytes_ws (x : N) : bool := ((9 <=? x) && (x <=? 13)) || (x =? 32).
(* str.strip() with no argument, on code points: Unicode White_Space plus
   the separators 0x1c-0x1f that Python treats as whitespace *)
Definition is_str_ws (x : N) : bool :=
  ((9 <=? x) && (x <=? 13)) || ((28 <=? x) && (x <=? 32)) || (x =? 133) || (x =? 160)
  || (x =? 5760) || ((8192 <=? x) && (x <=? 8202)) || (x =? 8232) || (x =? 8233)
  || (x =? 8239) || (x =? 8287) || (x =? 12288).
Definition is_sp_htab (x : N) : bool := (x =? 32) || (x =? 9).

(* ASCII case mapping (bytes.upper / bytes.lower) *)
Definition upper_ascii_b (x : N) : N := if (97 <=? x) && (x <=? 122) then x - 32 else x.
Definition lower_ascii_b (x : N) : N := if (65 <=? x) && (x <=? 90) then x + 32 else x.
Definition upper_ascii (s : bytes) : bytes := map upper_ascii_b s.
Definition lower_ascii (s : bytes) : bytes := map lower_ascii_b s.

(* str.lower() restricted to code points < 256 (latin-1 decoded text): the
   result stays below 256 and has the same length.  Code points >= 256 are
   left unchanged (the models only apply it to latin-1 decoded header text;
   K-prim checks exactly that domain). *)
Definition lower_latin1_c (x : N) : N :=
  if (65 <=? x) && (x <=? 90) then x + 32
  else if (192 <=? x) && (x <=? 222) && negb (x =? 215) then x + 32
  else x.
Definition lower_latin1 (s : bytes) : bytes := map lower_latin1_c s.

Definition replace_byte (a b : N) (s : bytes) : bytes :=
  map (fun x => if x =? a then b else x) s.

Fixpoint join (sep : bytes) (l : list bytes) : bytes :=
  match l with
  | [] => []
  | [x] => x
  | x :: l' => x ++ sep ++ join sep l'
  end.

(* str.split() with no argument: runs of whitespace separate, no empty items *)
Fixpoint split_ws_go (f : N -> bool) (s cur : bytes) : list bytes :=
  match s with
  | [] => match cur with [] => [] | _ => [rev cur] end
  | x :: s' =>
    if f x then match cur with
                | [] => split_ws_go f s' []
                | _ => rev cur :: split_ws_go f s' []
                end
    else split_ws_go f s' (x :: cur)
  end.
Definition split_ws (f : N -> bool) (s : bytes) : list bytes := split_ws_go f s [].

(* decimal / hexadecimal *)
Definition is_digit (x : N) : bool := (48 <=? x) && (x <=? 57).
Definition hexval (x : N) : option N :=
  if (48 <=? x) && (x <=? 57) then Some (x - 48)
  else if (97 <=? x) && (x <=? 102) then Some (x - 87)
  else if (65 <=? x) && (x <=? 70) then Some (x - 55)
  else None.

Fixpoint dec_value_acc (s : bytes) (acc : N) : N :=
  match s with
  | [] => acc
  | x :: s' => dec_value_acc s' (10 * acc + (x - 48))
  end.
(* value of a string of ASCII digits *)
Definition dec_value (s : bytes) : N := dec_value_acc s 0.

Fixpoint hex_value_acc (s : bytes) (acc : N) : N :=
  match s with
  | [] => acc
  | x :: s' => hex_value_acc s' (16 * acc + match hexval x with Some v => v | None => 0 end)
  end.
Definition hex_value (s : bytes) : N := hex_value_acc s 0.

(* str(n) : decimal digits, fuelled by the bit size *)
Fixpoint to_dec_fuel (fuel : nat) (n : N) (acc : bytes) : bytes :=
  match fuel with
  | O => acc
  | S f => let d := 48 + n mod 10 in
           if n <? 10 then d :: acc else to_dec_fuel f (n / 10) (d :: acc)
  end.
Definition to_dec (n : N) : bytes := to_dec_fuel (S (N.to_nat (N.size n))) n [].

Definition hexdigit_upper (d : N) : N := if d <? 10 then 48 + d else 55 + d.
Fixpoint to_hex_fuel (fuel : nat) (n : N) (acc : bytes) : bytes :=
  match fuel with
  | O => acc
  | S f => let d := hexdigit_upper (n mod 16) in
           if n <? 16 then d :: acc else to_hex_fuel f (n / 16) (d :: acc)
  end.
(* hex(n)[2:].upper() *)
Definition to_hex_upper (n : N) : bytes := to_hex_fuel (S (N.to_nat (N.size n))) n [].

Definition lenN (s : bytes) : N := N.of_nat (length s).

(* Python slicing helpers on non-negative indices *)
Definition slice_to (s : bytes) (n : N) : bytes := firstn (N.to_nat n) s.      (* s[:n] *)
Definition slice_from (s : bytes) (n : N) : bytes := skipn (N.to_nat n) s.     (* s[n:] *)
(* s[-k:] for k >= 1 *)
Definition last_k {A} (l : list A) (k : nat) : list A := skipn (length l - k) l.
