(* Model/ChanClose.v -- the narrow interleaving model of waitress.channel.HTTPChannel
   (channel.py) for property C11 "nothing is executed after the server has decided to
   close a connection".

   THREADS.  IO (wasyncore.poll turn for this channel: readable(), writable(), select,
   handle_read -> received, handle_write, handle_close; server.maintenance), pool
   workers w = 0,1,2,... (handler_thread: popleft; HTTPChannel.service()), SD (the
   thread that runs ThreadedTaskDispatcher.shutdown -> HTTPChannel.cancel()), and the
   environment, whose contributions (what recv returns, what select reports, whether a
   send fails and how, the value of total_outbufs_len at the moment it is read, whether
   the channel timed out, how a task ends) are arguments of the choices, so "for all
   schedules" quantifies over all of them.

   SHARED STATE (channel attributes and what the argument needs of the dispatcher):
     wc    = self.will_close          cwf  = self.close_when_flushed
     conn  = self.connected           reqs = self.requests  (a request = id + "is an error request")
     rlock = owner of self.requests_lock
     queue = number of entries for this channel in ThreadedTaskDispatcher.queue
     inmap = the channel is still in the socket map (wasyncore.dispatcher.close not run yet)
     look  = adj.channel_request_lookahead (a constant of the run: parameter L of the theorems)

   WHICH STATEMENT IS WHICH STEP (channel.py line numbers of the pinned tree, informative).
   Every read or write of wc / cwf / conn / reqs that is not protected by one lock on all
   its accesses is its own step; the lock operations on requests_lock are steps; add_task
   is a step (the critical section of ThreadedTaskDispatcher.add_task, task.py:107-115).

   IO, one poll turn (wasyncore.poll 145-198; poll2 has the same per-channel order):
     IoTop   readable() 149-154, short-circuit `or`:        R will_close
     IoR2                                                   R close_when_flushed
     IoR3                                                   R requests (len > lookahead)
     IoR4                                                   R total_outbufs_len (value: environment)
     IoW1    writable() 88, short-circuit `or`:             R total_outbufs_len (value: environment)
     IoW2                                                   R will_close
     IoW3                                                   R close_when_flushed
     IoSel   select: the environment reports read/write readiness, only for what was asked
             (rd -> rv, wr -> wv).  THE GAP: rv was computed by IoTop..IoR4 from values that
             may be stale by now; handle_read acts on it all the same.
     IoTop / IoSel + EMaint: BaseWSGIServer.maintenance (server.py:342-351) runs from the
             listener's readable() in the same `for fd, obj in map.items()` loop, i.e.
             before this channel's readable() or after its writable():
     IoM1                                                   R requests (`not channel.requests`)
     IoM2    `last_activity < cutoff` (environment) ->      W will_close := True     [DMaint]
     IoHR    handle_read 156-171: recv (wasyncore 404-420).  Data -> received; EOF or an errno
             in _DISCONNECTED -> IoHRc1: handle_close inside dispatcher.recv, b"" returned, then
             IoEof; any other errno -> IoHRc2: handle_close (162), return.
     IoEof   171                                            W connected := False     [DEof]
     IoRC0   received 200                                   acquire requests_lock
     IoRC1   207                                            R will_close       -> return (release)
     IoRC2   207                                            R close_when_flushed -> return (release)
     IoRCloop 210-243 one iteration per item of the data: a completed non-empty request:
             231 `self.requests.append(self.request)`: R requests (the list object is loaded),
     IoRCapp  then, after `self.request` has been loaded, the append          [LQueued]
             (IoRCappX: cancel() has replaced self.requests by a new list in between: the append
             goes to the old list and is lost);
             or a head with Expect: 100-continue: 224 send_continue(), whose flush
             _flush_exception(self._flush_some, do_close=True) may hit a disconnect errno
             -> handle_close                                                 [DHandleClose]
             or another OSError -> 129 W will_close := True                  [DFlushErrIO]
             (a close decision taken by the I/O thread WHILE it holds requests_lock and is in
             the middle of the loop: the requests that follow in the same data are still queued)
     IoRClen 233                                            R requests (len == 1)
     IoRCadd 238                                            server.add_task(self)
     IoRCrel end of the `with`                              release requests_lock
             (after the loop the release is the step taken at IoRCloop with no item left)
     after_read: poll's `for fd in w`: map.get(fd) is None after a close -> skipped
     IoHW0   handle_write 95-116: choose the flush (_flush_some_if_lockable in both branches: the
             I/O thread only flushes under outbuf_lock, which the model does not keep) and run it
             through _flush_exception:
             OSError -> 129                                 W will_close := True     [DFlushErrIO]
             disconnect errno inside send(do_close=True) -> handle_close     [DHandleClose]
     IoHW1   115                                            R close_when_flushed
     IoHW1b  115                                            R total_outbufs_len (value: environment)
     IoHW2   116                                            W close_when_flushed := False
     IoHW3   117                                            W will_close := True     [DFlushed]
     IoHW4   119                                            R will_close
     IoHW5   120                                            handle_close             [DHandleClose]
     handle_close 309-321 is ONE step: W connected := False (+ total_outbufs_len := 0, and
             wasyncore.dispatcher.close: connected := False again, del_channel, socket.close).
     turn_end: `while map: poll(...)`; poll's `list(map.items())` is taken in the same block as
             the last operation of the previous turn: a channel that has left the map by then
             is not polled again (IoDead); one that leaves it during the turn is skipped after
             select (`map.get(fd) is None`).
     IoDead  the channel has left the map.

   Worker w (task.py handler_thread 66-84, channel.py service 419-516):
     WIdle    handler_thread under the dispatcher lock: queue.popleft()          -> WPopped
     WPopped  release of the dispatcher lock; task.service() is entered [LServiceStart] -> WSvc0
     WSvc0    423 R requests ([0]); IndexError if empty (escapes to handler_thread: LCrash)
     WSvc1    433 `if self.connected and not self.will_close`:  R connected; False -> 439
              close_on_finish := True (mc: the close branch is now forced)
     WSvc1b   433                                           R will_close; True -> 439 as above;
              False -> task.service(): the application is called             [LAppCall]
              (ErrorTask for an error request: no application call)
     WTask    the task runs (432; exception ladder 435-463; keep branch 481-493 before the lock):
              WRdConn   write_soon 348 / 359: R connected; False -> ClientDisconnected -> 437/461 mc
              WFlushErr write_soon 381 / _flush_outbufs_below_high_watermark 401:
                        _flush_exception(self._flush_some, do_close=False) caught OSError:
                        129                                 W will_close := True     [DFlushErrW]
              WLock b   465: close_on_finish = b (environment; forced True if mc);
                        466 / 496                           acquire requests_lock
     WClose1  467                                           W close_when_flushed := True [DWorkerClose]
     WClose2  469-471                                       W requests := []
     WClose3                                                release requests_lock (and the rest
              of service(), as at WKeep5)                                    [LServiceEnd]
     WKeep1   497 requests.pop(0) (IndexError if empty: lock released by the `with`, LCrash)
     WKeep2   499                                           R connected
     WKeep3   499                                           R requests (non-empty?)
     WKeepAdd 500                                           server.add_task(self)
     WKeepE   502 R connected (elif), 503-506, 511 send_continue(do_close=False): the worker's
              flush never runs handle_close (a disconnect errno makes send return 0); it goes
              through _flush_exception: another OSError -> W will_close := True [DFlushErrW]
     WKeep5                                                 release requests_lock
              and the rest of service() (513-516: R connected, pull_trigger, W last_activity),
              which touches nothing the model keeps                          [LServiceEnd]

   SD:  SdIdle: shutdown's `task = queue.popleft()` (task.py:133, under the dispatcher lock)
        SdC1 520 W will_close := True [DCancelWC]; SdC2 521 W connected := False [DCancelConn];
        SdC3 523 W requests := [] (a NEW list object: an append in flight at IoRCapp is lost);
        back to SdIdle (`while queue`).

   ABSTRACTIONS, and why they are sound for C11 (a safety property of the label trace):
   * total_outbufs_len, outbufs, outbuf_lock, the trigger, last_activity and the bytes are not
     state: every read of total_outbufs_len returns a value chosen by the environment, select
     may report anything that was asked for, a flush fails whenever the environment says so.
     This only ADDS behaviours (every real run is a run of the model).
   * socket errors: the model's flush outcomes are classes of errno.  FOk: bytes sent, EWOULDBLOCK,
     and -- on a worker (do_close=False) -- the six "silent disconnect" errnos of
     wasyncore._DISCONNECTED (ECONNRESET ENOTCONN ESHUTDOWN ECONNABORTED EPIPE EBADF), which
     dispatcher.send swallows: no decision.  FDisc: one of those six on the I/O thread
     (do_close=True): handle_close.  FErr / WFlushErr: EVERY other errno: _flush_exception sets
     will_close on the flushing thread.  recv: REof = one of the six (handle_close, b"", then
     connected := False), RErr = every other errno incl. EWOULDBLOCK (handle_close).  Which errno
     falls in which class is NOT a choice of the environment: the conformance K-errno
     (harness/chanclose.py errno_conformance) checks on every injected errno, drawn from all of
     errno.errorcode, that the real code takes exactly the decision of its class, and the set of
     six is audited against the source.
   * the request parser: the data of one recv is the list of its completed non-empty requests
     (each valid or an error request -- garbage is an error request) and of its
     100-continue heads; partial data is the empty list.  Parsing itself is C01/C02.
   * the task: only its reads of `connected` in write_soon, its worker-side flush errors and
     its verdict close_on_finish are kept; an error request never calls the application.
   * requests.pop(0) / requests[0] / len(requests) / iteration are one step each although CPython
     loads the attribute first: only cancel() replaces the list object without the lock, and
     cancel() runs only on a channel taken from the dispatcher queue, i.e. while no worker is
     inside service() (invariant i_act_excl).  The append of received() IS split (IoRCapp).
   * workers never exit (set_thread_count(0) would only remove behaviours).
   * handle_close by the I/O thread is one step (its wait for outbuf_lock is not modelled: the
     schedule can delay the step for as long as it likes, which covers the wait).

   GHOST (never read by the program): nreq, nsvc (fresh ids), gdec ("a close decision has
   been taken"), the flag `late` in a worker's program
   counter (value of gdec when service() was entered).  Labels are ghost output. *)
From Coq Require Import List Arith Bool.
Import ListNotations.

Record req := mkReq { rid : nat; rerr : bool }.

(* the kinds of close decision *)
Inductive dkind :=
| DWorkerClose   (* service(): close_when_flushed := True under requests_lock *)
| DFlushed       (* handle_write: close_when_flushed and nothing left: will_close := True *)
| DMaint         (* maintenance: will_close := True *)
| DFlushErrIO    (* _flush_exception on the I/O thread (handle_write; send_continue inside
                    received()): will_close := True *)
| DFlushErrW     (* _flush_exception(do_close=False) on a worker (write_soon,
                    _flush_outbufs_below_high_watermark, send_continue at the tail of service()):
                    will_close := True   (F22) *)
| DHandleClose   (* handle_close (always on the I/O thread): connected := False *)
| DEof           (* handle_read: connected := False *)
| DCancelWC      (* cancel(): will_close := True *)
| DCancelConn.   (* cancel(): connected := False *)

(* decisions for which C11 is proved: all of them (since /repo 64d926d service() reads will_close
   as well; before it the two _flush_exception kinds were the finding F22) *)
Definition covered (k : dkind) : bool := true.

Inductive who := ByIO | ByW (w : nat) | BySD.

Inductive label :=
| LDecide (k : dkind)
| LServiceStart (sid : nat)
| LServiceReq (sid : nat) (r : nat)
| LAppCall (sid : nat) (r : nat)
| LServiceEnd (sid : nat)
| LCrash (sid : nat)
| LQueued (r : nat)
| LRefused
| LAddTask (t : who)
| LCancelled.

Inductive iopc :=
| IoTop | IoR2 | IoR3 | IoR4 | IoW1 | IoW2 | IoW3 | IoSel
| IoM1 | IoM2
| IoHR | IoHRc1 | IoHRc2 | IoEof
| IoRC0 | IoRC1 | IoRC2 | IoRCloop | IoRCapp | IoRCappX | IoRClen | IoRCadd | IoRCrel
| IoHW0 | IoHW1 | IoHW1b | IoHW2 | IoHW3 | IoHW4 | IoHW5
| IoDead.

Inductive wpc :=
| WIdle
| WPopped
| WSvc0 (sid : nat) (late : bool)
| WSvc1 (sid : nat) (late : bool) (r : req)
| WSvc1b (sid : nat) (late : bool) (r : req)
| WTask (sid : nat) (mc : bool)
| WClose1 (sid : nat) | WClose2 (sid : nat) | WClose3 (sid : nat)
| WKeep1 (sid : nat) | WKeep2 (sid : nat) | WKeep3 (sid : nat) | WKeepAdd (sid : nat)
| WKeepE (sid : nat) | WKeep5 (sid : nat).

Inductive sdpc := SdIdle | SdC1 | SdC2 | SdC3.

(* how a flush through _flush_exception ends: sent something / nothing, an OSError that is not a
   disconnect (will_close := True), a disconnect errno with do_close=True (handle_close) *)
Inductive fres := FOk | FErr | FDisc.

(* one item of received data *)
Inductive item :=
| IReq (err : bool)      (* a completed, non-empty request; err: the parser flagged an error *)
| ICont (f : fres).      (* a head expecting 100-continue, and how the flush of send_continue ends *)

Inductive recvres := RData (items : list item) | REof | RErr.

Inductive ioenv :=
| ENone
| EMaint
| ETimeout (b : bool)
| ELen (n : nat)
| ESelect (rd wr : bool)
| ERecv (r : recvres)
| EFlush (f : fres).

Inductive wkenv :=
| WNone
| WRdConn
| WFlushErr
| WLock (b : bool).

Inductive choice :=
| CIo (e : ioenv)
| CWk (w : nat) (e : wkenv)
| CSd.

Record state := mkState {
  look : nat;
  wc : bool; cwf : bool; conn : bool;
  reqs : list req;
  rlock : option who;
  queue : nat;
  inmap : bool;
  io : iopc;
  rv : bool; wv : bool;       (* I/O thread locals: the verdicts of readable() / writable() *)
  rd : bool; wr : bool;       (* I/O thread locals: what select reported *)
  items : list item;          (* I/O thread local: the rest of the data being processed *)
  mret : iopc;                (* I/O thread local: where maintenance returns to *)
  wk : nat -> wpc;
  sd : sdpc;
  nreq : nat; nsvc : nat;     (* ghost *)
  gdec : bool                 (* ghost *)
}.

Definition init (L : nat) : state :=
  mkState L false false true [] None 0 true IoTop false false false false [] IoTop
          (fun _ => WIdle) SdIdle 0 0 false.

(* ---- field updates ------------------------------------------------------------ *)
Definition set_io (s : state) (p : iopc) : state :=
  mkState (look s) (wc s) (cwf s) (conn s) (reqs s) (rlock s) (queue s) (inmap s) p
          (rv s) (wv s) (rd s) (wr s) (items s) (mret s) (wk s) (sd s) (nreq s) (nsvc s) (gdec s).
Definition set_rv (s : state) (b : bool) : state :=
  mkState (look s) (wc s) (cwf s) (conn s) (reqs s) (rlock s) (queue s) (inmap s) (io s)
          b (wv s) (rd s) (wr s) (items s) (mret s) (wk s) (sd s) (nreq s) (nsvc s) (gdec s).
Definition set_wv (s : state) (b : bool) : state :=
  mkState (look s) (wc s) (cwf s) (conn s) (reqs s) (rlock s) (queue s) (inmap s) (io s)
          (rv s) b (rd s) (wr s) (items s) (mret s) (wk s) (sd s) (nreq s) (nsvc s) (gdec s).
Definition set_sel (s : state) (a b : bool) : state :=
  mkState (look s) (wc s) (cwf s) (conn s) (reqs s) (rlock s) (queue s) (inmap s) (io s)
          (rv s) (wv s) a b (items s) (mret s) (wk s) (sd s) (nreq s) (nsvc s) (gdec s).
Definition set_items (s : state) (l : list item) : state :=
  mkState (look s) (wc s) (cwf s) (conn s) (reqs s) (rlock s) (queue s) (inmap s) (io s)
          (rv s) (wv s) (rd s) (wr s) l (mret s) (wk s) (sd s) (nreq s) (nsvc s) (gdec s).
Definition set_mret (s : state) (p : iopc) : state :=
  mkState (look s) (wc s) (cwf s) (conn s) (reqs s) (rlock s) (queue s) (inmap s) (io s)
          (rv s) (wv s) (rd s) (wr s) (items s) p (wk s) (sd s) (nreq s) (nsvc s) (gdec s).
Definition set_wc (s : state) (b : bool) : state :=
  mkState (look s) b (cwf s) (conn s) (reqs s) (rlock s) (queue s) (inmap s) (io s)
          (rv s) (wv s) (rd s) (wr s) (items s) (mret s) (wk s) (sd s) (nreq s) (nsvc s) (gdec s).
Definition set_cwf (s : state) (b : bool) : state :=
  mkState (look s) (wc s) b (conn s) (reqs s) (rlock s) (queue s) (inmap s) (io s)
          (rv s) (wv s) (rd s) (wr s) (items s) (mret s) (wk s) (sd s) (nreq s) (nsvc s) (gdec s).
Definition set_conn (s : state) (b : bool) : state :=
  mkState (look s) (wc s) (cwf s) b (reqs s) (rlock s) (queue s) (inmap s) (io s)
          (rv s) (wv s) (rd s) (wr s) (items s) (mret s) (wk s) (sd s) (nreq s) (nsvc s) (gdec s).
Definition set_reqs (s : state) (l : list req) : state :=
  mkState (look s) (wc s) (cwf s) (conn s) l (rlock s) (queue s) (inmap s) (io s)
          (rv s) (wv s) (rd s) (wr s) (items s) (mret s) (wk s) (sd s) (nreq s) (nsvc s) (gdec s).
Definition set_rlock (s : state) (o : option who) : state :=
  mkState (look s) (wc s) (cwf s) (conn s) (reqs s) o (queue s) (inmap s) (io s)
          (rv s) (wv s) (rd s) (wr s) (items s) (mret s) (wk s) (sd s) (nreq s) (nsvc s) (gdec s).
Definition set_queue (s : state) (n : nat) : state :=
  mkState (look s) (wc s) (cwf s) (conn s) (reqs s) (rlock s) n (inmap s) (io s)
          (rv s) (wv s) (rd s) (wr s) (items s) (mret s) (wk s) (sd s) (nreq s) (nsvc s) (gdec s).
Definition set_inmap (s : state) (b : bool) : state :=
  mkState (look s) (wc s) (cwf s) (conn s) (reqs s) (rlock s) (queue s) b (io s)
          (rv s) (wv s) (rd s) (wr s) (items s) (mret s) (wk s) (sd s) (nreq s) (nsvc s) (gdec s).
Definition set_wk (s : state) (w : nat) (p : wpc) : state :=
  mkState (look s) (wc s) (cwf s) (conn s) (reqs s) (rlock s) (queue s) (inmap s) (io s)
          (rv s) (wv s) (rd s) (wr s) (items s) (mret s)
          (fun w' => if Nat.eqb w' w then p else wk s w') (sd s) (nreq s) (nsvc s) (gdec s).
Definition set_sd (s : state) (p : sdpc) : state :=
  mkState (look s) (wc s) (cwf s) (conn s) (reqs s) (rlock s) (queue s) (inmap s) (io s)
          (rv s) (wv s) (rd s) (wr s) (items s) (mret s) (wk s) p (nreq s) (nsvc s) (gdec s).
Definition set_nreq (s : state) (n : nat) : state :=
  mkState (look s) (wc s) (cwf s) (conn s) (reqs s) (rlock s) (queue s) (inmap s) (io s)
          (rv s) (wv s) (rd s) (wr s) (items s) (mret s) (wk s) (sd s) n (nsvc s) (gdec s).
Definition set_nsvc (s : state) (n : nat) : state :=
  mkState (look s) (wc s) (cwf s) (conn s) (reqs s) (rlock s) (queue s) (inmap s) (io s)
          (rv s) (wv s) (rd s) (wr s) (items s) (mret s) (wk s) (sd s) (nreq s) n (gdec s).
Definition set_gdec (s : state) (b : bool) : state :=
  mkState (look s) (wc s) (cwf s) (conn s) (reqs s) (rlock s) (queue s) (inmap s) (io s)
          (rv s) (wv s) (rd s) (wr s) (items s) (mret s) (wk s) (sd s) (nreq s) (nsvc s) b.

(* a close decision of kind k is being taken: the ghost flag and the label *)
Definition decide (s : state) (k : dkind) : state := set_gdec s (gdec s || covered k).

(* handle_close (309-321 + wasyncore.dispatcher.close) *)
Definition handle_close (s : state) : state := set_inmap (set_conn s false) false.

Definition is_free (s : state) : bool := match rlock s with None => true | Some _ => false end.

(* where the poll turn goes on after the read phase: poll's `for fd in w: obj = map.get(fd)`
   skips a channel that has left the map; handle_write_event otherwise, if select said so *)
Definition turn_end (s : state) : iopc := if inmap s then IoTop else IoDead.
Definition after_read (s : state) : iopc := if inmap s && wr s then IoHW0 else turn_end s.

(* ---- the I/O thread ------------------------------------------------------------- *)
Definition step_io (s : state) (e : ioenv) : option (state * list label) :=
  match io s, e with
  (* maintenance may run before readable() or after writable() *)
  | IoTop, EMaint => Some (set_io (set_mret s IoTop) IoM1, [])
  | IoSel, EMaint => Some (set_io (set_mret s IoSel) IoM1, [])
  | IoM1, ENone =>
      match reqs s with
      | [] => Some (set_io s IoM2, [])
      | _ :: _ => Some (set_io s (mret s), [])
      end
  | IoM2, ETimeout b =>
      if b then Some (set_io (decide (set_wc s true) DMaint) (mret s), [LDecide DMaint])
      else Some (set_io s (mret s), [])
  (* readable() *)
  | IoTop, ENone =>
      if wc s then Some (set_io (set_rv s false) IoW1, []) else Some (set_io s IoR2, [])
  | IoR2, ENone =>
      if cwf s then Some (set_io (set_rv s false) IoW1, []) else Some (set_io s IoR3, [])
  | IoR3, ENone =>
      if Nat.ltb (look s) (length (reqs s)) then Some (set_io (set_rv s false) IoW1, [])
      else Some (set_io s IoR4, [])
  | IoR4, ELen n => Some (set_io (set_rv s (Nat.eqb n 0)) IoW1, [])
  (* writable() *)
  | IoW1, ELen n =>
      if Nat.ltb 0 n then Some (set_io (set_wv s true) IoSel, []) else Some (set_io s IoW2, [])
  | IoW2, ENone =>
      if wc s then Some (set_io (set_wv s true) IoSel, []) else Some (set_io s IoW3, [])
  | IoW3, ENone => Some (set_io (set_wv s (cwf s)) IoSel, [])
  (* select: only what was asked for can be reported *)
  | IoSel, ESelect a b =>
      if (implb a (rv s)) && (implb b (wv s)) then
        let s1 := set_sel s a b in
        Some (set_io s1 (if a && inmap s then IoHR else after_read s1), [])
      else None
  (* handle_read *)
  | IoHR, ERecv (RData l) => Some (set_io (set_items s l) IoRC0, [])
  | IoHR, ERecv REof => Some (set_io s IoHRc1, [])
  | IoHR, ERecv RErr => Some (set_io s IoHRc2, [])
  | IoHRc1, ENone =>
      Some (set_io (decide (handle_close s) DHandleClose) IoEof, [LDecide DHandleClose])
  | IoHRc2, ENone =>
      let s1 := decide (handle_close s) DHandleClose in
      Some (set_io s1 (after_read s1), [LDecide DHandleClose])
  | IoEof, ENone =>
      let s1 := decide (set_conn s false) DEof in Some (set_io s1 (after_read s1), [LDecide DEof])
  (* received *)
  | IoRC0, ENone =>
      if is_free s then Some (set_io (set_rlock s (Some ByIO)) IoRC1, []) else None
  | IoRC1, ENone =>
      if wc s then Some (set_io (set_items s []) IoRCrel, [LRefused]) else Some (set_io s IoRC2, [])
  | IoRC2, ENone =>
      if cwf s then Some (set_io (set_items s []) IoRCrel, [LRefused]) else Some (set_io s IoRCloop, [])
  | IoRCloop, ENone =>
      match items s with
      | [] => let s1 := set_rlock s None in Some (set_io s1 (after_read s1), [])
      | IReq e :: rest => Some (set_io s IoRCapp, [])
      | ICont FOk :: rest => Some (set_items s rest, [])
      | ICont FDisc :: rest =>
          Some (set_items (decide (handle_close s) DHandleClose) rest, [LDecide DHandleClose])
      | ICont FErr :: rest =>
          Some (set_items (decide (set_wc s true) DFlushErrIO) rest, [LDecide DFlushErrIO])
      end
  | IoRCapp, ENone =>
      match items s with
      | IReq e :: rest =>
          let r := mkReq (nreq s) e in
          Some (set_io (set_items (set_nreq (set_reqs s (reqs s ++ [r])) (S (nreq s))) rest) IoRClen,
                [LQueued (nreq s)])
      | _ => None
      end
  | IoRCappX, ENone =>
      match items s with
      | IReq e :: rest => Some (set_io (set_items (set_nreq s (S (nreq s))) rest) IoRClen, [])
      | _ => None
      end
  | IoRClen, ENone =>
      if Nat.eqb (length (reqs s)) 1 then Some (set_io s IoRCadd, []) else Some (set_io s IoRCloop, [])
  | IoRCadd, ENone => Some (set_io (set_queue s (S (queue s))) IoRCloop, [LAddTask ByIO])
  | IoRCrel, ENone => let s1 := set_rlock s None in Some (set_io s1 (after_read s1), [])
  (* handle_write *)
  | IoHW0, EFlush FOk => Some (set_io s IoHW1, [])
  | IoHW0, EFlush FErr =>
      Some (set_io (decide (set_wc s true) DFlushErrIO) IoHW1, [LDecide DFlushErrIO])
  | IoHW0, EFlush FDisc =>
      Some (set_io (decide (handle_close s) DHandleClose) IoHW1, [LDecide DHandleClose])
  | IoHW1, ENone => if cwf s then Some (set_io s IoHW1b, []) else Some (set_io s IoHW4, [])
  | IoHW1b, ELen n => if Nat.eqb n 0 then Some (set_io s IoHW2, []) else Some (set_io s IoHW4, [])
  | IoHW2, ENone => Some (set_io (set_cwf s false) IoHW3, [])
  | IoHW3, ENone => Some (set_io (decide (set_wc s true) DFlushed) IoHW4, [LDecide DFlushed])
  | IoHW4, ENone => if wc s then Some (set_io s IoHW5, []) else Some (set_io s (turn_end s), [])
  | IoHW5, ENone =>
      Some (set_io (decide (handle_close s) DHandleClose) IoDead, [LDecide DHandleClose])
  | _, _ => None
  end.

(* ---- a worker ------------------------------------------------------------------- *)
Definition step_wk (s : state) (w : nat) (e : wkenv) : option (state * list label) :=
  match wk s w, e with
  | WIdle, WNone =>
      match queue s with
      | 0 => None
      | S q => Some (set_wk (set_queue s q) w WPopped, [])
      end
  | WPopped, WNone =>
      Some (set_nsvc (set_wk s w (WSvc0 (nsvc s) (gdec s))) (S (nsvc s)), [LServiceStart (nsvc s)])
  | WSvc0 k lt, WNone =>
      match reqs s with
      | [] => Some (set_wk s w WIdle, [LCrash k])
      | r :: _ => Some (set_wk s w (WSvc1 k lt r), [LServiceReq k (rid r)])
      end
  | WSvc1 k lt r, WNone =>
      if conn s then Some (set_wk s w (WSvc1b k lt r), []) else Some (set_wk s w (WTask k true), [])
  | WSvc1b k lt r, WNone =>
      if wc s then Some (set_wk s w (WTask k true), [])
      else Some (set_wk s w (WTask k false), if rerr r then [] else [LAppCall k (rid r)])
  | WTask k mc, WRdConn =>
      if conn s then Some (s, []) else Some (set_wk s w (WTask k true), [])
  | WTask k mc, WFlushErr => Some (decide (set_wc s true) DFlushErrW, [LDecide DFlushErrW])
  | WTask k mc, WLock b =>
      if is_free s && implb mc b then
        Some (set_wk (set_rlock s (Some (ByW w))) w (if b then WClose1 k else WKeep1 k), [])
      else None
  | WClose1 k, WNone =>
      Some (set_wk (decide (set_cwf s true) DWorkerClose) w (WClose2 k), [LDecide DWorkerClose])
  | WClose2 k, WNone => Some (set_wk (set_reqs s []) w (WClose3 k), [])
  | WClose3 k, WNone => Some (set_wk (set_rlock s None) w WIdle, [LServiceEnd k])
  | WKeep1 k, WNone =>
      match reqs s with
      | [] => Some (set_wk (set_rlock s None) w WIdle, [LCrash k])
      | _ :: rest => Some (set_wk (set_reqs s rest) w (WKeep2 k), [])
      end
  | WKeep2 k, WNone =>
      if conn s then Some (set_wk s w (WKeep3 k), []) else Some (set_wk s w (WKeepE k), [])
  | WKeep3 k, WNone =>
      match reqs s with
      | [] => Some (set_wk s w (WKeepE k), [])
      | _ :: _ => Some (set_wk s w (WKeepAdd k), [])
      end
  | WKeepAdd k, WNone => Some (set_wk (set_queue s (S (queue s))) w (WKeep5 k), [LAddTask (ByW w)])
  | WKeepE k, WNone => Some (set_wk s w (WKeep5 k), [])
  | WKeepE k, WFlushErr =>
      Some (set_wk (decide (set_wc s true) DFlushErrW) w (WKeep5 k), [LDecide DFlushErrW])
  | WKeep5 k, WNone => Some (set_wk (set_rlock s None) w WIdle, [LServiceEnd k])
  | _, _ => None
  end.

(* ---- shutdown -> cancel() ------------------------------------------------------- *)
Definition step_sd (s : state) : option (state * list label) :=
  match sd s with
  | SdIdle =>
      match queue s with
      | 0 => None
      | S q => Some (set_sd (set_queue s q) SdC1, [LCancelled])
      end
  | SdC1 => Some (set_sd (decide (set_wc s true) DCancelWC) SdC2, [LDecide DCancelWC])
  | SdC2 => Some (set_sd (decide (set_conn s false) DCancelConn) SdC3, [LDecide DCancelConn])
  | SdC3 =>
      let s1 := set_reqs s [] in
      Some (set_sd (match io s with IoRCapp => set_io s1 IoRCappX | _ => s1 end) SdIdle, [])
  end.

Definition step (s : state) (c : choice) : option (state * list label) :=
  match c with
  | CIo e => step_io s e
  | CWk w e => step_wk s w e
  | CSd => step_sd s
  end.

(* ---- the property as an executable monitor over the label trace -------------------
   good k = "decisions of kind k count".  The monitor remembers whether such a decision has
   been seen, which service() invocations have been entered at all and which of them were
   entered after the decision; it fails on an application call by one of the latter (and on an
   application call outside any service() invocation, and on a re-used invocation id, so that
   "no AppCall for that invocation anywhere in the trace" follows). *)
Record mon := mkMon { m_dec : bool; m_late : list nat; m_started : list nat; m_ok : bool }.
Definition mon0 := mkMon false [] [] true.

Definition mem (k : nat) (l : list nat) : bool := existsb (Nat.eqb k) l.

Definition mon_step (good : dkind -> bool) (m : mon) (l : label) : mon :=
  match l with
  | LDecide k => mkMon (m_dec m || good k) (m_late m) (m_started m) (m_ok m)
  | LServiceStart k =>
      mkMon (m_dec m) (if m_dec m then k :: m_late m else m_late m) (k :: m_started m)
            (m_ok m && negb (mem k (m_started m)))
  | LAppCall k _ =>
      mkMon (m_dec m) (m_late m) (m_started m) (m_ok m && mem k (m_started m) && negb (mem k (m_late m)))
  | _ => m
  end.

Definition monitor (good : dkind -> bool) (tr : list label) : bool :=
  m_ok (fold_left (mon_step good) tr mon0).

Definition all_kinds (k : dkind) : bool := true.
