(* Model/Dispatcher.v -- executable interleaving model of
   waitress.task.ThreadedTaskDispatcher (task.py:42-138).

   GRANULARITY.  In the real class every read and every write of
   [queue], [threads], [stop_count] and [active_count] happens between
   [self.lock.acquire()] and the matching release (the end of the [with] block,
   or the implicit release inside [Condition.wait]): handler_thread 66-81,
   set_thread_count 88-104, add_task 107-115, shutdown 122-137 (harness/dispatcher.py
   re-checks this on every run by an ast audit of the class).  While one thread is
   between acquire and release no other thread can observe or change these four
   variables; what other threads can do meanwhile is (a) block on the lock and
   (b) execute thread-local code of a task body -- both commute with the steps
   of the critical section.  Therefore ONE CRITICAL SECTION (acquire ... release
   or acquire ... wait, and re-acquire-after-wait ... release/wait) IS ONE ATOMIC
   STEP of the model; the step is enabled iff the lock is free.  The only place
   where the lock is held across several model steps is the cancel loop of
   [shutdown] (134-135): [task.cancel()] is a call into foreign code made while
   holding the lock, so each cancel is its own step and [lock] records the owner.
   [start_new_thread] is also called under the lock (98); the new thread's first
   action is to acquire the lock, so creating it inside the atomic step loses
   nothing.  The release that ends the pop section (81) and the immediately
   following call [task.service()] (83) are one step as well: the code between
   them is thread-local.

   Condition variables: a thread that waits is parked ([WWait], [SdWaiting]); a
   notified worker becomes [WNotified] and has to re-acquire the lock (a step
   enabled only when the lock is free) before it continues after the [wait()].
   [notify()] wakes ONE parked waiter chosen by the schedule (CPython wakes the
   longest waiter; any-waiter over-approximates), [notify_all()] wakes all.
   Only the shutdown thread ever waits on [thread_exit_cv], always with a
   timeout; whether the 0.1 s timeout fires and whether the 5 s expiration has
   passed are environment choices.

   Ghost state (not in the Python): [ledger] (one entry per submitted task, task
   ids are 0,1,2,... in submission order), [requested], [taken], [sd_snap]. *)
From Coq Require Import List Arith ZArith Bool.
Import ListNotations.

Definition task := nat.

Inductive tstate := Queued | Running (w : nat) | Done | Cancelled.
Record tinfo := mkTi { ti_st : tstate; ti_svc : nat; ti_cnc : nat }.
Definition ti0 := mkTi Queued 0 0.

(* program counter of a worker = where it is in handler_thread *)
Inductive wpc :=
| WAcq                 (* top of the loop (or just started): wants the lock *)
| WWait                (* parked in queue_cv.wait(), not notified *)
| WNotified            (* notified, has to re-acquire the lock *)
| WRun (t : task).     (* inside task.service() of t, outside the lock *)

(* program counter of the one shutdown thread *)
Inductive sdpc :=
| SdIdle               (* shutdown() not called yet *)
| SdAcq                (* set_thread_count(0) done; wants the lock to (re-)evaluate "while threads" *)
| SdWaiting            (* parked in thread_exit_cv.wait(0.1) *)
| SdCancel             (* holds the lock, in the cancel loop *)
| SdDone (r : bool).   (* returned r *)

Inductive owner := OShutdown.

Record state := mkState {
  queue : list task;            (* self.queue, left = front *)
  threads : list nat;           (* self.threads (a set; kept in insertion order) *)
  stop_count : nat;             (* self.stop_count *)
  active_count : Z;             (* self.active_count *)
  lock : option owner;          (* self.lock held across steps (cancel loop only) *)
  qwait : list nat;             (* un-notified waiters of queue_cv, longest first *)
  xwait : bool;                 (* the shutdown thread is parked on thread_exit_cv *)
  workers : list (nat * wpc);   (* live handler_thread threads by thread_no *)
  sd : sdpc;
  sd_cancel : bool;             (* cancel_pending argument of shutdown *)
  ledger : list tinfo;          (* ghost *)
  requested : nat;              (* ghost: count of the last set_thread_count *)
  taken : nat;                  (* ghost: number of tasks removed from the queue front *)
  sd_snap : list task           (* ghost: queue when the wait loop of shutdown ended *)
}.

Definition init : state :=
  mkState [] [] 0 0%Z None [] false [] SdIdle false [] 0 0 [].

Inductive choice :=
| CSubmit (k : nat)               (* an external thread runs add_task(fresh task); notify wakes waiter no. k *)
| CResize (n : nat)               (* an external thread runs set_thread_count(n) *)
| CWork (w : nat)                 (* worker w runs its next critical section *)
| CFollow (w : nat) (k : nat)     (* the task body running on w calls add_task(fresh task) *)
| CFinish (w : nat) (raised : bool) (* the task body running on w returns / raises *)
| CSdCall (cp : bool)             (* shutdown(cancel_pending=cp) is called: set_thread_count(0) *)
| CSd (expired : bool).           (* the shutdown thread moves; expired = time.time() >= expiration *)

Inductive label :=
| LSubmit (by_w : option nat) (t : task)
| LNotifyQ (w : nat)
| LNotifyAllQ (ws : list nat)
| LNotifyX
| LStart (w : nat)
| LStopReq (n : nat)
| LPark (w : nat)
| LPop (w : nat) (t : task)
| LService (w : nat) (t : task)
| LFinish (w : nat) (t : task) (raised : bool)
| LExit (w : nat)
| LSdCall (cp : bool)
| LSdWait
| LSdTimeout
| LSdExpired
| LCancel (t : task)
| LSdReturn (r : bool).

(* ---- list helpers ---------------------------------------------------- *)

Fixpoint upd {A} (n : nat) (f : A -> A) (l : list A) : list A :=
  match l, n with
  | [], _ => []
  | x :: r, 0 => f x :: r
  | x :: r, S m => x :: upd m f r
  end.

Fixpoint remove_nth {A} (n : nat) (l : list A) : list A :=
  match l, n with
  | [], _ => []
  | _ :: r, 0 => r
  | x :: r, S m => x :: remove_nth m r
  end.

Fixpoint get_pc (w : nat) (ws : list (nat * wpc)) : option wpc :=
  match ws with
  | [] => None
  | (v, pc) :: r => if v =? w then Some pc else get_pc w r
  end.

Definition set_pc (w : nat) (pc : wpc) (ws : list (nat * wpc)) : list (nat * wpc) :=
  map (fun p => if fst p =? w then (w, pc) else p) ws.

Definition del_w (w : nat) (ws : list (nat * wpc)) : list (nat * wpc) :=
  filter (fun p => negb (fst p =? w)) ws.

Definition discard (w : nat) (ths : list nat) : list nat :=
  filter (fun x => negb (x =? w)) ths.

Definition wake1 (p : nat * wpc) : nat * wpc :=
  match snd p with WWait => (fst p, WNotified) | _ => p end.
Definition wake_all (ws : list (nat * wpc)) : list (nat * wpc) := map wake1 ws.

Definition mem (n : nat) (l : list nat) : bool := existsb (Nat.eqb n) l.

(* "while thread_no in threads: thread_no += 1" *)
Fixpoint first_free (fuel n : nat) (ths : list nat) : nat :=
  match fuel with
  | 0 => n
  | S f => if mem n ths then first_free f (S n) ths else n
  end.

Definition is_active (pc : wpc) := match pc with WAcq | WRun _ => true | _ => false end.
Definition is_notified (pc : wpc) := match pc with WNotified => true | _ => false end.
Definition is_wait (pc : wpc) := match pc with WWait => true | _ => false end.
Definition cnt (p : wpc -> bool) (ws : list (nat * wpc)) : nat :=
  length (filter (fun x => p (snd x)) ws).

(* ---- the critical sections ------------------------------------------- *)

Definition free (s : state) : bool := match lock s with None => true | Some _ => false end.

(* queue_cv.notify(): wake waiter no. k of the un-notified waiters (no-op if none) *)
Definition notify_q (k : nat) (s : state) : option (state * list label) :=
  match qwait s with
  | [] => Some (s, [])
  | _ =>
    match nth_error (qwait s) k with
    | None => None
    | Some w =>
      Some (mkState (queue s) (threads s) (stop_count s) (active_count s) (lock s)
              (remove_nth k (qwait s)) (xwait s) (set_pc w WNotified (workers s))
              (sd s) (sd_cancel s) (ledger s) (requested s) (taken s) (sd_snap s),
            [LNotifyQ w])
    end
  end.

(* add_task, task.py:106-115: append, notify; the logging that follows reads
   shared state under the same lock and changes nothing *)
Definition do_add (by_w : option nat) (k : nat) (s : state) : option (state * list label) :=
  let t := length (ledger s) in
  let s1 := mkState (queue s ++ [t]) (threads s) (stop_count s) (active_count s) (lock s)
              (qwait s) (xwait s) (workers s) (sd s) (sd_cancel s)
              (ledger s ++ [ti0]) (requested s) (taken s) (sd_snap s) in
  match notify_q k s1 with
  | None => None
  | Some (s2, l) => Some (s2, LSubmit by_w t :: l)
  end.

(* set_thread_count, task.py:87-104 *)
Fixpoint spawn (n thread_no : nat) (ths : list nat) (ws : list (nat * wpc)) (act : Z) (ls : list label)
  : list nat * list (nat * wpc) * Z * list label :=
  match n with
  | 0 => (ths, ws, act, ls)
  | S m =>
    let no := first_free (S (length ths)) thread_no ths in
    spawn m (S no) (ths ++ [no]) (ws ++ [(no, WAcq)]) (act + 1)%Z (ls ++ [LStart no])
  end.

Definition do_resize (count : nat) (s : state) : state * list label :=
  let running := length (threads s) - stop_count s in
  if running <? count then
    match spawn (count - running) 0 (threads s) (workers s) (active_count s) [] with
    | (ths, ws, act, ls) =>
      (mkState (queue s) ths (stop_count s) act (lock s) (qwait s) (xwait s) ws
         (sd s) (sd_cancel s) (ledger s) count (taken s) (sd_snap s), ls)
    end
  else if count <? running then
    (mkState (queue s) (threads s) (stop_count s + (running - count)) (active_count s) (lock s)
       [] (xwait s) (wake_all (workers s))
       (sd s) (sd_cancel s) (ledger s) count (taken s) (sd_snap s),
     [LStopReq (running - count); LNotifyAllQ (qwait s)])
  else
    (mkState (queue s) (threads s) (stop_count s) (active_count s) (lock s) (qwait s) (xwait s)
       (workers s) (sd s) (sd_cancel s) (ledger s) count (taken s) (sd_snap s), []).

(* handler_thread, task.py:64-85: one critical section of worker w whose
   program counter is pc (WAcq: from the top of the loop; WNotified: returning
   from queue_cv.wait(), line 72 "active_count += 1" comes first) *)
Definition do_work (w : nat) (pc : wpc) (s : state) : option (state * list label) :=
  let act := match pc with WNotified => (active_count s + 1)%Z | _ => active_count s end in
  match queue s, stop_count s with
  | [], 0 =>
    (* while not self.queue and self.stop_count == 0: active_count -= 1; wait *)
    Some (mkState (queue s) (threads s) (stop_count s) (act - 1)%Z (lock s)
            (qwait s ++ [w]) (xwait s) (set_pc w WWait (workers s))
            (sd s) (sd_cancel s) (ledger s) (requested s) (taken s) (sd_snap s),
          [LPark w])
  | _, S st =>
    (* if self.stop_count > 0: ... threads.discard; thread_exit_cv.notify(); break *)
    Some (mkState (queue s) (discard w (threads s)) st (act - 1)%Z (lock s)
            (qwait s) false (del_w w (workers s))
            (if xwait s then SdAcq else sd s) (sd_cancel s) (ledger s) (requested s) (taken s) (sd_snap s),
          LExit w :: (if xwait s then [LNotifyX] else []))
  | t :: q, 0 =>
    (* task = self.queue.popleft(); release; task.service() *)
    Some (mkState q (threads s) (stop_count s) act (lock s)
            (qwait s) (xwait s) (set_pc w (WRun t) (workers s))
            (sd s) (sd_cancel s)
            (upd t (fun i => mkTi (Running w) (S (ti_svc i)) (ti_cnc i)) (ledger s))
            (requested s) (S (taken s)) (sd_snap s),
          [LPop w t; LService w t])
  end.

(* the task body returns or raises (caught by "except BaseException") *)
Definition do_finish (w : nat) (t : task) (raised : bool) (s : state) : state * list label :=
  (mkState (queue s) (threads s) (stop_count s) (active_count s) (lock s)
     (qwait s) (xwait s) (set_pc w WAcq (workers s))
     (sd s) (sd_cancel s)
     (upd t (fun i => mkTi Done (ti_svc i) (ti_cnc i)) (ledger s))
     (requested s) (taken s) (sd_snap s),
   [LFinish w t raised]).

Definition set_sd (s : state) (pc : sdpc) (lk : option owner) (xw : bool) (snap : list task) : state :=
  mkState (queue s) (threads s) (stop_count s) (active_count s) lk
    (qwait s) xw (workers s) pc (sd_cancel s) (ledger s) (requested s) (taken s) snap.

(* shutdown, task.py:117-138 *)
Definition do_sd (expired : bool) (s : state) : option (state * list label) :=
  match sd s with
  | SdAcq =>
    if free s then
      (* with self.lock: while threads: if time.time() >= expiration: break; wait(0.1) *)
      let leave (ls : list label) :=
        if sd_cancel s
        then Some (set_sd s SdCancel (Some OShutdown) false (queue s), ls)
        else Some (set_sd s (SdDone false) None false (sd_snap s), ls ++ [LSdReturn false]) in
      match threads s with
      | [] => leave []
      | _ => if expired then leave [LSdExpired]
             else Some (set_sd s SdWaiting None true (sd_snap s), [LSdWait])
      end
    else None
  | SdWaiting =>
    (* the 0.1 s timeout fires; the thread will re-acquire the lock *)
    Some (set_sd s SdAcq (lock s) false (sd_snap s), [LSdTimeout])
  | SdCancel =>
    match queue s with
    | t :: q =>
      (* task = queue.popleft(); task.cancel() *)
      Some (mkState q (threads s) (stop_count s) (active_count s) (lock s)
              (qwait s) (xwait s) (workers s) (sd s) (sd_cancel s)
              (upd t (fun i => mkTi Cancelled (ti_svc i) (S (ti_cnc i))) (ledger s))
              (requested s) (S (taken s)) (sd_snap s),
            [LCancel t])
    | [] =>
      (* self.queue_cv.notify_all(); return True *)
      Some (mkState [] (threads s) (stop_count s) (active_count s) None
              [] (xwait s) (wake_all (workers s)) (SdDone true) (sd_cancel s)
              (ledger s) (requested s) (taken s) (sd_snap s),
            [LNotifyAllQ (qwait s); LSdReturn true])
    end
  | _ => None
  end.

Definition step (s : state) (c : choice) : option (state * list label) :=
  match c with
  | CSubmit k => if free s then do_add None k s else None
  | CResize n => if free s then Some (do_resize n s) else None
  | CWork w =>
    if free s then
      match get_pc w (workers s) with
      | Some WAcq => do_work w WAcq s
      | Some WNotified => do_work w WNotified s
      | _ => None
      end
    else None
  | CFollow w k =>
    if free s then
      match get_pc w (workers s) with
      | Some (WRun _) => do_add (Some w) k s
      | _ => None
      end
    else None
  | CFinish w raised =>
    match get_pc w (workers s) with
    | Some (WRun t) => Some (do_finish w t raised s)
    | _ => None
    end
  | CSdCall cp =>
    if free s then
      match sd s with
      | SdIdle =>
        let (s1, ls) := do_resize 0 s in
        Some (mkState (queue s1) (threads s1) (stop_count s1) (active_count s1) (lock s1)
                (qwait s1) (xwait s1) (workers s1) SdAcq cp (ledger s1) (requested s1)
                (taken s1) (sd_snap s1),
              LSdCall cp :: ls)
      | _ => None
      end
    else None
  | CSd expired => do_sd expired s
  end.

(* environment choices: new work or new requests arriving from outside the pool *)
Definition is_env (c : choice) : bool :=
  match c with CSubmit _ | CResize _ | CSdCall _ => true | _ => false end.

(* nothing can move until the environment submits / resizes / calls shutdown *)
Definition quiescent (s : state) : bool :=
  free s
  && forallb (fun p => is_wait (snd p)) (workers s)
  && match sd s with SdIdle | SdDone _ => true | _ => false end.
