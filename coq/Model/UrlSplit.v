(* urllib.parse.urlsplit on bytes (CPython 3.12.1) and unquote_to_bytes, as
   used by waitress.parser.split_uri.  Bracketed hosts that CPython validates
   with the ipaddress module are reported as UUnmodelled: the harness skips
   those cases and counts them. *)
From Coq Require Import List NArith Bool.
From WV Require Import Lib.PyBytes.
Import ListNotations.
Local Open Scope N_scope.

Inductive usplit :=
| UOk (scheme netloc path query fragment : bytes)
| UUnicodeError           (* non-ASCII byte: bytes.decode('ascii') fails *)
| UValueError             (* "Invalid IPv6 URL" *)
| UUnmodelled.

Definition is_c0_or_space (x : N) : bool := x <=? 32.
Definition is_alpha (x : N) : bool := ((65 <=? x) && (x <=? 90)) || ((97 <=? x) && (x <=? 122)).
Definition is_scheme_char (x : N) : bool :=
  is_alpha x || is_digit x || (x =? 43) || (x =? 45) || (x =? 46).

Definition cut_at (f : N -> bool) (s : bytes) : bytes * bytes :=
  (* longest prefix without a char satisfying f, and the rest *)
  let fix go (s acc : bytes) : bytes * bytes :=
    match s with
    | [] => (rev acc, [])
    | x :: s' => if f x then (rev acc, s) else go s' (x :: acc)
    end in go s [].

Definition urlsplit (url0 : bytes) : usplit :=
  if existsb (fun x => 128 <=? x) url0 then UUnicodeError else
  let url1 := lstrip_by is_c0_or_space url0 in
  let url2 := filter (fun x => negb ((x =? 9) || (x =? 13) || (x =? 10))) url1 in
  let '(scheme, url3) :=
    match find url2 [58] with
    | Some (S i') =>
      let i := S i' in
      match url2 with
      | c0 :: _ =>
        if is_alpha c0 && forallb is_scheme_char (firstn i url2)
        then (lower_ascii (firstn i url2), skipn (S i) url2)
        else ([], url2)
      | [] => ([], url2)
      end
    | _ => ([], url2)
    end in
  let '(netloc, url4, bad) :=
    if startswith url3 [47; 47] then
      let rest := skipn 2 url3 in
      let '(nl, u) := cut_at (fun x => (x =? 47) || (x =? 63) || (x =? 35)) rest in
      let hasl := memb 91 nl in
      let hasr := memb 93 nl in
      (nl, u, if hasl && hasr then 2 else if hasl || hasr then 1 else 0)
    else ([], url3, 0) in
  if bad =? 1 then UValueError else
  if bad =? 2 then UUnmodelled else
  let '(url5, fragment) :=
    match find url4 [35] with
    | Some i => (firstn i url4, skipn (S i) url4)
    | None => (url4, [])
    end in
  let '(path, query) :=
    match find url5 [63] with
    | Some i => (firstn i url5, skipn (S i) url5)
    | None => (url5, [])
    end in
  UOk scheme netloc path query fragment.

(* urllib.parse.unquote_to_bytes: %XX with two hex digits is decoded, anything
   else is left alone *)
Fixpoint unquote_fuel (fuel : nat) (s : bytes) : bytes :=
  match fuel with
  | O => s
  | S f =>
    match s with
    | [] => []
    | 37 :: a :: b :: s' =>
      match hexval a, hexval b with
      | Some ha, Some hb => (16 * ha + hb) :: unquote_fuel f s'
      | _, _ => 37 :: unquote_fuel f (a :: b :: s')
      end
    | x :: s' => x :: unquote_fuel f s'
    end
  end.
Definition unquote_to_bytes (s : bytes) : bytes := unquote_fuel (S (length s)) s.

(* waitress.parser.split_uri *)
Inductive split_uri_res :=
| SOk (scheme netloc path query fragment : bytes)
| SBadURI            (* ParsingError("Bad URI") *)
| SEscapes           (* an exception other than ParsingError leaves split_uri *)
| SUnmodelled.

Definition split_uri (uri : bytes) : split_uri_res :=
  if beqb (firstn 2 uri) [47; 47] then
    if existsb (fun x => 128 <=? x) uri then SBadURI else    (* uri.decode("ascii") *)
    let '(p1, fragment) :=
      match find uri [35] with
      | Some i => (firstn i uri, skipn (S i) uri)
      | None => (uri, [])
      end in
    let '(path, query) :=
      match find p1 [63] with
      | Some i => (firstn i p1, skipn (S i) p1)
      | None => (p1, [])
      end in
    SOk [] [] (unquote_to_bytes path) query fragment
  else
    match urlsplit uri with
    | UOk sc nl p q f => SOk sc nl (unquote_to_bytes p) q f
    | UUnicodeError => SBadURI
    | UValueError => SBadURI
    | UUnmodelled => SUnmodelled
    end.
