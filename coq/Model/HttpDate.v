(* waitress.utilities.build_http_date(when): the Date field of every response.

       year, month, day, hh, mm, ss, wd, y, z = time.gmtime(when)
       return "%s, %02d %3s %4d %02d:%02d:%02d GMT" % (weekdayname[wd], day, monthname[month], year, hh, mm, ss)

   [when] is the integer number of seconds since the epoch (time.gmtime truncates a float; the server
   passes time.time() >= 0).  time.gmtime is the proleptic Gregorian calendar: days are counted from
   1970-01-01 (a Thursday) and turned into a civil date by the standard era / day-of-era computation.
   The two name tables are regenerated from the source (Gen/GenTables.v: weekdayname, monthname) and
   compared with the ones below on every run (K-date); K-date also runs the real function. *)
From Coq Require Import List NArith Bool.
From WV Require Import Lib.PyBytes.
Import ListNotations.
Local Open Scope N_scope.

Definition weekdayname : list bytes :=
  [[77;111;110]; [84;117;101]; [87;101;100]; [84;104;117]; [70;114;105]; [83;97;116]; [83;117;110]].
Definition monthname : list bytes :=
  [[74;97;110]; [70;101;98]; [77;97;114]; [65;112;114]; [77;97;121]; [74;117;110];
   [74;117;108]; [65;117;103]; [83;101;112]; [79;99;116]; [78;111;118]; [68;101;99]].

Record tm := mktm { tm_year : N; tm_mon : N; tm_mday : N; tm_hour : N; tm_min : N; tm_sec : N; tm_wday : N }.

(* civil date of day number [days] (days since 1970-01-01) *)
Definition civil_from_days (days : N) : N * N * N :=
  let z := days + 719468 in
  let era := z / 146097 in
  let doe := z - era * 146097 in
  let yoe := (doe - doe / 1460 + doe / 36524 - doe / 146096) / 365 in
  let doy := doe - (365 * yoe + yoe / 4 - yoe / 100) in
  let mp := (5 * doy + 2) / 153 in
  let d := doy - (153 * mp + 2) / 5 + 1 in
  let m := if mp <? 10 then mp + 3 else mp - 9 in
  let y := yoe + era * 400 + (if m <=? 2 then 1 else 0) in
  (y, m, d).

Definition gmtime (when : N) : tm :=
  let days := when / 86400 in
  let rem := when mod 86400 in
  let '(y, m, d) := civil_from_days days in
  mktm y m d (rem / 3600) ((rem mod 3600) / 60) (rem mod 60) ((days + 3) mod 7).

(* "%02d" for n < 100; "%4d" / "%02d" beyond are the plain decimal digits *)
Definition pad2 (n : N) : bytes := if n <? 10 then 48 :: to_dec n else to_dec n.
Definition pad4 (n : N) : bytes :=
  let s := to_dec n in repeat 32 (4 - length s) ++ s.

Definition build_http_date (when : N) : bytes :=
  let t := gmtime when in
  nth (N.to_nat (tm_wday t)) weekdayname [] ++ [44; 32] ++ pad2 (tm_mday t) ++ [32] ++
  nth (N.to_nat (tm_mon t - 1)) monthname [] ++ [32] ++ pad4 (tm_year t) ++ [32] ++
  pad2 (tm_hour t) ++ [58] ++ pad2 (tm_min t) ++ [58] ++ pad2 (tm_sec t) ++ [32; 71; 77; 84].
