(* waitress/task.py: WSGITask.get_environment (with Task.__init__'s version
   fallback), transliterated over the parser model's result.  The environ is a
   Python dict: an insertion-ordered association list.  str values are lists
   of code points; the entries that are not strings carry a tag.  No proofs
   here. *)
From Coq Require Import List NArith Bool.
From WV Require Import Lib.PyBytes Model.Receiver Model.Parser.
Import ListNotations.
Local Open Scope N_scope.

(* channel.addr: (host, port, ...) for TCP peers; UnixWSGIServer.fix_addr gives
   ("localhost", None) *)
Inductive peer :=
| PeerTCP (host : bytes) (port : N)
| PeerUnix.

(* server.effective_port: an int for TCP listeners, the socket path (a str)
   for unix listeners (getsockname() = ("unix", path)) *)
Inductive eport :=
| PortInt (n : N)
| PortStr (s : bytes).

Record config := {
  url_prefix : bytes;        (* server.adj.url_prefix *)
  server_name : bytes;       (* server.server_name *)
  effective_port : eport;    (* server.effective_port *)
  ident : bytes;             (* server.adj.ident *)
  peer_addr : peer           (* channel.addr *)
}.

Inductive evalue :=
| VStr (s : bytes)           (* a str, as code points *)
| VTuple10                   (* (1, 0) *)
| VStderr                    (* sys.stderr *)
| VBool (b : bool)
| VInput (data : bytes)      (* a file object positioned at 0 that yields these bytes *)
| VFileWrapper               (* the class ReadOnlyFileBasedBuffer *)
| VDisconnected.             (* the bound method channel.check_client_disconnected *)

Definition edict := list (bytes * evalue).

Fixpoint emem (e : edict) (k : bytes) : bool :=            (* k in e *)
  match e with
  | [] => false
  | (k', _) :: e' => beqb k k' || emem e' k
  end.
Fixpoint eget (e : edict) (k : bytes) : option evalue :=
  match e with
  | [] => None
  | (k', v) :: e' => if beqb k k' then Some v else eget e' k
  end.
Fixpoint eset (e : edict) (k : bytes) (v : evalue) : edict :=   (* e[k] = v *)
  match e with
  | [] => [(k, v)]
  | (k', v') :: e' => if beqb k k' then (k', v) :: e' else (k', v') :: eset e' k v
  end.

(* string constants *)
Definition k_REMOTE_ADDR : bytes := [82;69;77;79;84;69;95;65;68;68;82].   (* "REMOTE_ADDR" *)
Definition k_REMOTE_HOST : bytes := [82;69;77;79;84;69;95;72;79;83;84].   (* "REMOTE_HOST" *)
Definition k_REMOTE_PORT : bytes := [82;69;77;79;84;69;95;80;79;82;84].   (* "REMOTE_PORT" *)
Definition k_REQUEST_METHOD : bytes := [82;69;81;85;69;83;84;95;77;69;84;72;79;68].   (* "REQUEST_METHOD" *)
Definition k_SERVER_PORT : bytes := [83;69;82;86;69;82;95;80;79;82;84].   (* "SERVER_PORT" *)
Definition k_SERVER_NAME : bytes := [83;69;82;86;69;82;95;78;65;77;69].   (* "SERVER_NAME" *)
Definition k_SERVER_SOFTWARE : bytes := [83;69;82;86;69;82;95;83;79;70;84;87;65;82;69].   (* "SERVER_SOFTWARE" *)
Definition k_SERVER_PROTOCOL : bytes := [83;69;82;86;69;82;95;80;82;79;84;79;67;79;76].   (* "SERVER_PROTOCOL" *)
Definition k_SCRIPT_NAME : bytes := [83;67;82;73;80;84;95;78;65;77;69].   (* "SCRIPT_NAME" *)
Definition k_PATH_INFO : bytes := [80;65;84;72;95;73;78;70;79].   (* "PATH_INFO" *)
Definition k_REQUEST_URI : bytes := [82;69;81;85;69;83;84;95;85;82;73].   (* "REQUEST_URI" *)
Definition k_QUERY_STRING : bytes := [81;85;69;82;89;95;83;84;82;73;78;71].   (* "QUERY_STRING" *)
Definition k_wsgi_url_scheme : bytes := [119;115;103;105;46;117;114;108;95;115;99;104;101;109;101].   (* "wsgi.url_scheme" *)
Definition k_wsgi_version : bytes := [119;115;103;105;46;118;101;114;115;105;111;110].   (* "wsgi.version" *)
Definition k_wsgi_errors : bytes := [119;115;103;105;46;101;114;114;111;114;115].   (* "wsgi.errors" *)
Definition k_wsgi_multithread : bytes := [119;115;103;105;46;109;117;108;116;105;116;104;114;101;97;100].   (* "wsgi.multithread" *)
Definition k_wsgi_multiprocess : bytes := [119;115;103;105;46;109;117;108;116;105;112;114;111;99;101;115;115].   (* "wsgi.multiprocess" *)
Definition k_wsgi_run_once : bytes := [119;115;103;105;46;114;117;110;95;111;110;99;101].   (* "wsgi.run_once" *)
Definition k_wsgi_input : bytes := [119;115;103;105;46;105;110;112;117;116].   (* "wsgi.input" *)
Definition k_wsgi_file_wrapper : bytes := [119;115;103;105;46;102;105;108;101;95;119;114;97;112;112;101;114].   (* "wsgi.file_wrapper" *)
Definition k_wsgi_input_terminated : bytes := [119;115;103;105;46;105;110;112;117;116;95;116;101;114;109;105;110;97;116;101;100].   (* "wsgi.input_terminated" *)
Definition k_waitress_client_disconnected : bytes := [119;97;105;116;114;101;115;115;46;99;108;105;101;110;116;95;100;105;115;99;111;110;110;101;99;116;101;100].   (* "waitress.client_disconnected" *)
Definition k_HTTP_ : bytes := [72;84;84;80;95].   (* "HTTP_" *)
Definition k_HTTPslash : bytes := [72;84;84;80;47].   (* "HTTP/" *)
Definition k_None : bytes := [78;111;110;101].   (* "None" *)

(* str.upper() on latin-1 decoded text (code points < 256): the result may
   leave latin-1 and may be longer.  Code points >= 256 are left alone (the
   model applies it to latin-1 decoded text only; the harness checks exactly
   that domain against CPython). *)
Definition upper_str_c (x : N) : list N :=
  if (97 <=? x) && (x <=? 122) then [x - 32]
  else if x =? 181 then [924]                        (* MICRO SIGN -> GREEK CAPITAL MU *)
  else if x =? 223 then [83; 83]                     (* sharp s -> "SS" *)
  else if (224 <=? x) && (x <=? 254) && negb (x =? 247) then [x - 32]
  else if x =? 255 then [376]                        (* y diaeresis -> U+0178 *)
  else [x].
Definition upper_str (s : bytes) : bytes := flat_map upper_str_c s.

(* task.py: rename_headers.get(key, None) *)
Definition rename_headers (key : bytes) : option bytes :=
  if beqb key s_CONTENT_LENGTH then Some s_CONTENT_LENGTH
  else if beqb key s_CONTENT_TYPE then Some s_CONTENT_TYPE
  else None.

(* Task.__init__:  version = request.version; if version not in ("1.0", "1.1"): version = "1.0" *)
Definition task_version (p : parser) : bytes :=
  let v := version p in
  if beqb v s_1_0 || beqb v s_1_1 then v else s_1_0.

Definition addr0 (a : peer) : bytes :=
  match a with PeerTCP h _ => h | PeerUnix => [108;111;99;97;108;104;111;115;116] (* "localhost" *) end.
Definition str_addr1 (a : peer) : bytes :=                     (* str(channel.addr[1]) *)
  match a with PeerTCP _ n => to_dec n | PeerUnix => k_None end.
Definition str_port (e : eport) : bytes :=                     (* str(server.effective_port) *)
  match e with PortInt n => to_dec n | PortStr s => s end.

(* parser.get_body_stream(): body_rcv.getfile() reads back what was appended
   to the buffer; BytesIO() when there is no receiver *)
Definition get_body_stream (p : parser) : bytes :=
  match body p with
  | Some br => body_bytes br
  | None => []
  end.

(* the path after the leading-slash rule and the url_prefix rule *)
Definition environ_path (prefix path0 : bytes) : bytes :=
  let path1 :=
    if startswith path0 [47]
    then 47 :: lstrip_by (N.eqb 47) path0                        (* "/" + path.lstrip("/") *)
    else path0 in
  match prefix with
  | [] => path1                                                  (* if url_prefix: *)
  | _ =>
    if beqb path1 prefix then []
    else
      let prefix_slash := prefix ++ [47] in
      if startswith path1 prefix_slash then skipn (length prefix) path1
      else path1
  end.

(* the dict literal *)
Definition base_environ (c : config) (p : parser) : edict :=
  [ (k_REMOTE_ADDR, VStr (addr0 (peer_addr c)));
    (k_REMOTE_HOST, VStr (addr0 (peer_addr c)));
    (k_REMOTE_PORT, VStr (str_addr1 (peer_addr c)));
    (k_REQUEST_METHOD, VStr (upper_str (command p)));
    (k_SERVER_PORT, VStr (str_port (effective_port c)));
    (k_SERVER_NAME, VStr (server_name c));
    (k_SERVER_SOFTWARE, VStr (ident c));
    (k_SERVER_PROTOCOL, VStr (k_HTTPslash ++ task_version p));
    (k_SCRIPT_NAME, VStr (url_prefix c));
    (k_PATH_INFO, VStr (environ_path (url_prefix c) (path p)));
    (k_REQUEST_URI, VStr (request_uri p));
    (k_QUERY_STRING, VStr (query p));
    (k_wsgi_url_scheme, VStr (url_scheme p));
    (k_wsgi_version, VTuple10);
    (k_wsgi_errors, VStderr);
    (k_wsgi_multithread, VBool true);
    (k_wsgi_multiprocess, VBool false);
    (k_wsgi_run_once, VBool false);
    (k_wsgi_input, VInput (get_body_stream p));
    (k_wsgi_file_wrapper, VFileWrapper);
    (k_wsgi_input_terminated, VBool true) ].

(* one turn of `for key, value in dict(request.headers).items()` *)
Definition add_header (environ : edict) (kv : bytes * bytes) : edict :=
  let '(key, value) := kv in
  let mykey := match rename_headers key with
               | Some k => k
               | None => k_HTTP_ ++ key
               end in
  if negb (emem environ mykey) then environ ++ [(mykey, VStr value)]   (* a new key goes last *)
  else environ.

Definition get_environment (c : config) (p : parser) : edict :=
  let environ := fold_left add_header (headers p) (base_environ c p) in
  eset environ k_waitress_client_disconnected VDisconnected.
