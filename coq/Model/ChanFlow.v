(* Model/ChanFlow.v -- the narrow interleaving model for C12 (output buffering
   bounded; producers paused and always released).

   WHAT IS REPRESENTED (waitress/channel.py, wasyncore.py; one connection):

   threads   IO      the wasyncore.poll() loop of the select-based variant:
                     readable()/writable() (one step per attribute read, in
                     program order with the short circuits), select,
                     handle_read (recv; received() as far as it touches the
                     request queue; EOF -> handle_close), handle_write (choice
                     of _flush_some_if_lockable / nothing,
                     _flush_exception, the close_when_flushed / will_close
                     tail), _flush_some_if_lockable, _flush_some with
                     do_close=True, handle_close + wasyncore.dispatcher.close.
             W       the pool worker that currently runs HTTPChannel.service()
                     for this channel: the connected test, task.service() as a
                     LIST OF write_soon(size) CALLS (parameter [progs]: one
                     list of sizes and one close_on_finish flag per accepted
                     request), write_soon, _flush_outbufs_below_high_watermark
                     (called from write_soon, ctx FW, and from service(), ctx
                     FS), _flush_some with do_close=False through
                     _flush_exception, the close branch of service() and the
                     keep branch up to its last access to the output state.
             T       the end of the keep branch of service(): "with
                     self.requests_lock: requests.pop(0); if connected and
                     requests: add_task" ([tlc], then [trel] until the release) and
                     "if self.connected: self.server.pull_trigger()".  add_task
                     happens inside, so the next service() may start on another
                     pool thread while this one still holds requests_lock or has
                     not pulled the trigger: tailsA = threads before their read of
                     connected, tailsB = threads that read True and have not pulled.
             ENV     the client: stalls / resumes reading, disconnects, sends one
                     more request; the kernel: every socket send takes an
                     outcome [sendres] from the schedule (k bytes accepted with
                     1 <= k <= bytes pending, EWOULDBLOCK, a disconnect errno,
                     another OSError).

   GRANULARITY (DESIGN.md Appendix A).  One model step = one labelled
   operation: acquire / try-acquire / release / wait / wake(re-acquire) /
   notify on outbuf_lock, acquire / release on requests_lock, a socket send or
   recv, pull_trigger, select -- or one read (R) or write (W) of one of the
   attributes total_outbufs_len, connected, will_close, close_when_flushed,
   requests that is not covered by the lock that covers its writers.  EVERY
   WRITE of these attributes is its own step.  Reads made while holding
   outbuf_lock of an attribute that is only written under outbuf_lock
   (total_outbufs_len, connected) are fused into the preceding step of the same
   thread; so are the decisions that depend on them.  "total_outbufs_len -= n"
   is one step (every such update happens under outbuf_lock since /repo 8bcf05e:
   handle_write flushes through _flush_some_if_lockable in both of its branches).  Code between two steps touches only
   thread-local data (checked by the shape audit in harness/chanflow.py).

   WHICH STEP IS WHICH STATEMENT: harness/chanflow.py EXPECTED_SHAPE lists, per method, the
   lock scopes / tests / tracked attribute accesses / calls in source order (the shape audit
   compares it with the ast of the tree under test); the step functions below follow that
   order, with the line numbers of channel.py in their comments.

   SHAPE FLAGS.  Three statements were repaired while this model was written (KNOWN_FINDINGS.txt,
   "fixed: property=C12"): the notify test of _flush_some_if_lockable (fx_notify_le), the flush
   condition of handle_write (fx_drain), the re-test of connected in
   _flush_outbufs_below_high_watermark (fx_recheck).  [fixed p] (all true) is the code as it is
   and is what the harness runs the model with; a flag set to false gives the old statement, for
   which Props/C12.v keeps the refutation.  The bound and order theorems hold for every flag.

   ABSTRACTIONS, AND WHY THEY ARE SOUND FOR C12
   * Bytes are counted, not stored: [pending] is the number of bytes held by
     self.outbufs, [appended] / [wire] count bytes accepted from the application /
     by the socket.  FIFO order of the byte queue itself is C17's theorem; what
     C12 adds is that the queue's users never overlap and never lose count.
   * A send is offered "all pending bytes" (the real code offers
     min(len(outbufs[0]), sendbuf_len)): a superset of the real outcomes.
     Buffer rotation, current_outbuf_count, last_activity, logging: not tracked.
   * OverflowableBuffer.close() does nothing while the buffer is still a bytes
     string (< 8192 bytes), so after handle_close the first outbuf can still
     report a positive length although total_outbufs_len is 0: the schedule
     chooses the residue (parameter [residue_ok] switches this off).
   * Interim "100 Continue" output (send_continue, F18 -- owned by C04),
     cancel() (server shutdown), maintenance() (only touches channels without
     requests) and the poll2 variant of the loop are left out.  A request is
     received whole by one recv.  Requests are never "empty".
   * total_outbufs_len is a Python int and can become negative (a worker may
     flush a residue after handle_close reset the counter): Z.  *)
From Coq Require Import List ZArith Bool Arith.
From WV Require Import Lib.Conc.
Import ListNotations.
Local Open Scope Z_scope.

Record params := mkP {
  hw : Z;                          (* adj.outbuf_high_watermark *)
  sb : Z;                          (* adj.send_bytes *)
  look : nat;                      (* adj.channel_request_lookahead *)
  progs : list (list Z * bool);    (* per accepted request: write sizes (a negative entry counts as 0), close_on_finish *)
  residue_ok : bool;               (* may a closed outbuf still report bytes? *)
  (* the shape of three statements; all true = the code as it is (the shape audit pins that);
     false = the statement as it was before the fix, kept so that the defect stays a theorem *)
  fx_notify_le : bool;             (* 6aba4bf  _flush_some_if_lockable notifies if total <= high_watermark (was <) *)
  fx_drain : bool;                 (* daf1a85  handle_write also flushes if total > high_watermark *)
  fx_recheck : bool                (* 7fa6a60  _flush_outbufs_below_high_watermark re-tests connected under the lock *)
}.

Definition fixed (p : params) : Prop :=
  fx_notify_le p = true /\ fx_drain p = true /\ fx_recheck p = true.

Inductive tid := TIo | TW | TT | TE.

Inductive sendres := SR (k : Z) | SRBlock | SRGone | SRErr.
Inductive envact := EStall | EResume | EGone | EArrive.

Inductive choice :=
| CIo (r : sendres) (res : Z)   (* the I/O thread moves; r: outcome if the step is a send; res: residue if it closes the outbufs *)
| CW (r : sendres)              (* the worker moves *)
| CTail (n : nat)               (* the thread that ends a service() moves: 0 acquire requests_lock, 1 pop, 2 connected/add_task, 3 release, 4 read connected, 5 pull the trigger *)
| CEnv (a : envact).

Inductive fctx := FW | FS | FA.        (* _flush_some called from: flush_below in write_soon / flush_below in service / after the append *)
Inductive hck := KRead | KFlush | KEnd.   (* who called handle_close: recv / send inside _flush_some / the end of handle_write *)

Inductive iopc :=
| IoRd1 | IoRd2 | IoRd3 | IoRd4
| IoWr1 (r : bool) | IoWr2 (r : bool) | IoWr3 (r : bool)
| IoSel (r w : bool)
| IoRecv (ww : bool)
| IoRcvAcq (ww : bool) | IoRcvWc (ww : bool) | IoRcvCwf (ww : bool) | IoRcvApp (ww : bool) | IoRcvRel (ww : bool)
| IoHw1 | IoHw2 | IoHw2b | IoTry
| IoFlush | IoSubL (k : Z)
| IoRelX | IoHwExn
| IoNotify | IoRelL
| IoHw3 | IoHw4 | IoHw5 | IoHw6 | IoHw7
| IoHcAcq (k : hck) | IoHcTot (k : hck) | IoHcConn (k : hck) | IoHcNotify (k : hck)
| IoHcRel (k : hck) | IoHcClose (k : hck)
| IoEof.

Inductive wpc :=
| WIdle
| WSvcConn
| WSvcWc
| WWrConn
| WWrAcq
| WFlush (c : fctx) (snt : bool)
| WSub (c : fctx) (k : Z)
| WFlushExn (c : fctx)
| WFbPullE (c : fctx) | WFbWaitE (c : fctx) | WFbParkedE (c : fctx) (nt : bool)
| WFbPull (c : fctx) | WFbWait (c : fctx) | WFbParked (c : fctx) (nt : bool)
| WAdd (n : Z)
| WPull
| WRel
| WRelRaise
| WKeepLen
| WFbTest
| WFbAcq
| WFbRel
| WCloseAcq | WCloseCwf | WCloseReq | WCloseRel.

(* the thread that finished the keep branch of service(): its requests_lock section (496-500);
   add_task happens inside it, so the NEXT service() may start on another pool thread while this one
   still holds requests_lock / has not pulled the trigger *)
Inductive tlpc := TNone | TAcq | TPop | TConn.

(* what a step is, for the trace comparison and the shape audit *)
Inductive kind :=
| KAcq | KTry | KRel | KWait | KWake | KNotify      (* outbuf_lock *)
| KRAcq | KRRel                                     (* requests_lock *)
| KSend | KRecv | KPull | KSelect
| KRtotal | KWtotal | KRconn | KWconn | KRwc | KWwc | KRcwf | KWcwf | KRreq | KWreq
| KStart | KEnvK.

Inductive label :=
| Lb (t : tid) (k : kind)
| LAppend (n : Z)          (* write_soon accepted n bytes *)
| LRaise                   (* write_soon raises ClientDisconnected *)
| LWire (t : tid) (k : Z)  (* the socket accepted k bytes *)
| LPark | LWoken
| LAddTask
| LClosed.                 (* the channel left the map and its socket was closed *)

Record state := mkSt {
  total : Z;
  pending : Z;
  connected : bool;
  will_close : bool;
  cwf : bool;
  nreq : nat;
  olock : option tid;
  ocount : nat;
  rlock : option tid;
  pulled : bool;
  in_map : bool;
  sock_closed : bool;
  closed_bufs : bool;
  reading : bool;
  gone : bool;
  pending_in : nat;
  io : iopc;
  wk : wpc;
  wq : list Z;
  wclose : bool;
  cur : nat;
  queued : bool;
  tlc : tlpc;
  trel : bool;
  tailsA : nat;
  tailsB : nat;
  appended : Z;
  wire : Z;
  last_write : Z
}.

Definition set_total (v : Z) (s : state) : state :=
  mkSt v (pending s) (connected s) (will_close s) (cwf s) (nreq s) (olock s) (ocount s) (rlock s) (pulled s) (in_map s) (sock_closed s) (closed_bufs s) (reading s) (gone s) (pending_in s) (io s) (wk s) (wq s) (wclose s) (cur s) (queued s) (tlc s) (trel s) (tailsA s) (tailsB s) (appended s) (wire s) (last_write s).
Definition set_pending (v : Z) (s : state) : state :=
  mkSt (total s) v (connected s) (will_close s) (cwf s) (nreq s) (olock s) (ocount s) (rlock s) (pulled s) (in_map s) (sock_closed s) (closed_bufs s) (reading s) (gone s) (pending_in s) (io s) (wk s) (wq s) (wclose s) (cur s) (queued s) (tlc s) (trel s) (tailsA s) (tailsB s) (appended s) (wire s) (last_write s).
Definition set_connected (v : bool) (s : state) : state :=
  mkSt (total s) (pending s) v (will_close s) (cwf s) (nreq s) (olock s) (ocount s) (rlock s) (pulled s) (in_map s) (sock_closed s) (closed_bufs s) (reading s) (gone s) (pending_in s) (io s) (wk s) (wq s) (wclose s) (cur s) (queued s) (tlc s) (trel s) (tailsA s) (tailsB s) (appended s) (wire s) (last_write s).
Definition set_will_close (v : bool) (s : state) : state :=
  mkSt (total s) (pending s) (connected s) v (cwf s) (nreq s) (olock s) (ocount s) (rlock s) (pulled s) (in_map s) (sock_closed s) (closed_bufs s) (reading s) (gone s) (pending_in s) (io s) (wk s) (wq s) (wclose s) (cur s) (queued s) (tlc s) (trel s) (tailsA s) (tailsB s) (appended s) (wire s) (last_write s).
Definition set_cwf (v : bool) (s : state) : state :=
  mkSt (total s) (pending s) (connected s) (will_close s) v (nreq s) (olock s) (ocount s) (rlock s) (pulled s) (in_map s) (sock_closed s) (closed_bufs s) (reading s) (gone s) (pending_in s) (io s) (wk s) (wq s) (wclose s) (cur s) (queued s) (tlc s) (trel s) (tailsA s) (tailsB s) (appended s) (wire s) (last_write s).
Definition set_nreq (v : nat) (s : state) : state :=
  mkSt (total s) (pending s) (connected s) (will_close s) (cwf s) v (olock s) (ocount s) (rlock s) (pulled s) (in_map s) (sock_closed s) (closed_bufs s) (reading s) (gone s) (pending_in s) (io s) (wk s) (wq s) (wclose s) (cur s) (queued s) (tlc s) (trel s) (tailsA s) (tailsB s) (appended s) (wire s) (last_write s).
Definition set_olock (v : option tid) (s : state) : state :=
  mkSt (total s) (pending s) (connected s) (will_close s) (cwf s) (nreq s) v (ocount s) (rlock s) (pulled s) (in_map s) (sock_closed s) (closed_bufs s) (reading s) (gone s) (pending_in s) (io s) (wk s) (wq s) (wclose s) (cur s) (queued s) (tlc s) (trel s) (tailsA s) (tailsB s) (appended s) (wire s) (last_write s).
Definition set_ocount (v : nat) (s : state) : state :=
  mkSt (total s) (pending s) (connected s) (will_close s) (cwf s) (nreq s) (olock s) v (rlock s) (pulled s) (in_map s) (sock_closed s) (closed_bufs s) (reading s) (gone s) (pending_in s) (io s) (wk s) (wq s) (wclose s) (cur s) (queued s) (tlc s) (trel s) (tailsA s) (tailsB s) (appended s) (wire s) (last_write s).
Definition set_rlock (v : option tid) (s : state) : state :=
  mkSt (total s) (pending s) (connected s) (will_close s) (cwf s) (nreq s) (olock s) (ocount s) v (pulled s) (in_map s) (sock_closed s) (closed_bufs s) (reading s) (gone s) (pending_in s) (io s) (wk s) (wq s) (wclose s) (cur s) (queued s) (tlc s) (trel s) (tailsA s) (tailsB s) (appended s) (wire s) (last_write s).
Definition set_pulled (v : bool) (s : state) : state :=
  mkSt (total s) (pending s) (connected s) (will_close s) (cwf s) (nreq s) (olock s) (ocount s) (rlock s) v (in_map s) (sock_closed s) (closed_bufs s) (reading s) (gone s) (pending_in s) (io s) (wk s) (wq s) (wclose s) (cur s) (queued s) (tlc s) (trel s) (tailsA s) (tailsB s) (appended s) (wire s) (last_write s).
Definition set_in_map (v : bool) (s : state) : state :=
  mkSt (total s) (pending s) (connected s) (will_close s) (cwf s) (nreq s) (olock s) (ocount s) (rlock s) (pulled s) v (sock_closed s) (closed_bufs s) (reading s) (gone s) (pending_in s) (io s) (wk s) (wq s) (wclose s) (cur s) (queued s) (tlc s) (trel s) (tailsA s) (tailsB s) (appended s) (wire s) (last_write s).
Definition set_sock_closed (v : bool) (s : state) : state :=
  mkSt (total s) (pending s) (connected s) (will_close s) (cwf s) (nreq s) (olock s) (ocount s) (rlock s) (pulled s) (in_map s) v (closed_bufs s) (reading s) (gone s) (pending_in s) (io s) (wk s) (wq s) (wclose s) (cur s) (queued s) (tlc s) (trel s) (tailsA s) (tailsB s) (appended s) (wire s) (last_write s).
Definition set_closed_bufs (v : bool) (s : state) : state :=
  mkSt (total s) (pending s) (connected s) (will_close s) (cwf s) (nreq s) (olock s) (ocount s) (rlock s) (pulled s) (in_map s) (sock_closed s) v (reading s) (gone s) (pending_in s) (io s) (wk s) (wq s) (wclose s) (cur s) (queued s) (tlc s) (trel s) (tailsA s) (tailsB s) (appended s) (wire s) (last_write s).
Definition set_reading (v : bool) (s : state) : state :=
  mkSt (total s) (pending s) (connected s) (will_close s) (cwf s) (nreq s) (olock s) (ocount s) (rlock s) (pulled s) (in_map s) (sock_closed s) (closed_bufs s) v (gone s) (pending_in s) (io s) (wk s) (wq s) (wclose s) (cur s) (queued s) (tlc s) (trel s) (tailsA s) (tailsB s) (appended s) (wire s) (last_write s).
Definition set_gone (v : bool) (s : state) : state :=
  mkSt (total s) (pending s) (connected s) (will_close s) (cwf s) (nreq s) (olock s) (ocount s) (rlock s) (pulled s) (in_map s) (sock_closed s) (closed_bufs s) (reading s) v (pending_in s) (io s) (wk s) (wq s) (wclose s) (cur s) (queued s) (tlc s) (trel s) (tailsA s) (tailsB s) (appended s) (wire s) (last_write s).
Definition set_pending_in (v : nat) (s : state) : state :=
  mkSt (total s) (pending s) (connected s) (will_close s) (cwf s) (nreq s) (olock s) (ocount s) (rlock s) (pulled s) (in_map s) (sock_closed s) (closed_bufs s) (reading s) (gone s) v (io s) (wk s) (wq s) (wclose s) (cur s) (queued s) (tlc s) (trel s) (tailsA s) (tailsB s) (appended s) (wire s) (last_write s).
Definition set_io (v : iopc) (s : state) : state :=
  mkSt (total s) (pending s) (connected s) (will_close s) (cwf s) (nreq s) (olock s) (ocount s) (rlock s) (pulled s) (in_map s) (sock_closed s) (closed_bufs s) (reading s) (gone s) (pending_in s) v (wk s) (wq s) (wclose s) (cur s) (queued s) (tlc s) (trel s) (tailsA s) (tailsB s) (appended s) (wire s) (last_write s).
Definition set_wk (v : wpc) (s : state) : state :=
  mkSt (total s) (pending s) (connected s) (will_close s) (cwf s) (nreq s) (olock s) (ocount s) (rlock s) (pulled s) (in_map s) (sock_closed s) (closed_bufs s) (reading s) (gone s) (pending_in s) (io s) v (wq s) (wclose s) (cur s) (queued s) (tlc s) (trel s) (tailsA s) (tailsB s) (appended s) (wire s) (last_write s).
Definition set_wq (v : list Z) (s : state) : state :=
  mkSt (total s) (pending s) (connected s) (will_close s) (cwf s) (nreq s) (olock s) (ocount s) (rlock s) (pulled s) (in_map s) (sock_closed s) (closed_bufs s) (reading s) (gone s) (pending_in s) (io s) (wk s) v (wclose s) (cur s) (queued s) (tlc s) (trel s) (tailsA s) (tailsB s) (appended s) (wire s) (last_write s).
Definition set_wclose (v : bool) (s : state) : state :=
  mkSt (total s) (pending s) (connected s) (will_close s) (cwf s) (nreq s) (olock s) (ocount s) (rlock s) (pulled s) (in_map s) (sock_closed s) (closed_bufs s) (reading s) (gone s) (pending_in s) (io s) (wk s) (wq s) v (cur s) (queued s) (tlc s) (trel s) (tailsA s) (tailsB s) (appended s) (wire s) (last_write s).
Definition set_cur (v : nat) (s : state) : state :=
  mkSt (total s) (pending s) (connected s) (will_close s) (cwf s) (nreq s) (olock s) (ocount s) (rlock s) (pulled s) (in_map s) (sock_closed s) (closed_bufs s) (reading s) (gone s) (pending_in s) (io s) (wk s) (wq s) (wclose s) v (queued s) (tlc s) (trel s) (tailsA s) (tailsB s) (appended s) (wire s) (last_write s).
Definition set_queued (v : bool) (s : state) : state :=
  mkSt (total s) (pending s) (connected s) (will_close s) (cwf s) (nreq s) (olock s) (ocount s) (rlock s) (pulled s) (in_map s) (sock_closed s) (closed_bufs s) (reading s) (gone s) (pending_in s) (io s) (wk s) (wq s) (wclose s) (cur s) v (tlc s) (trel s) (tailsA s) (tailsB s) (appended s) (wire s) (last_write s).
Definition set_tlc (v : tlpc) (s : state) : state :=
  mkSt (total s) (pending s) (connected s) (will_close s) (cwf s) (nreq s) (olock s) (ocount s) (rlock s) (pulled s) (in_map s) (sock_closed s) (closed_bufs s) (reading s) (gone s) (pending_in s) (io s) (wk s) (wq s) (wclose s) (cur s) (queued s) v (trel s) (tailsA s) (tailsB s) (appended s) (wire s) (last_write s).
Definition set_trel (v : bool) (s : state) : state :=
  mkSt (total s) (pending s) (connected s) (will_close s) (cwf s) (nreq s) (olock s) (ocount s) (rlock s) (pulled s) (in_map s) (sock_closed s) (closed_bufs s) (reading s) (gone s) (pending_in s) (io s) (wk s) (wq s) (wclose s) (cur s) (queued s) (tlc s) v (tailsA s) (tailsB s) (appended s) (wire s) (last_write s).
Definition set_tailsA (v : nat) (s : state) : state :=
  mkSt (total s) (pending s) (connected s) (will_close s) (cwf s) (nreq s) (olock s) (ocount s) (rlock s) (pulled s) (in_map s) (sock_closed s) (closed_bufs s) (reading s) (gone s) (pending_in s) (io s) (wk s) (wq s) (wclose s) (cur s) (queued s) (tlc s) (trel s) v (tailsB s) (appended s) (wire s) (last_write s).
Definition set_tailsB (v : nat) (s : state) : state :=
  mkSt (total s) (pending s) (connected s) (will_close s) (cwf s) (nreq s) (olock s) (ocount s) (rlock s) (pulled s) (in_map s) (sock_closed s) (closed_bufs s) (reading s) (gone s) (pending_in s) (io s) (wk s) (wq s) (wclose s) (cur s) (queued s) (tlc s) (trel s) (tailsA s) v (appended s) (wire s) (last_write s).
Definition set_appended (v : Z) (s : state) : state :=
  mkSt (total s) (pending s) (connected s) (will_close s) (cwf s) (nreq s) (olock s) (ocount s) (rlock s) (pulled s) (in_map s) (sock_closed s) (closed_bufs s) (reading s) (gone s) (pending_in s) (io s) (wk s) (wq s) (wclose s) (cur s) (queued s) (tlc s) (trel s) (tailsA s) (tailsB s) v (wire s) (last_write s).
Definition set_wire (v : Z) (s : state) : state :=
  mkSt (total s) (pending s) (connected s) (will_close s) (cwf s) (nreq s) (olock s) (ocount s) (rlock s) (pulled s) (in_map s) (sock_closed s) (closed_bufs s) (reading s) (gone s) (pending_in s) (io s) (wk s) (wq s) (wclose s) (cur s) (queued s) (tlc s) (trel s) (tailsA s) (tailsB s) (appended s) v (last_write s).
Definition set_last_write (v : Z) (s : state) : state :=
  mkSt (total s) (pending s) (connected s) (will_close s) (cwf s) (nreq s) (olock s) (ocount s) (rlock s) (pulled s) (in_map s) (sock_closed s) (closed_bufs s) (reading s) (gone s) (pending_in s) (io s) (wk s) (wq s) (wclose s) (cur s) (queued s) (tlc s) (trel s) (tailsA s) (tailsB s) (appended s) (wire s) v.

Definition init : state :=
  mkSt 0 0 true false false 0%nat None 0%nat None false true false false true false 0%nat
       IoRd1 WIdle [] false 0%nat false TNone false 0%nat 0%nat 0 0 0.

(* ---- helpers --------------------------------------------------------- *)

Definition to_top (s : state) : state :=
  set_io (if in_map s then IoRd1 else IoSel false false) s.

(* Condition.notify(): wakes the producer if it is parked and not yet notified *)
Definition wake_w (s : state) : state :=
  match wk s with
  | WFbParked c false => set_wk (WFbParked c true) s
  | WFbParkedE c false => set_wk (WFbParkedE c true) s
  | _ => s
  end.

Definition acq (t : tid) (n : nat) (s : state) : state := set_ocount n (set_olock (Some t) s).
Definition rel (s : state) : state := set_ocount 0%nat (set_olock None s).

Definition rdy_r (s : state) : bool := (0 <? pending_in s)%nat || gone s.
Definition rdy_w (s : state) : bool := reading s || gone s.

(* socket.send accepts k bytes *)
Definition send_ok (k : Z) (s : state) : bool :=
  reading s && negb (gone s) && negb (sock_closed s) && (1 <=? k) && (k <=? pending s).

(* ---- the I/O thread --------------------------------------------------- *)

(* end of _flush_some on the I/O side *)
Definition io_flush_done (p : params) (s : state) : state :=
  (* _flush_some_if_lockable: "if total <= high_watermark: notify" *)
  set_io (if (if fx_notify_le p then total s <=? hw p else total s <? hw p) then IoNotify else IoRelL) s.

Definition enter_io_flush (p : params) (s : state) : state :=
  if pending s <=? 0 then io_flush_done p s else set_io IoFlush s.

(* handle_close(): "with self.outbuf_lock" is re-entrant for the holder *)
Definition enter_hc (k : hck) (s : state) : state :=
  match olock s with
  | Some TIo => set_io (IoHcTot k) (set_ocount (S (ocount s)) s)
  | _ => set_io (IoHcAcq k) s
  end.

Definition step_io (p : params) (s : state) (r : sendres) (res : Z) : option (state * list label) :=
  match io s with
  (* readable(): channel.py:149-154 *)
  | IoRd1 => Some (set_io (if will_close s then IoWr1 false else IoRd2) s, [Lb TIo KRwc])
  | IoRd2 => Some (set_io (if cwf s then IoWr1 false else IoRd3) s, [Lb TIo KRcwf])
  | IoRd3 => Some (set_io (if (look p <? nreq s)%nat then IoWr1 false else IoRd4) s, [Lb TIo KRreq])
  | IoRd4 => Some (set_io (IoWr1 (total s =? 0)) s, [Lb TIo KRtotal])
  (* writable(): channel.py:88 *)
  | IoWr1 rd => Some (set_io (if 0 <? total s then IoSel rd true else IoWr2 rd) s, [Lb TIo KRtotal])
  | IoWr2 rd => Some (set_io (if will_close s then IoSel rd true else IoWr3 rd) s, [Lb TIo KRwc])
  | IoWr3 rd => Some (set_io (IoSel rd (cwf s)) s, [Lb TIo KRcwf])
  (* select.select: blocks until a polled descriptor is ready or the trigger was pulled *)
  | IoSel rd wr =>
    let rr := rd && rdy_r s in
    let ww := wr && rdy_w s in
    if pulled s || rr || ww then
      Some (set_pulled false
              (if rr then set_io (IoRecv ww) s else if ww then set_io IoHw1 s else to_top s),
            [Lb TIo KSelect])
    else None
  (* handle_read: recv; received() *)
  | IoRecv ww =>
    if (0 <? pending_in s)%nat then
      Some (set_io (IoRcvAcq ww) (set_pending_in (pred (pending_in s)) s), [Lb TIo KRecv])
    else if gone s then Some (enter_hc KRead s, [Lb TIo KRecv])
    else None
  | IoRcvAcq ww =>
    match rlock s with
    | None => Some (set_io (IoRcvWc ww) (set_rlock (Some TIo) s), [Lb TIo KRAcq])
    | Some _ => None
    end
  | IoRcvWc ww => Some (set_io (if will_close s then IoRcvRel ww else IoRcvCwf ww) s, [Lb TIo KRwc])
  | IoRcvCwf ww => Some (set_io (if cwf s then IoRcvRel ww else IoRcvApp ww) s, [Lb TIo KRcwf])
  | IoRcvApp ww =>
    let s1 := set_nreq (S (nreq s)) s in
    if (nreq s =? 0)%nat
    then Some (set_io (IoRcvRel ww) (set_queued true s1), [Lb TIo KRreq; LAddTask])
    else Some (set_io (IoRcvRel ww) s1, [Lb TIo KRreq])
  | IoRcvRel ww =>
    Some ((if ww then set_io IoHw1 (set_rlock None s) else to_top (set_rlock None s)), [Lb TIo KRRel])
  (* handle_write: channel.py:95-120 *)
  | IoHw1 => Some (set_io (if (nreq s =? 0)%nat then IoTry else IoHw2) s, [Lb TIo KRreq])
  (* "elif total >= send_bytes or total > high_watermark": two unlocked reads *)
  | IoHw2 => Some (set_io (if sb p <=? total s then IoTry else if fx_drain p then IoHw2b else IoHw3) s, [Lb TIo KRtotal])
  | IoHw2b => Some (set_io (if hw p <? total s then IoTry else IoHw3) s, [Lb TIo KRtotal])
  | IoTry =>
    match olock s with
    | None => Some (enter_io_flush p (acq TIo 1 s), [Lb TIo KTry])
    | Some _ => Some (set_io IoHw3 s, [Lb TIo KTry])
    end
  (* _flush_some(do_close=True) inside _flush_some_if_lockable: one socket send *)
  | IoFlush =>
    match r with
    | SR k =>
      if send_ok k s then
        Some (set_io (IoSubL k) (set_wire (wire s + k) (set_pending (pending s - k) s)),
              [Lb TIo KSend; LWire TIo k])
      else None
    | SRBlock => Some (io_flush_done p s, [Lb TIo KSend])
    | SRGone => Some (enter_hc KFlush s, [Lb TIo KSend])
    | SRErr => Some (set_io IoRelX s, [Lb TIo KSend])
    end
  | IoSubL k =>
    let s1 := set_total (total s - k) s in
    Some ((if pending s <=? 0 then io_flush_done p s1 else set_io IoFlush s1), [Lb TIo KWtotal])
  | IoRelX => Some (set_io IoHwExn (rel s), [Lb TIo KRel])
  | IoHwExn => Some (set_io IoHw3 (set_will_close true s), [Lb TIo KWwc])
  | IoNotify => Some (set_io IoRelL (wake_w s), [Lb TIo KNotify])
  | IoRelL => Some (set_io IoHw3 (rel s), [Lb TIo KRel])
  | IoHw3 => Some (set_io (if cwf s then IoHw4 else IoHw7) s, [Lb TIo KRcwf])
  | IoHw4 => Some (set_io (if total s =? 0 then IoHw5 else IoHw7) s, [Lb TIo KRtotal])
  | IoHw5 => Some (set_io IoHw6 (set_cwf false s), [Lb TIo KWcwf])
  | IoHw6 => Some (set_io IoHw7 (set_will_close true s), [Lb TIo KWwc])
  | IoHw7 => Some ((if will_close s then enter_hc KEnd s else to_top s), [Lb TIo KRwc])
  (* handle_close: channel.py:309-321 and wasyncore.dispatcher.close *)
  | IoHcAcq k =>
    match olock s with
    | None => Some (set_io (IoHcTot k) (acq TIo 1 s), [Lb TIo KAcq])
    | Some _ => None
    end
  | IoHcTot k =>
    let keep := if residue_ok p then Z.max 0 (Z.min res (pending s)) else 0 in
    Some (set_io (IoHcConn k) (set_closed_bufs true (set_pending keep (set_total 0 s))), [Lb TIo KWtotal])
  | IoHcConn k => Some (set_io (IoHcNotify k) (set_connected false s), [Lb TIo KWconn])
  | IoHcNotify k =>
    let s1 := wake_w s in
    Some ((if (1 <? ocount s)%nat
           then set_io (IoHcClose k) (set_ocount (pred (ocount s)) s1)
           else set_io (IoHcRel k) s1), [Lb TIo KNotify])
  | IoHcRel k => Some (set_io (IoHcClose k) (rel s), [Lb TIo KRel])
  | IoHcClose k =>
    let s1 := set_sock_closed true (set_in_map false (set_connected false s)) in
    Some (match k with
          | KRead => set_io IoEof s1
          | KFlush => io_flush_done p s1
          | KEnd => to_top s1
          end, [Lb TIo KWconn; LClosed])
  | IoEof => Some (to_top (set_connected false s), [Lb TIo KWconn])
  end.

(* ---- the worker -------------------------------------------------------- *)

Definition end_service (s : state) : state := set_wk (if wclose s then WCloseAcq else WKeepLen) s.

(* the keep branch is past its last access to the output state: the rest of service() is [tlc] *)
Definition hand_over (s : state) : state := set_wk WIdle (set_tlc TAcq s).

Definition next_write (s : state) : state :=
  match wq s with [] => end_service s | _ :: _ => set_wk WWrConn s end.

(* write_soon after _flush_outbufs_below_high_watermark returned (359-378):
   "if not self.connected: raise" / append *)
Definition goto_append (s : state) : state :=
  match wq s with
  | n :: _ =>
    if connected s
    then set_wk (WAdd n) (set_last_write n (set_appended (appended s + n) (set_pending (pending s + n) s)))
    else set_wk WRelRaise s
  | [] => set_wk WRel s
  end.

Definition fb_exit (c : fctx) (s : state) : state :=
  match c with FW => goto_append (set_ocount 1%nat s) | _ => set_wk WFbRel s end.

(* "while self.connected and total > high_watermark" (412-415) *)
Definition fb_loop (p : params) (c : fctx) (s : state) : state :=
  if connected s && (hw p <? total s) then set_wk (WFbPull c) s else fb_exit c s.

(* _flush_exception(self._flush_some, do_close=False) returned (flushed=snt, exception=exn) *)
Definition w_flush_done (p : params) (c : fctx) (snt exn : bool) (s : state) : state :=
  match c with
  | FA => set_wk (if exn || negb snt || (sb p <=? total s) then WPull else WRel) s   (* 385-390 *)
  | _ => if exn then set_wk (WFbPullE c) s else fb_loop p c s                     (* 403-417 *)
  end.

Definition enter_flush (p : params) (c : fctx) (s : state) : state :=
  if pending s <=? 0 then w_flush_done p c false false s
  else if sock_closed s then set_wk (WFlushExn c) s     (* self.socket is None: AttributeError, "except Exception" *)
  else set_wk (WFlush c false) s.

(* _flush_outbufs_below_high_watermark inside its "with self.outbuf_lock": "if not self.connected: return" *)
Definition enter_fb (p : params) (c : fctx) (s : state) : state :=
  if fx_recheck p && negb (connected s) then fb_exit c s else enter_flush p c s.

Definition step_w (p : params) (s : state) (r : sendres) : option (state * list label) :=
  match wk s with
  | WIdle =>
    if queued s then
      let pr := nth (cur s) (progs p) ([], true) in
      Some (set_wk WSvcConn (set_wclose (snd pr) (set_wq (map (Z.max 0) (fst pr)) (set_queued false s))), [Lb TW KStart])
    else None
  (* "if self.connected and not self.will_close:" (service(), since 64d926d) *)
  | WSvcConn => Some (set_wk (if connected s then WSvcWc else WCloseAcq) s, [Lb TW KRconn])
  | WSvcWc => Some ((if will_close s then set_wk WCloseAcq s else next_write s), [Lb TW KRwc])
  | WWrConn =>
    match wq s with
    | [] => None
    | n :: rest =>
      if connected s then
        if n <=? 0 then Some (next_write (set_wq rest s), [Lb TW KRconn])
        else Some (set_wk WWrAcq s, [Lb TW KRconn])
      else Some (set_wk WCloseAcq s, [Lb TW KRconn; LRaise])
    end
  | WWrAcq =>
    match olock s with
    | None =>
      Some ((if hw p <? total s then enter_fb p FW (acq TW 2 s) else goto_append (acq TW 1 s)),
            [Lb TW KAcq])
    | Some _ => None
    end
  | WFlush c snt =>
    match r with
    | SR k =>
      if send_ok k s then
        Some (set_wk (WSub c k) (set_wire (wire s + k) (set_pending (pending s - k) s)),
              [Lb TW KSend; LWire TW k])
      else None
    | SRBlock | SRGone => Some (w_flush_done p c snt false s, [Lb TW KSend])
    | SRErr => Some (set_wk (WFlushExn c) s, [Lb TW KSend])
    end
  | WSub c k =>
    let s1 := set_total (total s - k) s in
    Some ((if pending s <=? 0 then w_flush_done p c true false s1 else set_wk (WFlush c true) s1),
          [Lb TW KWtotal])
  | WFlushExn c => Some (w_flush_done p c false true (set_will_close true s), [Lb TW KWwc])
  | WFbPullE c => Some (set_wk (WFbWaitE c) (set_pulled true s), [Lb TW KPull])
  | WFbWaitE c => Some (set_wk (WFbParkedE c false) (rel s), [Lb TW KWait; LPark])
  | WFbParkedE c nt =>
    if nt then
      match olock s with
      | None =>
        Some (match c with
              | FW => goto_append (acq TW 1 s)
              | _ => set_wk WFbRel (acq TW 1 s)
              end, [Lb TW KWake; LWoken])
      | Some _ => None
      end
    else None
  | WFbPull c => Some (set_wk (WFbWait c) (set_pulled true s), [Lb TW KPull])
  | WFbWait c => Some (set_wk (WFbParked c false) (rel s), [Lb TW KWait; LPark])
  | WFbParked c nt =>
    if nt then
      match olock s with
      | None => Some (fb_loop p c (acq TW (match c with FW => 2 | _ => 1 end) s), [Lb TW KWake; LWoken])
      | Some _ => None
      end
    else None
  | WAdd n =>
    let s1 := set_wq (tl (wq s)) (set_total (total s + n) s) in
    Some ((if sb p <=? total s1 then enter_flush p FA s1 else set_wk WRel s1), [Lb TW KWtotal; LAppend n])
  | WPull => Some (set_wk WRel (set_pulled true s), [Lb TW KPull])
  | WRel => Some (next_write (rel s), [Lb TW KRel])
  | WRelRaise => Some (set_wk WCloseAcq (rel s), [Lb TW KRel; LRaise])
  (* service(), keep branch: 481-482 *)
  | WKeepLen => Some ((if (1 <? nreq s)%nat then set_wk WFbTest s else hand_over s), [Lb TW KRreq])
  | WFbTest => Some ((if hw p <? total s then set_wk WFbAcq s else hand_over s), [Lb TW KRtotal])
  | WFbAcq =>
    match olock s with
    | None => Some (enter_fb p FS (acq TW 1 s), [Lb TW KAcq])
    | Some _ => None
    end
  | WFbRel => Some (hand_over (rel s), [Lb TW KRel])
  (* close branch: 466-471 *)
  | WCloseAcq =>
    match rlock s with
    | None => Some (set_wk WCloseCwf (set_rlock (Some TW) s), [Lb TW KRAcq])
    | Some _ => None
    end
  | WCloseCwf => Some (set_wk WCloseReq (set_cwf true s), [Lb TW KWcwf])
  | WCloseReq => Some (set_wk WCloseRel (set_cur (cur s + nreq s)%nat (set_nreq 0%nat s)), [Lb TW KWreq])
  | WCloseRel => Some (set_wk WIdle (set_tailsA (S (tailsA s)) (set_rlock None s)), [Lb TW KRRel])
  end.

(* ---- tails of service() (513-514) and the environment ------------------- *)

Definition step_tail (s : state) (n : nat) : option (state * list label) :=
  match n with
  | 0%nat =>   (* with self.requests_lock: *)
    match tlc s, rlock s with
    | TAcq, None => Some (set_tlc TPop (set_rlock (Some TT) s), [Lb TT KRAcq])
    | _, _ => None
    end
  | 1%nat =>   (* self.requests.pop(0) *)
    match tlc s with
    | TPop => Some (set_tlc TConn (set_cur (S (cur s)) (set_nreq (pred (nreq s)) s)), [Lb TT KRreq])
    | _ => None
    end
  | 2%nat =>   (* if self.connected and self.requests: self.server.add_task(self) *)
    match tlc s with
    | TConn =>
      if connected s && (0 <? nreq s)%nat
      then Some (set_trel true (set_tlc TNone (set_queued true s)), [Lb TT KRconn; LAddTask])
      else Some (set_trel true (set_tlc TNone s), [Lb TT KRconn])
    | _ => None
    end
  | 3%nat =>   (* end of the with block *)
    if trel s then Some (set_tailsA (S (tailsA s)) (set_trel false (set_rlock None s)), [Lb TT KRRel]) else None
  | 4%nat =>   (* if self.connected: *)
    if (0 <? tailsA s)%nat
    then Some ((if connected s then set_tailsB (S (tailsB s)) (set_tailsA (pred (tailsA s)) s)
                else set_tailsA (pred (tailsA s)) s), [Lb TT KRconn])
    else None
  | 5%nat =>   (* self.server.pull_trigger() *)
    if (0 <? tailsB s)%nat
    then Some (set_pulled true (set_tailsB (pred (tailsB s)) s), [Lb TT KPull])
    else None
  | _ => None
  end.

Definition step_env (s : state) (a : envact) : option (state * list label) :=
  match a with
  | EStall => Some (set_reading false s, [Lb TE KEnvK])
  | EResume => Some (set_reading true s, [Lb TE KEnvK])
  | EGone => Some (set_gone true s, [Lb TE KEnvK])
  | EArrive => if gone s then None else Some (set_pending_in (S (pending_in s)) s, [Lb TE KEnvK])
  end.

Definition step (p : params) (s : state) (c : choice) : option (state * list label) :=
  match c with
  | CIo r res => step_io p s r res
  | CW r => step_w p s r
  | CTail n => step_tail s n
  | CEnv a => step_env s a
  end.

Definition run (p : params) (sched : list choice) : state := Conc.run (step p) init sched.
Definition trace (p : params) (sched : list choice) : list label := Conc.trace (step p) init sched.

(* ---- observers: the executable predicates of the C12 theorems ------------ *)

(* the producer is parked in outbuf_lock.wait() and nobody has notified it *)
Definition w_parked (s : state) : bool :=
  match wk s with WFbParked _ false | WFbParkedE _ false => true | _ => false end.

(* the I/O thread is blocked in select: nothing polled is ready, trigger not pulled *)
Definition io_blocked (s : state) : bool :=
  match io s with
  | IoSel rd wr => negb (pulled s || (rd && rdy_r s) || (wr && rdy_w s))
  | _ => false
  end.

(* the I/O thread is about to run a poll turn that changes nothing: the socket
   is writable, handle_write picks no flush because a task is running,
   total < send_bytes and total <= high_watermark, no flag is set; the turn ends
   in the same state *)
Definition io_spinning (p : params) (s : state) : bool :=
  match io s with
  | IoSel false true =>
    negb (pulled s) && reading s && negb (gone s) && in_map s && (0 <? nreq s)%nat
    && (0 <? total s) && (total s <? sb p) && (negb (fx_drain p) || (total s <=? hw p))
    && negb (will_close s) && negb (cwf s)
  | _ => false
  end.

Definition io_idle (p : params) (s : state) : bool := io_blocked s || io_spinning p s.

(* no logical thread other than the environment can move *)
Definition quiescent (s : state) : bool :=
  io_blocked s && (tailsA s =? 0)%nat && (tailsB s =? 0)%nat && negb (trel s)
  && match tlc s with TNone => true | TAcq => match rlock s with None => false | Some _ => true end | _ => false end
  && match wk s with
     | WIdle => negb (queued s)
     | WFbParked _ false | WFbParkedE _ false => true
     | _ => false
     end.

Definition client_reads (s : state) : bool := reading s && negb (gone s).

(* monitor forms *)
Definition bound_ok (p : params) (s : state) : bool := pending s <=? hw p + last_write s.
Definition release_ok (p : params) (s : state) : bool :=
  negb (io_idle p s && client_reads s && w_parked s).
