(* waitress/receiver.py: FixedStreamReceiver and ChunkedReceiver, transliterated.
   The body buffer (an OverflowableBuffer) is represented by the bytes appended
   to it so far; C17 is what licenses that. *)
From Coq Require Import List NArith ZArith Bool.
From WV Require Import Lib.PyBytes Lib.Regex Gen.GenRegex.
Import ListNotations.
Local Open Scope N_scope.

(* error values (class, message) that the parsing code creates *)
Inductive perr :=
| EChunkNotTerminated      (* BadRequest("Chunk not properly terminated") *)
| EInvalidChunkExt         (* BadRequest("Invalid chunk extension") *)
| EInvalidChunkSize        (* BadRequest("Invalid chunk size") *)
| EHeaderTooLarge          (* RequestHeaderFieldsTooLarge("exceeds max_header of %s") *)
| EBodyTooLarge            (* RequestEntityTooLarge("exceeds max_body of %s") *)
| EHeaderInvalid           (* BadRequest("HTTP message header invalid") *)
| EBareCRLFFirstLine       (* BadRequest("Bare CR or LF found in HTTP message") *)
| EBareCRLFHeader          (* BadRequest('Bare CR or LF found in header line "%s"') *)
| EMalformedHeaderLine     (* BadRequest('Malformed header line "%s"') *)
| EInvalidHeader           (* BadRequest("Invalid header") *)
| EDuplicateHeader         (* BadRequest("Duplicate header: %s") *)
| EStartLineInvalid        (* BadRequest("Start line is invalid") *)
| EMalformedMethod         (* BadRequest('Malformed HTTP method "%s"') *)
| EContentLengthInvalid    (* BadRequest("Content-Length is invalid") *)
| EBadURI                  (* BadRequest("Bad URI") *)
| ETENotSupported          (* ServerNotImplemented("Transfer-Encoding requested is not supported.") *)
| ETEMultipleChunked.      (* ServerNotImplemented("Transfer-Encoding is invalid. Multiple chunked encodings requested.") *)

Definition perr_code (e : perr) : N :=
  match e with
  | EHeaderTooLarge => 431
  | EBodyTooLarge => 413
  | ETENotSupported | ETEMultipleChunked => 501
  | _ => 400
  end.

Definition CRLF : bytes := [13; 10].
Definition CRLFCRLF : bytes := [13; 10; 13; 10].

(* utilities.find_double_newline: position just after the first CRLFCRLF *)
Definition find_double_newline (s : bytes) : option nat :=
  match find s CRLFCRLF with
  | Some i => Some (i + 4)%nat
  | None => None
  end.

(* ---------------------------------------------------------------- *)
Record fixed_rcv := {
  f_remain : N;
  f_buf : bytes;
  f_completed : bool
}.

Definition fixed_init (cl : N) : fixed_rcv :=
  {| f_remain := cl; f_buf := []; f_completed := false |}.

Definition fixed_received (st : fixed_rcv) (data : bytes) : fixed_rcv * Z :=
  let rm := f_remain st in
  if rm <? 1 then
    ({| f_remain := rm; f_buf := f_buf st; f_completed := true |}, 0%Z)
  else
    let datalen := lenN data in
    if rm <=? datalen then
      ({| f_remain := 0; f_buf := f_buf st ++ firstn (N.to_nat rm) data; f_completed := true |},
       Z.of_N rm)
    else
      ({| f_remain := rm - datalen; f_buf := f_buf st ++ data; f_completed := f_completed st |},
       Z.of_N datalen).

(* ---------------------------------------------------------------- *)
Record chunked_rcv := {
  chunk_remainder : N;
  validate_chunk_end : bool;
  control_line : bytes;
  chunk_end : bytes;
  all_chunks_received : bool;
  trailer : bytes;
  c_completed : bool;
  c_error : option perr;
  c_buf : bytes
}.

Definition chunked_init : chunked_rcv :=
  {| chunk_remainder := 0; validate_chunk_end := false; control_line := [];
     chunk_end := []; all_chunks_received := false; trailer := [];
     c_completed := false; c_error := None; c_buf := [] |}.

(* record update helpers *)
Definition set_rem st v := {| chunk_remainder := v; validate_chunk_end := validate_chunk_end st;
  control_line := control_line st; chunk_end := chunk_end st; all_chunks_received := all_chunks_received st;
  trailer := trailer st; c_completed := c_completed st; c_error := c_error st; c_buf := c_buf st |}.
Definition set_validate st v := {| chunk_remainder := chunk_remainder st; validate_chunk_end := v;
  control_line := control_line st; chunk_end := chunk_end st; all_chunks_received := all_chunks_received st;
  trailer := trailer st; c_completed := c_completed st; c_error := c_error st; c_buf := c_buf st |}.
Definition set_control st v := {| chunk_remainder := chunk_remainder st; validate_chunk_end := validate_chunk_end st;
  control_line := v; chunk_end := chunk_end st; all_chunks_received := all_chunks_received st;
  trailer := trailer st; c_completed := c_completed st; c_error := c_error st; c_buf := c_buf st |}.
Definition set_chunk_end st v := {| chunk_remainder := chunk_remainder st; validate_chunk_end := validate_chunk_end st;
  control_line := control_line st; chunk_end := v; all_chunks_received := all_chunks_received st;
  trailer := trailer st; c_completed := c_completed st; c_error := c_error st; c_buf := c_buf st |}.
Definition set_all st v := {| chunk_remainder := chunk_remainder st; validate_chunk_end := validate_chunk_end st;
  control_line := control_line st; chunk_end := chunk_end st; all_chunks_received := v;
  trailer := trailer st; c_completed := c_completed st; c_error := c_error st; c_buf := c_buf st |}.
Definition set_trailer st v := {| chunk_remainder := chunk_remainder st; validate_chunk_end := validate_chunk_end st;
  control_line := control_line st; chunk_end := chunk_end st; all_chunks_received := all_chunks_received st;
  trailer := v; c_completed := c_completed st; c_error := c_error st; c_buf := c_buf st |}.
Definition set_completed st v := {| chunk_remainder := chunk_remainder st; validate_chunk_end := validate_chunk_end st;
  control_line := control_line st; chunk_end := chunk_end st; all_chunks_received := all_chunks_received st;
  trailer := trailer st; c_completed := v; c_error := c_error st; c_buf := c_buf st |}.
Definition set_error st v := {| chunk_remainder := chunk_remainder st; validate_chunk_end := validate_chunk_end st;
  control_line := control_line st; chunk_end := chunk_end st; all_chunks_received := all_chunks_received st;
  trailer := trailer st; c_completed := c_completed st; c_error := v; c_buf := c_buf st |}.
Definition buf_append st d := {| chunk_remainder := chunk_remainder st; validate_chunk_end := validate_chunk_end st;
  control_line := control_line st; chunk_end := chunk_end st; all_chunks_received := all_chunks_received st;
  trailer := trailer st; c_completed := c_completed st; c_error := c_error st; c_buf := c_buf st ++ d |}.

(* the verdict on one control line (between two CRLFs), as the code computes it *)
Inductive line_verdict := LVSize (sz : N) | LVBadExt | LVBadSize.

Definition control_line_verdict (line : bytes) : line_verdict :=
  let '(sizepart, extok) :=
    match find line [59] with                       (* line.find(b";") *)
    | Some semi => (firstn semi line, matches gate_chunk_ext (skipn semi line))
    | None => (line, true)
    end in
  if negb extok then LVBadExt
  else if negb (matches gate_chunk_size sizepart) then LVBadSize
  else LVSize (hex_value sizepart).

(* result of one iteration of the `while s:` loop *)
Inductive iter_res :=
| Continue (st : chunked_rcv) (s : bytes)
| Break (st : chunked_rcv)                 (* `break`: falls to `return orig_size` *)
| Return (st : chunked_rcv) (v : Z).

Definition chunked_iter (st : chunked_rcv) (s : bytes) (orig_size : Z) : iter_res :=
  let rm := chunk_remainder st in
  if 0 <? rm then
    let to_write := firstn (N.to_nat rm) s in
    let st1 := buf_append st to_write in
    let written := lenN to_write in
    let s' := skipn (length to_write) s in
    let st2 := set_rem st1 (rm - written) in
    let st3 := if chunk_remainder st2 =? 0 then set_validate st2 true else st2 in
    Continue st3 s'
  else if validate_chunk_end st then
    let s1 := chunk_end st ++ s in
    let pos := find s1 CRLF in
    match pos with
    | None =>
      if (length s1 <? 2)%nat then Continue (set_chunk_end st s1) []
      else
        let st1 := set_chunk_end st [] in
        let st2 := set_all (set_error st1 (Some EChunkNotTerminated)) true in
        Continue (set_validate st2 false) s1
    | Some p =>
      let st1 := set_chunk_end st [] in
      match p with
      | O => Continue (set_validate st1 false) (skipn 2 s1)
      | S _ =>
        let st2 := set_all (set_error st1 (Some EChunkNotTerminated)) true in
        Continue (set_validate st2 false) s1
      end
    end
  else if negb (all_chunks_received st) then
    let s1 := control_line st ++ s in
    match find s1 CRLF with
    | None => Continue (set_control st s1) []
    | Some pos =>
      let line := firstn pos s1 in
      let s2 := skipn (pos + 2) s1 in
      let st1 := set_control st [] in
      match line with
      | [] => Break (set_all (set_error st1 (Some EInvalidChunkSize)) true)   (* `if not line:` *)
      | _ =>
        match control_line_verdict line with
        | LVBadExt => Break (set_all (set_error st1 (Some EInvalidChunkExt)) true)
        | LVBadSize => Break (set_all (set_error st1 (Some EInvalidChunkSize)) true)
        | LVSize sz =>
          if 0 <? sz then Continue (set_rem st1 sz) s2
          else Continue (set_all st1 true) s2
        end
      end
    end
  else
    let tr := trailer st ++ s in
    if startswith tr CRLF then
      Return (set_completed st true) (orig_size - (Z.of_nat (length tr) - 2))%Z
    else
      match find_double_newline tr with
      | None => Continue (set_trailer st tr) []
      | Some pos =>
        Return (set_trailer (set_completed st true) (firstn pos tr))
               (orig_size - (Z.of_nat (length tr) - Z.of_nat pos))%Z
      end.

Fixpoint chunked_loop (fuel : nat) (st : chunked_rcv) (s : bytes) (orig_size : Z)
  : option (chunked_rcv * Z) :=
  match s with
  | [] => Some (st, orig_size)
  | _ :: _ =>
    match fuel with
    | O => None
    | S f =>
      match chunked_iter st s orig_size with
      | Continue st' s' => chunked_loop f st' s' orig_size
      | Break st' => Some (st', orig_size)
      | Return st' v => Some (st', v)
      end
    end
  end.

Definition chunked_fuel (st : chunked_rcv) (s : bytes) : nat :=
  2 * (length s + length (control_line st) + length (chunk_end st)) + 4.

(* None = out of fuel (excluded by Proof/Receiver: never happens) *)
Definition chunked_received (st : chunked_rcv) (s : bytes) : option (chunked_rcv * Z) :=
  if c_completed st then Some (st, 0%Z)
  else chunked_loop (chunked_fuel st s) st s (Z.of_nat (length s)).
