(* waitress/channel.py: HTTPChannel.received (the I/O-thread side, no
   interleaving with workers), transliterated.  add_task is recorded as an
   event; the 100-continue bytes are appended to an output log. *)
From Coq Require Import List NArith ZArith Bool.
From RecordUpdate Require Import RecordUpdate.
From WV Require Import Lib.PyBytes Model.Receiver Model.Parser.
Import ListNotations.
Local Open Scope N_scope.

Record chan := {
  request : option parser;        (* the request being received *)
  requests : list parser;         (* completed, waiting for / in service *)
  sent_continue : bool;
  will_close : bool;
  close_when_flushed : bool;
  outlog : bytes;                 (* bytes appended to the output buffers by the I/O side *)
  add_task_calls : nat
}.

#[export] Instance eta_chan : Settable _ := settable! Build_chan
  <request; requests; sent_continue; will_close; close_when_flushed; outlog; add_task_calls>.

Definition chan_init : chan :=
  {| request := None; requests := []; sent_continue := false; will_close := false;
     close_when_flushed := false; outlog := []; add_task_calls := 0 |}.

Definition continue_bytes : bytes :=   (* b"HTTP/1.1 100 Continue\r\n\r\n" *)
  [72;84;84;80;47;49;46;49;32;49;48;48;32;67;111;110;116;105;110;117;101;13;10;13;10].

Inductive chan_res :=
| COk (c : chan)
| CEscapes          (* an exception leaves received(): wasyncore's handle_error closes the channel *)
| COutOfFuel
| CUnmodelled.

(* send_continue(), applied to the request under construction
   (the statement `self.request.completed = False` that used to end it was a
   defect -- F5/F6 -- repaired in /repo by fix e3537e2; see KNOWN_FINDINGS.txt) *)
Definition send_continue (c : chan) (r : parser) : chan * parser :=
  let r1 := r <| expect_continue := false |> in
  let c1 := c <| outlog := outlog c ++ continue_bytes |> <| sent_continue := true |> in
  (c1, r1).

Fixpoint received_loop (fuel : nat) (a : adj) (c : chan) (data : bytes) : chan_res :=
  match fuel with
  | O => COutOfFuel
  | S f =>
    let r0 := match request c with Some r => r | None => parser_init end in
    match Parser.received a r0 data with
    | REscapes => CEscapes
    | ROutOfFuel => COutOfFuel
    | RUnmodelled => CUnmodelled
    | ROk r1 n =>
      let c := c <| request := Some r1 |> in
      let '(c, r2) :=
        if expect_continue r1 && headers_finished r1
           && (match requests c with [] => true | _ => false end) && negb (sent_continue c)
        then send_continue c r1 else (c, r1) in
      let c := c <| request := Some r2 |> in
      let c :=
        if completed r2 then
          let c := c <| sent_continue := false |> in
          let c :=
            if negb (empty r2) then
              let c := c <| requests := requests c ++ [r2] |> in
              if (length (requests c) =? 1)%nat
              then c <| add_task_calls := S (add_task_calls c) |> else c
            else c in
          c <| request := None |>
        else c in
      if (Z.of_nat (length data) <=? n)%Z then COk c
      else received_loop f a c (skipn (Z.to_nat n) data)
    end
  end.

(* HTTPChannel.received(data) *)
Definition chan_received (a : adj) (c : chan) (data : bytes) : chan_res :=
  match data with
  | [] => COk c
  | _ =>
    if will_close c || close_when_flushed c then COk c
    else received_loop (S (length data)) a c data
  end.

(* feed a list of reads; stops at the first abnormal result *)
Fixpoint feed (a : adj) (c : chan) (reads : list bytes) : chan_res :=
  match reads with
  | [] => COk c
  | d :: rest =>
    match chan_received a c d with
    | COk c' => feed a c' rest
    | r => r
    end
  end.
