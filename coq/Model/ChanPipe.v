(* Model/ChanPipe.v -- the narrow connection model of property C04
   ("pipelined requests: in order, exactly once, never mixed, under every
   schedule").  No proofs in this file.

   ONE HTTPChannel (/repo/src/waitress/channel.py), the I/O thread, the pool
   workers W_0 .. W_(NW-1) of ONE ThreadedTaskDispatcher (task.py) and the
   environment (client + kernel).  The model is an executable step function

       step : params -> state -> choice -> option (state * list label)

   A choice names the logical thread that moves (CIo / CWk i) and carries the
   environment's decision for that move (how many bytes send() accepts, what
   recv() delivers, which descriptors select() reports).  Choices that are not
   enabled give None and are skipped by [run], so every list of choices is a
   schedule.

   GRANULARITY (DESIGN.md Appendix A).  One step = one labelled operation:
   every acquire / try-acquire / release / wait / wake / notify of
   requests_lock (Rq), outbuf_lock (Ob) and the dispatcher lock (Dl), every
   socket call (send, recv, select), every pull_trigger and every read or
   write of a channel attribute that is not protected by one lock on all its
   accesses:  requests, total_outbufs_len, connected, will_close,
   close_when_flushed, outbufs.  `x -= n` is a read step and a write step.
   The buffer-object operations outbuf.get() and outbuf.skip() inside
   _flush_some are steps of their own as well (FlGet, FlSkip); they are the
   two steps the attribute tracer of the harness cannot see ("invisible"
   steps, label list []), as is the thread-local parser work at the top of
   the `while data` loop of received() (IoRcItem).
   Attributes whose every access is under requests_lock (request,
   sent_continue) are updated inside the neighbouring step of the same
   critical section.  Thread-local code runs with the preceding step.

   WHICH STATEMENT IS WHICH STEP
     poll():  readable()  IoRd1 (R will_close) IoRd2 (R close_when_flushed)
                          IoRd3 (R requests, len > lookahead) IoRd4 (R total)
              writable()  IoWr1 (R total) IoWr2 (R will_close) IoWr3 (R cwf)
              select      IoSel      (ESel rs ws: what the kernel reports)
     handle_read_event    IoHrConn (R connected)  IoRecv (recv: ERecv k frag /
                          EEof -> handle_close, then IoHrWConn: W connected)
     received()           IoRcAcq (A Rq) IoRcWc (R will_close) IoRcCwf (R cwf)
                          IoRcItem (parser.received on the next piece)
                          IoRcChk (R requests in the `expect_continue and ...`
                          test, and sent_continue) -> send_continue (IoRcSc)
                          IoRcApp / IoRcApp2 (requests.append(self.request): load of
                          requests, load of request, then the mutation) IoRcLen (len(requests)==1)
                          -> add_task (IoRcAt)  IoRcRel (Rel Rq)
     send_continue(do_close)  (do_close only matters for socket errors, which are not modelled)
                          ScAcq (A Ob) ScApp (outbufs[-1].append) ScTotR/ScTotW
                          (total += 25, sent_continue := True) ScFl (_flush_some via _flush_exception,
                          48f7fa0; ScExcW: W will_close when it raises)
                          ScRel (Rel Ob)
     handle_write_event   IoHwConn (R connected) IoHwReq (R requests: [] ->
                          IoHwTry = _flush_some_if_lockable; before 8bcf05e: IoHwFlU = _flush_some WITHOUT the lock) IoHwTot (R total
                          >= send_bytes) IoHwTotH (R total > high watermark) IoHwTry (try-acquire Ob) IoHwFlL
                          IoHwNTot (R total < high watermark) IoHwNotify IoHwRel
                          IoHwExcW (W will_close in _flush_exception)
                          (the step IoHwFlU exists only in the pre-8bcf05e shape, p_unlocked = true)
                          IoHwCwf (R cwf) IoHwTot2 (R total) IoHwWCwf IoHwWWc
                          IoHwWc (R will_close -> handle_close)
     handle_close()       HcAcq (A Ob) HcBufs (close every outbuf) HcTot (W total:=0)
                          HcConn (W connected:=False) HcNotify HcRel HcConn2
                          (dispatcher.close: W connected, map delete, socket.close)
     _flush_some()        FlLoad (outbufs[0], len) FlGet (get) FlSend (send: ESend n)
                          FlSkip (skip; ValueError when fewer than n bytes are left; FExc also stands for
                          the IndexError of outbufs[0] / pop(0) on an emptied list)
                          FlTotR FlTotW (total -= n) FlLen (len(outbufs) > 1) FlPop
     handler_thread()     WAcqD (A Dl; `while not queue` test; popleft) WWait
                          WParked (wake-up: needs a notify) WRelD
     service()            WSvReq (requests[0]) WSvConn (R connected) WSvWc (R will_close; the task
                          runs: AppCall)  per write_soon: WWsConn WWsAcq WWsHw WWsConn2
                          WWsRot (outbufs.append(new buffer)) WWsApp WWsTotR WWsTotW
                          WWsChk (R total >= send_bytes) WWsFl WWsChk2 WWsTrig WWsRel
                          close branch: WCbAcq WCbCwf WCbReq WCbClr WCbRel
                          keep branch:  WKbLen (len(requests) > 1) WKbHw WKbAcq
                          WKbPop WKbConn WKbReq -> add_task (WKbAt) | WKbConn2 ->
                          send_continue (WKbSc: THE WORKER-SIDE CALL, finding F18)
                          WKbRel;  tail: WTlConn WTlTrig
     add_task()           AtAcq (A Dl; queue.append) AtNotify AtRel

   ABSTRACTIONS (and why they are sound for C04)
   * A request is an id (its index in the script) with a descriptor: does it
     carry `Expect: 100-continue` with a body that is not complete at the end
     of its header block, the sizes of the write_soon calls its task makes, and
     whether the task ends with close_on_finish.  What the parser and the task
     compute is the business of C01/C02/C03; here only the order and the
     number of executions and the position of the bytes matter.  An expecting
     request without a body (complete at the end of its header block) is the
     item IFullX.  (Since fix e3537e2 send_continue() no longer resets
     request.completed; the model follows the repaired code.)
   * Bytes are tokens: TResp id k is the k-th byte of the response to request
     id, TCont id k the k-th byte of an interim `100 Continue` sent for request
     id.  Duplication, loss, reordering and interleaving are visible on tokens.
     Each output buffer is a FIFO of tokens (licensed by C17); outbufs is a
     list of buffers, rotation (`current_outbuf_count >= high watermark`, forced
     by the keep branch of service()) is represented by the three-valued
     abstraction cnt of current_outbuf_count.  ReadOnlyFileBasedBuffer
     (wsgi.file_wrapper) is not modelled.
   * outbuf_high_watermark is assumed larger than any amount of pending output
     (default 16 MiB): _flush_outbufs_below_high_watermark reduces to its
     first test (a read of total_outbufs_len).  Back-pressure is property C12.
   * outbuf.get(sendbuf_len) returns a non-empty prefix of the first buffer,
     of a length the environment chooses (ESend len n): OverflowableBuffer
     returns everything while it is in its bytes stage and at most sendbuf_len
     bytes afterwards (C17); no theorem depends on the length.
   * The socket never fails: send() accepts 0..len bytes (0 = EWOULDBLOCK),
     recv() delivers data or EOF.  errno paths are property C13.
     maintenance() and cancel() (C18, shutdown) are not modelled.
   * The trigger is not modelled: select may return with nothing ready
     (over-approximation of a pulled trigger); pull_trigger is a step
     without effect.  Wake-ups are property C05.
   * Input: the client's byte stream is the script's item stream (IFull id |
     IHead id ; IRest id | IFullX id); a recv() delivers k >= 0 whole items and possibly
     an incomplete piece of the next one.
   Ghost fields (never read by the program): arrivals, starts, execs, wire,
   produced, discarded, units, infl, wsc, closing, popped, cut. *)
From Coq Require Import List Arith Bool ZArith Lia.
Import ListNotations.
Open Scope nat_scope.

(* ------------------------------------------------------------------ data *)

Inductive tok := TResp (id k : nat) | TCont (id k : nat).

Record rdesc := { r_expect : bool; r_nobody : bool; r_writes : list nat; r_close : bool }.

Inductive item := IFull (id : nat) | IHead (id : nat) | IRest (id : nat) | IFullX (id : nat).
Inductive ritem := Whole (it : item) | Piece (it : item).

Inductive unit_ := UResp (id n : nat) | UCont (id : nat).

Inductive tid := TIo | TW (i : nat).
Inductive lockid := Rq | Ob | Dl.
Inductive attr := ARequests | ATotal | AConnected | AWillClose | ACwf | AOutbufs | ARequest.

Inductive label :=
| LAcq (l : lockid) | LTry (l : lockid) (ok : bool) | LRel (l : lockid)
| LWait | LWake | LNotify (l : lockid)
| LR (a : attr) | LW (a : attr)
| LSend (len n : nat) | LRecv | LSelect | LTrig.

Inductive env := ENone | ESel (rs ws : bool) | ERecv (k : nat) (frag : bool) | EEof | ESend (len n : nat).
Inductive choice := CIo (e : env) | CWk (i : nat) (e : env).

Inductive cnt3 := CZero | CPos | CHw.

Record params := {
  p_look : nat;          (* channel_request_lookahead *)
  p_sb : Z;              (* send_bytes *)
  p_clen : nat;          (* length of b"HTTP/1.1 100 Continue\r\n\r\n" *)
  p_nw : nat;            (* number of pool workers *)
  p_unlocked : bool;     (* false: the code as it is (since 8bcf05e handle_write flushes under try-lock also when
                            requests == []); true: the previous shape (unlocked _flush_some), kept for the
                            refutation witness of finding F18 only *)
  p_script : list rdesc  (* the requests the client sends, in order *)
}.

(* ----------------------------------------------------------- program points *)

Inductive flpc := FlLoad | FlGet | FlSend | FlSkip | FlTotR | FlTotW | FlLen | FlPop.
Record flst := { fpc : flpc; f_olen : nat; f_chunk : list tok; f_n : nat; f_tmp : Z; f_sent : bool }.
Definition fl0 : flst := {| fpc := FlLoad; f_olen := 0; f_chunk := []; f_n := 0; f_tmp := 0%Z; f_sent := false |}.

Inductive scpc := ScAcq | ScApp | ScTotR | ScTotW (tmp : Z) | ScFl (f : flst) | ScExcW | ScRel.
Inductive atpc := AtAcq | AtNotify | AtRel.
Inductive hcpc := HcAcq | HcBufs | HcTot | HcConn | HcNotify | HcRel | HcConn2.

Inductive iopc :=
| IoRd1 | IoRd2 | IoRd3 | IoRd4 | IoWr1 | IoWr2 | IoWr3 | IoSel
| IoHrConn | IoRecv | IoHrWConn
| IoRcAcq | IoRcWc | IoRcCwf | IoRcItem | IoRcChk | IoRcSc (sc : scpc) | IoRcApp | IoRcApp2 | IoRcLen
| IoRcAt (a : atpc) | IoRcRel
| IoHwConn | IoHwReq | IoHwFlU (f : flst) | IoHwTot | IoHwTotH | IoHwTry | IoHwFlL (f : flst)
| IoHwNTot | IoHwNotify | IoHwRel | IoHwRelX | IoHwExcW
| IoHwCwf | IoHwTot2 | IoHwWCwf | IoHwWWc | IoHwWc
| IoHc (h : hcpc) (eof : bool)
| IoDead.

Inductive wkpc :=
| WAcqD | WWait | WParked | WRelD
| WSvReq | WSvConn | WSvWc
| WWsConn | WWsAcq | WWsHw | WWsConn2 | WWsRelX | WWsRot | WWsApp | WWsTotR | WWsTotW (tmp : Z)
| WWsChk | WWsFl (f : flst) | WWsExcW | WWsChk2 | WWsTrig | WWsRel
| WCbAcq | WCbCwf | WCbReq | WCbClr | WCbRel
| WKbLen | WKbHw | WKbAcq | WKbPop | WKbConn | WKbReq | WKbAt (a : atpc) | WKbConn2
| WKbSc (sc : scpc) | WKbRel
| WTlConn | WTlTrig.

Record iost := {
  ipc : iopc;
  i_r : bool; i_w : bool;          (* results of readable() / writable() *)
  i_ws : bool;                     (* select reported the socket writable *)
  i_items : list ritem;            (* what is left of `data` in received() *)
  i_cur : nat;                     (* id of the request the parser is working on *)
  i_comp : bool                    (* self.request.completed after the last parser call *)
}.

Record wkst := {
  wpc : wkpc;
  w_cur : nat;        (* id of the request being served (requests[0] at service start) *)
  w_idx : nat;        (* index of the next write_soon call of the task *)
  w_off : nat;        (* number of response tokens produced so far *)
  w_close : bool      (* task.close_on_finish *)
}.

Record shared := {
  (* the channel's attributes *)
  requests : list nat;
  pst : option (nat * bool * bool);   (* self.request: id, expect_continue, headers_finished *)
  sent_continue : bool;
  will_close : bool;
  cwf : bool;                         (* close_when_flushed *)
  connected : bool;
  total : Z;                          (* total_outbufs_len *)
  obs : list (list tok);              (* outbufs: contents of each buffer *)
  cnt : cnt3;                         (* current_outbuf_count: 0 / positive / >= high watermark *)
  (* locks *)
  rlock : option tid; olock : option tid; dlock : option tid;
  (* the dispatcher *)
  queue : nat;                        (* entries of this channel in ThreadedTaskDispatcher.queue *)
  qwait : list nat;                   (* workers parked in queue_cv.wait(), longest first *)
  qnotified : list nat;               (* parked workers that have been notified *)
  (* the client's stream *)
  nxt : nat;                          (* index of the next item the server has not read completely *)
  (* ghost history *)
  arrivals : list nat;                (* ids in the order received() queued them *)
  starts : list nat;                  (* ids in the order service() read requests[0] *)
  execs : list nat;                   (* ids in the order the application was called *)
  wire : list tok;                    (* tokens accepted by send(), in order *)
  produced : list tok;                (* tokens appended to the output buffers, in order *)
  discarded : list tok;               (* pending tokens dropped by handle_close *)
  units : list unit_;                 (* what was produced, by unit: response (so far) / interim *)
  infl : nat;                         (* tokens accepted by send() and not yet skip()ped *)
  wsc : bool;                         (* a worker has entered send_continue() (class of F18) *)
  closing : bool;                     (* service() took its close branch (close_when_flushed was set) *)
  popped : list nat;                  (* ids removed by requests.pop(0), in order *)
  cut : nat                           (* length of the wire when handle_close discarded the pending output *)
}.

Record state := { sh : shared; io : iost; wk : nat -> wkst }.

(* ---------------------------------------------------------------- helpers *)

Definition desc (P : params) (id : nat) : rdesc :=
  nth id (p_script P) {| r_expect := false; r_nobody := false; r_writes := []; r_close := false |}.

Fixpoint items_from (id : nat) (l : list rdesc) : list item :=
  match l with
  | [] => []
  | d :: r => (if r_expect d then (if r_nobody d then [IFullX id] else [IHead id; IRest id]) else [IFull id]) ++ items_from (S id) r
  end.
Definition stream (P : params) : list item := items_from 0 (p_script P).

Definition resp_toks (id off m : nat) : list tok := map (TResp id) (seq off m).
Definition cont_toks (P : params) (id : nat) : list tok := map (TCont id) (seq 0 (p_clen P)).
Definition utoks (P : params) (u : unit_) : list tok :=
  match u with UResp id n => resp_toks id 0 n | UCont id => cont_toks P id end.
Definition resp_len (P : params) (id : nat) : nat := list_sum (r_writes (desc P id)).

(* append to the last buffer (outbufs[-1].append) *)
Fixpoint app_last (l : list (list tok)) (x : list tok) : list (list tok) :=
  match l with
  | [] => [x]
  | [b] => [b ++ x]
  | b :: r => b :: app_last r x
  end.
(* replace the first buffer *)
Definition set_hd (l : list (list tok)) (b : list tok) : list (list tok) :=
  match l with [] => [b] | _ :: r => b :: r end.

(* a response write of m tokens for request id: extend the last unit if it is
   that request's, else open a new one *)
Fixpoint bump (id m : nat) (us : list unit_) : list unit_ :=
  match us with
  | [] => [UResp id m]
  | [UResp id' n] => if Nat.eqb id' id then [UResp id' (n + m)] else [UResp id' n; UResp id m]
  | [u] => [u; UResp id m]
  | u :: r => u :: bump id m r
  end.

Definition cnt_add (c : cnt3) : cnt3 := match c with CZero => CPos | c => c end.

Definition upd (f : nat -> wkst) (i : nat) (x : wkst) : nat -> wkst :=
  fun j => if Nat.eqb j i then x else f j.

Definition tid_eqb (a b : tid) : bool :=
  match a, b with TIo, TIo => true | TW i, TW j => Nat.eqb i j | _, _ => false end.
Definition holds (l : option tid) (t : tid) : bool :=
  match l with Some u => tid_eqb u t | None => false end.
Definition free (l : option tid) : bool := match l with None => true | Some _ => false end.

(* field setters (Coq 8.16 has no record update syntax) *)
Definition set_requests (s : shared) v := {| requests := v; pst := pst s; sent_continue := sent_continue s; will_close := will_close s; cwf := cwf s; connected := connected s; total := total s; obs := obs s; cnt := cnt s; rlock := rlock s; olock := olock s; dlock := dlock s; queue := queue s; qwait := qwait s; qnotified := qnotified s; nxt := nxt s; arrivals := arrivals s; starts := starts s; execs := execs s; wire := wire s; produced := produced s; discarded := discarded s; units := units s; infl := infl s; wsc := wsc s; closing := closing s; popped := popped s; cut := cut s |}.
Definition set_pst (s : shared) v := {| requests := requests s; pst := v; sent_continue := sent_continue s; will_close := will_close s; cwf := cwf s; connected := connected s; total := total s; obs := obs s; cnt := cnt s; rlock := rlock s; olock := olock s; dlock := dlock s; queue := queue s; qwait := qwait s; qnotified := qnotified s; nxt := nxt s; arrivals := arrivals s; starts := starts s; execs := execs s; wire := wire s; produced := produced s; discarded := discarded s; units := units s; infl := infl s; wsc := wsc s; closing := closing s; popped := popped s; cut := cut s |}.
Definition set_sent_continue (s : shared) v := {| requests := requests s; pst := pst s; sent_continue := v; will_close := will_close s; cwf := cwf s; connected := connected s; total := total s; obs := obs s; cnt := cnt s; rlock := rlock s; olock := olock s; dlock := dlock s; queue := queue s; qwait := qwait s; qnotified := qnotified s; nxt := nxt s; arrivals := arrivals s; starts := starts s; execs := execs s; wire := wire s; produced := produced s; discarded := discarded s; units := units s; infl := infl s; wsc := wsc s; closing := closing s; popped := popped s; cut := cut s |}.
Definition set_will_close (s : shared) v := {| requests := requests s; pst := pst s; sent_continue := sent_continue s; will_close := v; cwf := cwf s; connected := connected s; total := total s; obs := obs s; cnt := cnt s; rlock := rlock s; olock := olock s; dlock := dlock s; queue := queue s; qwait := qwait s; qnotified := qnotified s; nxt := nxt s; arrivals := arrivals s; starts := starts s; execs := execs s; wire := wire s; produced := produced s; discarded := discarded s; units := units s; infl := infl s; wsc := wsc s; closing := closing s; popped := popped s; cut := cut s |}.
Definition set_cwf (s : shared) v := {| requests := requests s; pst := pst s; sent_continue := sent_continue s; will_close := will_close s; cwf := v; connected := connected s; total := total s; obs := obs s; cnt := cnt s; rlock := rlock s; olock := olock s; dlock := dlock s; queue := queue s; qwait := qwait s; qnotified := qnotified s; nxt := nxt s; arrivals := arrivals s; starts := starts s; execs := execs s; wire := wire s; produced := produced s; discarded := discarded s; units := units s; infl := infl s; wsc := wsc s; closing := closing s; popped := popped s; cut := cut s |}.
Definition set_connected (s : shared) v := {| requests := requests s; pst := pst s; sent_continue := sent_continue s; will_close := will_close s; cwf := cwf s; connected := v; total := total s; obs := obs s; cnt := cnt s; rlock := rlock s; olock := olock s; dlock := dlock s; queue := queue s; qwait := qwait s; qnotified := qnotified s; nxt := nxt s; arrivals := arrivals s; starts := starts s; execs := execs s; wire := wire s; produced := produced s; discarded := discarded s; units := units s; infl := infl s; wsc := wsc s; closing := closing s; popped := popped s; cut := cut s |}.
Definition set_total (s : shared) v := {| requests := requests s; pst := pst s; sent_continue := sent_continue s; will_close := will_close s; cwf := cwf s; connected := connected s; total := v; obs := obs s; cnt := cnt s; rlock := rlock s; olock := olock s; dlock := dlock s; queue := queue s; qwait := qwait s; qnotified := qnotified s; nxt := nxt s; arrivals := arrivals s; starts := starts s; execs := execs s; wire := wire s; produced := produced s; discarded := discarded s; units := units s; infl := infl s; wsc := wsc s; closing := closing s; popped := popped s; cut := cut s |}.
Definition set_obs (s : shared) v := {| requests := requests s; pst := pst s; sent_continue := sent_continue s; will_close := will_close s; cwf := cwf s; connected := connected s; total := total s; obs := v; cnt := cnt s; rlock := rlock s; olock := olock s; dlock := dlock s; queue := queue s; qwait := qwait s; qnotified := qnotified s; nxt := nxt s; arrivals := arrivals s; starts := starts s; execs := execs s; wire := wire s; produced := produced s; discarded := discarded s; units := units s; infl := infl s; wsc := wsc s; closing := closing s; popped := popped s; cut := cut s |}.
Definition set_cnt (s : shared) v := {| requests := requests s; pst := pst s; sent_continue := sent_continue s; will_close := will_close s; cwf := cwf s; connected := connected s; total := total s; obs := obs s; cnt := v; rlock := rlock s; olock := olock s; dlock := dlock s; queue := queue s; qwait := qwait s; qnotified := qnotified s; nxt := nxt s; arrivals := arrivals s; starts := starts s; execs := execs s; wire := wire s; produced := produced s; discarded := discarded s; units := units s; infl := infl s; wsc := wsc s; closing := closing s; popped := popped s; cut := cut s |}.
Definition set_rlock (s : shared) v := {| requests := requests s; pst := pst s; sent_continue := sent_continue s; will_close := will_close s; cwf := cwf s; connected := connected s; total := total s; obs := obs s; cnt := cnt s; rlock := v; olock := olock s; dlock := dlock s; queue := queue s; qwait := qwait s; qnotified := qnotified s; nxt := nxt s; arrivals := arrivals s; starts := starts s; execs := execs s; wire := wire s; produced := produced s; discarded := discarded s; units := units s; infl := infl s; wsc := wsc s; closing := closing s; popped := popped s; cut := cut s |}.
Definition set_olock (s : shared) v := {| requests := requests s; pst := pst s; sent_continue := sent_continue s; will_close := will_close s; cwf := cwf s; connected := connected s; total := total s; obs := obs s; cnt := cnt s; rlock := rlock s; olock := v; dlock := dlock s; queue := queue s; qwait := qwait s; qnotified := qnotified s; nxt := nxt s; arrivals := arrivals s; starts := starts s; execs := execs s; wire := wire s; produced := produced s; discarded := discarded s; units := units s; infl := infl s; wsc := wsc s; closing := closing s; popped := popped s; cut := cut s |}.
Definition set_dlock (s : shared) v := {| requests := requests s; pst := pst s; sent_continue := sent_continue s; will_close := will_close s; cwf := cwf s; connected := connected s; total := total s; obs := obs s; cnt := cnt s; rlock := rlock s; olock := olock s; dlock := v; queue := queue s; qwait := qwait s; qnotified := qnotified s; nxt := nxt s; arrivals := arrivals s; starts := starts s; execs := execs s; wire := wire s; produced := produced s; discarded := discarded s; units := units s; infl := infl s; wsc := wsc s; closing := closing s; popped := popped s; cut := cut s |}.
Definition set_queue (s : shared) v := {| requests := requests s; pst := pst s; sent_continue := sent_continue s; will_close := will_close s; cwf := cwf s; connected := connected s; total := total s; obs := obs s; cnt := cnt s; rlock := rlock s; olock := olock s; dlock := dlock s; queue := v; qwait := qwait s; qnotified := qnotified s; nxt := nxt s; arrivals := arrivals s; starts := starts s; execs := execs s; wire := wire s; produced := produced s; discarded := discarded s; units := units s; infl := infl s; wsc := wsc s; closing := closing s; popped := popped s; cut := cut s |}.
Definition set_qw (s : shared) v n := {| requests := requests s; pst := pst s; sent_continue := sent_continue s; will_close := will_close s; cwf := cwf s; connected := connected s; total := total s; obs := obs s; cnt := cnt s; rlock := rlock s; olock := olock s; dlock := dlock s; queue := queue s; qwait := v; qnotified := n; nxt := nxt s; arrivals := arrivals s; starts := starts s; execs := execs s; wire := wire s; produced := produced s; discarded := discarded s; units := units s; infl := infl s; wsc := wsc s; closing := closing s; popped := popped s; cut := cut s |}.
Definition set_nxt (s : shared) v := {| requests := requests s; pst := pst s; sent_continue := sent_continue s; will_close := will_close s; cwf := cwf s; connected := connected s; total := total s; obs := obs s; cnt := cnt s; rlock := rlock s; olock := olock s; dlock := dlock s; queue := queue s; qwait := qwait s; qnotified := qnotified s; nxt := v; arrivals := arrivals s; starts := starts s; execs := execs s; wire := wire s; produced := produced s; discarded := discarded s; units := units s; infl := infl s; wsc := wsc s; closing := closing s; popped := popped s; cut := cut s |}.
Definition set_arrivals (s : shared) v := {| requests := requests s; pst := pst s; sent_continue := sent_continue s; will_close := will_close s; cwf := cwf s; connected := connected s; total := total s; obs := obs s; cnt := cnt s; rlock := rlock s; olock := olock s; dlock := dlock s; queue := queue s; qwait := qwait s; qnotified := qnotified s; nxt := nxt s; arrivals := v; starts := starts s; execs := execs s; wire := wire s; produced := produced s; discarded := discarded s; units := units s; infl := infl s; wsc := wsc s; closing := closing s; popped := popped s; cut := cut s |}.
Definition set_starts (s : shared) v := {| requests := requests s; pst := pst s; sent_continue := sent_continue s; will_close := will_close s; cwf := cwf s; connected := connected s; total := total s; obs := obs s; cnt := cnt s; rlock := rlock s; olock := olock s; dlock := dlock s; queue := queue s; qwait := qwait s; qnotified := qnotified s; nxt := nxt s; arrivals := arrivals s; starts := v; execs := execs s; wire := wire s; produced := produced s; discarded := discarded s; units := units s; infl := infl s; wsc := wsc s; closing := closing s; popped := popped s; cut := cut s |}.
Definition set_execs (s : shared) v := {| requests := requests s; pst := pst s; sent_continue := sent_continue s; will_close := will_close s; cwf := cwf s; connected := connected s; total := total s; obs := obs s; cnt := cnt s; rlock := rlock s; olock := olock s; dlock := dlock s; queue := queue s; qwait := qwait s; qnotified := qnotified s; nxt := nxt s; arrivals := arrivals s; starts := starts s; execs := v; wire := wire s; produced := produced s; discarded := discarded s; units := units s; infl := infl s; wsc := wsc s; closing := closing s; popped := popped s; cut := cut s |}.
Definition set_wire (s : shared) v i := {| requests := requests s; pst := pst s; sent_continue := sent_continue s; will_close := will_close s; cwf := cwf s; connected := connected s; total := total s; obs := obs s; cnt := cnt s; rlock := rlock s; olock := olock s; dlock := dlock s; queue := queue s; qwait := qwait s; qnotified := qnotified s; nxt := nxt s; arrivals := arrivals s; starts := starts s; execs := execs s; wire := v; produced := produced s; discarded := discarded s; units := units s; infl := i; wsc := wsc s; closing := closing s; popped := popped s; cut := cut s |}.
Definition set_infl (s : shared) i := {| requests := requests s; pst := pst s; sent_continue := sent_continue s; will_close := will_close s; cwf := cwf s; connected := connected s; total := total s; obs := obs s; cnt := cnt s; rlock := rlock s; olock := olock s; dlock := dlock s; queue := queue s; qwait := qwait s; qnotified := qnotified s; nxt := nxt s; arrivals := arrivals s; starts := starts s; execs := execs s; wire := wire s; produced := produced s; discarded := discarded s; units := units s; infl := i; wsc := wsc s; closing := closing s; popped := popped s; cut := cut s |}.
Definition set_prod (s : shared) p u := {| requests := requests s; pst := pst s; sent_continue := sent_continue s; will_close := will_close s; cwf := cwf s; connected := connected s; total := total s; obs := obs s; cnt := cnt s; rlock := rlock s; olock := olock s; dlock := dlock s; queue := queue s; qwait := qwait s; qnotified := qnotified s; nxt := nxt s; arrivals := arrivals s; starts := starts s; execs := execs s; wire := wire s; produced := p; discarded := discarded s; units := u; infl := infl s; wsc := wsc s; closing := closing s; popped := popped s; cut := cut s |}.
Definition set_discarded (s : shared) v := {| requests := requests s; pst := pst s; sent_continue := sent_continue s; will_close := will_close s; cwf := cwf s; connected := connected s; total := total s; obs := obs s; cnt := cnt s; rlock := rlock s; olock := olock s; dlock := dlock s; queue := queue s; qwait := qwait s; qnotified := qnotified s; nxt := nxt s; arrivals := arrivals s; starts := starts s; execs := execs s; wire := wire s; produced := produced s; discarded := v; units := units s; infl := infl s; wsc := wsc s; closing := closing s; popped := popped s; cut := cut s |}.
Definition set_wsc (s : shared) v := {| requests := requests s; pst := pst s; sent_continue := sent_continue s; will_close := will_close s; cwf := cwf s; connected := connected s; total := total s; obs := obs s; cnt := cnt s; rlock := rlock s; olock := olock s; dlock := dlock s; queue := queue s; qwait := qwait s; qnotified := qnotified s; nxt := nxt s; arrivals := arrivals s; starts := starts s; execs := execs s; wire := wire s; produced := produced s; discarded := discarded s; units := units s; infl := infl s; wsc := v; closing := closing s; popped := popped s; cut := cut s |}.
Definition set_closing (s : shared) v := {| requests := requests s; pst := pst s; sent_continue := sent_continue s; will_close := will_close s; cwf := cwf s; connected := connected s; total := total s; obs := obs s; cnt := cnt s; rlock := rlock s; olock := olock s; dlock := dlock s; queue := queue s; qwait := qwait s; qnotified := qnotified s; nxt := nxt s; arrivals := arrivals s; starts := starts s; execs := execs s; wire := wire s; produced := produced s; discarded := discarded s; units := units s; infl := infl s; wsc := wsc s; closing := v; popped := popped s; cut := cut s |}.
Definition set_popped (s : shared) v := {| requests := requests s; pst := pst s; sent_continue := sent_continue s; will_close := will_close s; cwf := cwf s; connected := connected s; total := total s; obs := obs s; cnt := cnt s; rlock := rlock s; olock := olock s; dlock := dlock s; queue := queue s; qwait := qwait s; qnotified := qnotified s; nxt := nxt s; arrivals := arrivals s; starts := starts s; execs := execs s; wire := wire s; produced := produced s; discarded := discarded s; units := units s; infl := infl s; wsc := wsc s; closing := closing s; popped := v; cut := cut s |}.
Definition set_cut (s : shared) v := {| requests := requests s; pst := pst s; sent_continue := sent_continue s; will_close := will_close s; cwf := cwf s; connected := connected s; total := total s; obs := obs s; cnt := cnt s; rlock := rlock s; olock := olock s; dlock := dlock s; queue := queue s; qwait := qwait s; qnotified := qnotified s; nxt := nxt s; arrivals := arrivals s; starts := starts s; execs := execs s; wire := wire s; produced := produced s; discarded := discarded s; units := units s; infl := infl s; wsc := wsc s; closing := closing s; popped := popped s; cut := v |}.

Definition set_ipc (i : iost) v := {| ipc := v; i_r := i_r i; i_w := i_w i; i_ws := i_ws i; i_items := i_items i; i_cur := i_cur i; i_comp := i_comp i |}.
Definition set_wpc (w : wkst) v := {| wpc := v; w_cur := w_cur w; w_idx := w_idx w; w_off := w_off w; w_close := w_close w |}.

Definition set_lock (l : lockid) (s : shared) (v : option tid) : shared :=
  match l with Rq => set_rlock s v | Ob => set_olock s v | Dl => set_dlock s v end.
Definition get_lock (l : lockid) (s : shared) : option tid :=
  match l with Rq => rlock s | Ob => olock s | Dl => dlock s end.

(* ------------------------------------------------------- the sub-machines *)

Section Steps.
Variable P : params.

(* _flush_some *)
Inductive flres := FCont (f : flst) | FDone (flushed : bool) | FExc.

Definition fl_set (f : flst) (pc : flpc) : flst :=
  {| fpc := pc; f_olen := f_olen f; f_chunk := f_chunk f; f_n := f_n f; f_tmp := f_tmp f; f_sent := f_sent f |}.

Definition fl_step (s : shared) (f : flst) (e : env) : option (shared * flres * list label) :=
  match fpc f with
  | FlLoad =>     (* outbuf = self.outbufs[0] (IndexError on an empty list: only after two threads popped) *)
      match obs s with
      | [] => Some (s, FExc, [LR AOutbufs])
      | b :: _ =>
          let n := length b in
          let f' := {| fpc := if Nat.ltb 0 n then FlGet else FlLen; f_olen := n; f_chunk := f_chunk f;
                       f_n := f_n f; f_tmp := f_tmp f; f_sent := f_sent f |} in
          Some (s, FCont f', [LR AOutbufs])
      end
  | FlGet =>     (* chunk = outbuf.get(self.sendbuf_len): a snapshot of the head of the first buffer *)
      let f' := {| fpc := FlSend; f_olen := f_olen f; f_chunk := hd [] (obs s);
                   f_n := f_n f; f_tmp := f_tmp f; f_sent := f_sent f |} in
      Some (s, FCont f', [])
  | FlSend =>    (* ESend len n: get() returned the first len bytes of the snapshot, send() accepted n of them *)
      match e with
      | ESend len n =>
          if (Nat.leb n len && Nat.leb len (length (f_chunk f))
              && (Nat.ltb 0 len || Nat.eqb (length (f_chunk f)) 0))%bool then
            let s' := set_wire s (wire s ++ firstn n (f_chunk f)) (infl s + n) in
            if Nat.eqb n 0 then Some (s', FDone (f_sent f), [LSend len n])
            else Some (s', FCont {| fpc := FlSkip; f_olen := f_olen f; f_chunk := f_chunk f; f_n := n;
                                    f_tmp := f_tmp f; f_sent := f_sent f |},
                       [LSend len n])
          else None
      | _ => None
      end
  | FlSkip =>
      let b := hd [] (obs s) in
      if Nat.ltb (length b) (f_n f) then Some (set_infl s (infl s - f_n f), FExc, [])
      else Some (set_infl (set_obs s (set_hd (obs s) (skipn (f_n f) b))) (infl s - f_n f),
                 FCont {| fpc := FlTotR; f_olen := f_olen f - f_n f; f_chunk := f_chunk f; f_n := f_n f;
                          f_tmp := f_tmp f; f_sent := true |}, [])
  | FlTotR =>
      Some (s, FCont {| fpc := FlTotW; f_olen := f_olen f; f_chunk := f_chunk f; f_n := f_n f;
                        f_tmp := total s; f_sent := f_sent f |}, [LR ATotal])
  | FlTotW =>
      Some (set_total s (f_tmp f - Z.of_nat (f_n f))%Z,
            FCont (fl_set f (if Nat.ltb 0 (f_olen f) then FlGet else FlLen)), [LW ATotal])
  | FlLen =>
      if Nat.ltb 1 (length (obs s)) then Some (s, FCont (fl_set f FlPop), [LR AOutbufs])
      else Some (s, FDone (f_sent f), [LR AOutbufs])
  | FlPop =>
      match obs s with
      | [] => Some (s, FExc, [LR AOutbufs])
      | _ :: r => Some (set_obs s r, FCont (fl_set f FlLoad), [LR AOutbufs])
      end
  end.

(* send_continue(); the caller has tested the condition and cleared expect_continue *)
Inductive scres := SCont (c : scpc) | SDone.

Definition pst_id (s : shared) : nat := match pst s with Some (id, _, _) => id | None => 0 end.

Definition sc_step (t : tid) (s : shared) (c : scpc) (e : env) : option (shared * scres * list label) :=
  match c with
  | ScAcq => if free (olock s) then Some (set_olock s (Some t), SCont ScApp, [LAcq Ob]) else None
  | ScApp =>
      let id := pst_id s in
      let s1 := set_obs s (app_last (obs s) (cont_toks P id)) in
      let s2 := set_prod s1 (produced s ++ cont_toks P id) (units s ++ [UCont id]) in
      Some (set_cnt s2 (cnt_add (cnt s)), SCont ScTotR, [LR AOutbufs])
  | ScTotR => Some (s, SCont (ScTotW (total s)), [LR ATotal])
  | ScTotW tmp =>
      Some (set_sent_continue (set_total s (tmp + Z.of_nat (p_clen P))%Z) true, SCont (ScFl fl0), [LW ATotal])
  | ScFl f =>
      match fl_step s f e with
      | Some (s', FCont f', l) => Some (s', SCont (ScFl f'), l)
      | Some (s', FDone _, l) => Some (s', SCont ScRel, l)
      | Some (s', FExc, l) => Some (s', SCont ScExcW, l)   (* caught by _flush_exception (48f7fa0) *)
      | None => None
      end
  | ScExcW => Some (set_will_close s true, SCont ScRel, [LW AWillClose])
  | ScRel => Some (set_olock s None, SDone, [LRel Ob])
  end.

(* entering send_continue: self.request.expect_continue = False *)
Definition sc_enter (s : shared) : shared :=
  match pst s with
  | Some (id, _, hf) => set_pst s (Some (id, false, hf))
  | None => s
  end.

(* server.add_task(self) -> ThreadedTaskDispatcher.add_task *)
Definition at_step (t : tid) (s : shared) (a : atpc) : option (shared * option atpc * list label) :=
  match a with
  | AtAcq => if free (dlock s) then Some (set_queue (set_dlock s (Some t)) (S (queue s)), Some AtNotify, [LAcq Dl]) else None
  | AtNotify =>
      match qwait s with
      | [] => Some (s, Some AtRel, [LNotify Dl])
      | w :: r => Some (set_qw s r (qnotified s ++ [w]), Some AtRel, [LNotify Dl])
      end
  | AtRel => Some (set_dlock s None, None, [LRel Dl])
  end.

(* ------------------------------------------------------------- I/O thread *)

Definition io_after_read (i : iost) : iopc := if i_ws i then IoHwConn else IoRd1.

Definition pst_ec (s : shared) : bool := match pst s with Some (_, ec, _) => ec | None => false end.

Definition io_step (s : shared) (i : iost) (e : env) : option (shared * iost * list label) :=
  let goto pc := set_ipc i pc in
  match ipc i with
  (* readable() *)
  | IoRd1 => Some (s, if will_close s then {| ipc := IoWr1; i_r := false; i_w := i_w i; i_ws := i_ws i; i_items := i_items i; i_cur := i_cur i; i_comp := i_comp i |} else goto IoRd2, [LR AWillClose])
  | IoRd2 => Some (s, if cwf s then {| ipc := IoWr1; i_r := false; i_w := i_w i; i_ws := i_ws i; i_items := i_items i; i_cur := i_cur i; i_comp := i_comp i |} else goto IoRd3, [LR ACwf])
  | IoRd3 => Some (s, if Nat.ltb (p_look P) (length (requests s)) then {| ipc := IoWr1; i_r := false; i_w := i_w i; i_ws := i_ws i; i_items := i_items i; i_cur := i_cur i; i_comp := i_comp i |} else goto IoRd4, [LR ARequests])
  | IoRd4 => Some (s, {| ipc := IoWr1; i_r := Z.eqb (total s) 0; i_w := i_w i; i_ws := i_ws i; i_items := i_items i; i_cur := i_cur i; i_comp := i_comp i |}, [LR ATotal])
  (* writable() *)
  | IoWr1 => Some (s, if Z.ltb 0 (total s) then {| ipc := IoSel; i_r := i_r i; i_w := true; i_ws := i_ws i; i_items := i_items i; i_cur := i_cur i; i_comp := i_comp i |} else goto IoWr2, [LR ATotal])
  | IoWr2 => Some (s, if will_close s then {| ipc := IoSel; i_r := i_r i; i_w := true; i_ws := i_ws i; i_items := i_items i; i_cur := i_cur i; i_comp := i_comp i |} else goto IoWr3, [LR AWillClose])
  | IoWr3 => Some (s, {| ipc := IoSel; i_r := i_r i; i_w := cwf s; i_ws := i_ws i; i_items := i_items i; i_cur := i_cur i; i_comp := i_comp i |}, [LR ACwf])
  | IoSel =>
      match e with
      | ESel rs ws =>
          if (implb rs (i_r i) && implb ws (i_w i))%bool then
            Some (s, {| ipc := if rs then IoHrConn else if ws then IoHwConn else IoRd1;
                        i_r := i_r i; i_w := i_w i; i_ws := ws; i_items := i_items i; i_cur := i_cur i; i_comp := i_comp i |}, [LSelect])
          else None
      | _ => None
      end
  (* handle_read_event / handle_read *)
  | IoHrConn => Some (s, goto IoRecv, [LR AConnected])
  | IoRecv =>
      match e with
      | EEof => Some (s, goto (IoHc HcAcq true), [LRecv])
      | ERecv k frag =>
          let avail := skipn (nxt s) (stream P) in
          let m := if frag then S k else k in
          if (Nat.ltb 0 m && Nat.leb m (length avail))%bool then
            let its := map Whole (firstn k avail) ++ (if frag then map Piece (firstn 1 (skipn k avail)) else []) in
            Some (set_nxt s (nxt s + k),
                  {| ipc := IoRcAcq; i_r := i_r i; i_w := i_w i; i_ws := i_ws i; i_items := its; i_cur := i_cur i; i_comp := false |}, [LRecv])
          else None
      | _ => None
      end
  | IoHrWConn => Some (set_connected s false, goto IoDead, [LW AConnected])
  (* received() *)
  | IoRcAcq => if free (rlock s) then Some (set_rlock s (Some TIo), goto IoRcWc, [LAcq Rq]) else None
  | IoRcWc => Some (s, goto (if will_close s then IoRcRel else IoRcCwf), [LR AWillClose])
  | IoRcCwf => Some (s, goto (if cwf s then IoRcRel else IoRcItem), [LR ACwf])
  | IoRcItem =>
      match i_items i with
      | [] => Some (s, goto IoRcRel, [])
      | it :: rest =>
          let mk pc cur comp := {| ipc := pc; i_r := i_r i; i_w := i_w i; i_ws := i_ws i; i_items := rest; i_cur := cur; i_comp := comp |} in
          match it with
          | Piece (IFull id) | Piece (IHead id) | Piece (IFullX id) => Some (set_pst s (Some (id, false, false)), mk IoRcItem id false, [])
          | Piece (IRest id) => Some (s, mk (if pst_ec s then IoRcChk else IoRcItem) id false, [])
          | Whole (IFull id) => Some (set_pst s (Some (id, false, true)), mk IoRcApp id true, [])
          | Whole (IHead id) => Some (set_pst s (Some (id, true, true)), mk IoRcChk id false, [])
          | Whole (IFullX id) => Some (set_pst s (Some (id, true, true)), mk IoRcChk id true, [])
          | Whole (IRest id) => Some (set_pst s (Some (id, pst_ec s, true)), mk (if pst_ec s then IoRcChk else IoRcApp) id true, [])
          end
      end
  | IoRcChk =>
      if (match requests s with [] => true | _ => false end && negb (sent_continue s))%bool
      then Some (sc_enter s, goto (IoRcSc ScAcq), [LR ARequests])
      else Some (s, goto (if i_comp i then IoRcApp else IoRcItem), [LR ARequests])
  | IoRcSc c =>
      match sc_step TIo s c e with
      | Some (s', SCont c', l) => Some (s', goto (IoRcSc c'), l)
      | Some (s', SDone, l) => Some (s', goto (if i_comp i then IoRcApp else IoRcItem), l)
      | None => None
      end
  | IoRcApp => Some (set_sent_continue s false, goto IoRcApp2, [LR ARequests])
  | IoRcApp2 =>   (* self.requests.append(self.request): the list is mutated after the argument has been loaded *)
      Some (set_arrivals (set_requests s (requests s ++ [i_cur i])) (arrivals s ++ [i_cur i]),
            goto IoRcLen, [LR ARequest])
  | IoRcLen =>
      if Nat.eqb (length (requests s)) 1 then Some (s, goto (IoRcAt AtAcq), [LR ARequests])
      else Some (set_pst s None, goto IoRcItem, [LR ARequests])
  | IoRcAt a =>
      match at_step TIo s a with
      | Some (s', Some a', l) => Some (s', goto (IoRcAt a'), l)
      | Some (s', None, l) => Some (set_pst s' None, goto IoRcItem, l)
      | None => None
      end
  | IoRcRel => Some (set_rlock s None, goto (io_after_read i), [LRel Rq])
  (* handle_write_event / handle_write *)
  | IoHwConn => Some (s, goto IoHwReq, [LR AConnected])
  | IoHwReq => Some (s, goto (match requests s with
                              | [] => if p_unlocked P then IoHwFlU fl0 else IoHwTry
                              | _ => IoHwTot end), [LR ARequests])
  | IoHwFlU f =>
      match fl_step s f e with
      | Some (s', FCont f', l) => Some (s', goto (IoHwFlU f'), l)
      | Some (s', FDone _, l) => Some (s', goto IoHwCwf, l)
      | Some (s', FExc, l) => Some (s', goto IoHwExcW, l)
      | None => None
      end
  | IoHwTot => Some (s, goto (if Z.leb (p_sb P) (total s) then IoHwTry else IoHwTotH), [LR ATotal])
  | IoHwTotH => Some (s, goto IoHwCwf, [LR ATotal])   (* `or total > outbuf_high_watermark` (daf1a85): never, see the assumptions *)
  | IoHwTry =>
      if free (olock s) then Some (set_olock s (Some TIo), goto (IoHwFlL fl0), [LTry Ob true])
      else Some (s, goto IoHwCwf, [LTry Ob false])
  | IoHwFlL f =>
      match fl_step s f e with
      | Some (s', FCont f', l) => Some (s', goto (IoHwFlL f'), l)
      | Some (s', FDone _, l) => Some (s', goto IoHwNTot, l)
      | Some (s', FExc, l) => Some (s', goto IoHwRelX, l)
      | None => None
      end
  | IoHwNTot => Some (s, goto IoHwNotify, [LR ATotal])
  | IoHwNotify => Some (s, goto IoHwRel, [LNotify Ob])
  | IoHwRel => Some (set_olock s None, goto IoHwCwf, [LRel Ob])
  | IoHwRelX => Some (set_olock s None, goto IoHwExcW, [LRel Ob])
  | IoHwExcW => Some (set_will_close s true, goto IoHwCwf, [LW AWillClose])
  | IoHwCwf => Some (s, goto (if cwf s then IoHwTot2 else IoHwWc), [LR ACwf])
  | IoHwTot2 => Some (s, goto (if Z.eqb (total s) 0 then IoHwWCwf else IoHwWc), [LR ATotal])
  | IoHwWCwf => Some (set_cwf s false, goto IoHwWWc, [LW ACwf])
  | IoHwWWc => Some (set_will_close s true, goto IoHwWc, [LW AWillClose])
  | IoHwWc => Some (s, goto (if will_close s then IoHc HcAcq false else IoRd1), [LR AWillClose])
  (* handle_close() *)
  | IoHc h eof =>
      match h with
      | HcAcq => if free (olock s) then Some (set_olock s (Some TIo), goto (IoHc HcBufs eof), [LAcq Ob]) else None
      | HcBufs => Some (set_cut (set_discarded (set_obs s (map (fun _ => []) (obs s))) (skipn (infl s) (concat (obs s)) ++ discarded s)) (length (wire s)),
                        goto (IoHc HcTot eof), [LR AOutbufs])
      | HcTot => Some (set_total s 0%Z, goto (IoHc HcConn eof), [LW ATotal])
      | HcConn => Some (set_connected s false, goto (IoHc HcNotify eof), [LW AConnected])
      | HcNotify => Some (s, goto (IoHc HcRel eof), [LNotify Ob])
      | HcRel => Some (set_olock s None, goto (IoHc HcConn2 eof), [LRel Ob])
      | HcConn2 => Some (set_connected s false, goto (if eof then IoHrWConn else IoDead), [LW AConnected])
      end
  | IoDead =>     (* the channel has left the socket map; the loop goes on polling the trigger *)
      match e with ESel false false => Some (s, i, [LSelect]) | _ => None end
  end.

(* ---------------------------------------------------------------- workers *)

Definition nwrites (w : wkst) : nat := length (r_writes (desc P (w_cur w))).
Definition wsize (w : wkst) : nat := nth (w_idx w) (r_writes (desc P (w_cur w))) 0.

(* after a write_soon call returned (or at the start of the task): the next
   call, or the end of task.service() *)
Definition wk_next_write (w : wkst) (idx : nat) (off : nat) : wkst :=
  if Nat.ltb idx (length (r_writes (desc P (w_cur w))))
  then {| wpc := WWsConn; w_cur := w_cur w; w_idx := idx; w_off := off; w_close := w_close w |}
  else let cl := r_close (desc P (w_cur w)) in
       {| wpc := if cl then WCbAcq else WKbLen; w_cur := w_cur w; w_idx := idx; w_off := off; w_close := cl |}.

Definition wk_step (me : nat) (s : shared) (w : wkst) (e : env) : option (shared * wkst * list label) :=
  let t := TW me in
  let goto pc := set_wpc w pc in
  match wpc w with
  (* handler_thread *)
  | WAcqD =>
      if free (dlock s) then
        match queue s with
        | 0 => Some (set_dlock s (Some t), goto WWait, [LAcq Dl])
        | S q => Some (set_queue (set_dlock s (Some t)) q, goto WRelD, [LAcq Dl])
        end
      else None
  | WWait => Some (set_qw (set_dlock s None) (qwait s ++ [me]) (qnotified s), goto WParked, [LWait])
  | WParked =>
      if (existsb (Nat.eqb me) (qnotified s) && free (dlock s))%bool then
        let s1 := set_qw (set_dlock s (Some t)) (qwait s) (filter (fun j => negb (Nat.eqb me j)) (qnotified s)) in
        match queue s with
        | 0 => Some (s1, goto WWait, [LWake])
        | S q => Some (set_queue s1 q, goto WRelD, [LWake])
        end
      else None
  | WRelD => Some (set_dlock s None, goto WSvReq, [LRel Dl])
  (* service() *)
  | WSvReq =>
      match requests s with
      | [] => Some (s, goto WAcqD, [LR ARequests])      (* IndexError escapes service(), caught by handler_thread *)
      | id :: _ => Some (set_starts s (starts s ++ [id]),
                         {| wpc := WSvConn; w_cur := id; w_idx := 0; w_off := 0; w_close := false |}, [LR ARequests])
      end
  | WSvConn =>    (* `if self.connected and not self.will_close:` (64d926d) *)
      if connected s then Some (s, goto WSvWc, [LR AConnected])
      else Some (s, {| wpc := WCbAcq; w_cur := w_cur w; w_idx := 0; w_off := 0; w_close := true |}, [LR AConnected])
  | WSvWc =>
      if will_close s then Some (s, {| wpc := WCbAcq; w_cur := w_cur w; w_idx := 0; w_off := 0; w_close := true |}, [LR AWillClose])
      else
        Some (set_prod (set_execs s (execs s ++ [w_cur w])) (produced s) (units s ++ [UResp (w_cur w) 0]),
              wk_next_write w 0 0, [LR AWillClose])
  (* write_soon(data), data = the w_idx-th write of the task *)
  | WWsConn => Some (s, if connected s then goto WWsAcq else {| wpc := WCbAcq; w_cur := w_cur w; w_idx := w_idx w; w_off := w_off w; w_close := true |}, [LR AConnected])
  | WWsAcq => if free (olock s) then Some (set_olock s (Some t), goto WWsHw, [LAcq Ob]) else None
  | WWsHw => Some (s, goto WWsConn2, [LR ATotal])
  | WWsConn2 =>
      Some (s, goto (if connected s then (match cnt s with CHw => WWsRot | _ => WWsApp end) else WWsRelX), [LR AConnected])
  | WWsRelX => Some (set_olock s None, {| wpc := WCbAcq; w_cur := w_cur w; w_idx := w_idx w; w_off := w_off w; w_close := true |}, [LRel Ob])
  | WWsRot => Some (set_cnt (set_obs s (obs s ++ [[]])) CZero, goto WWsApp, [LR AOutbufs])
  | WWsApp =>
      let m := wsize w in
      let tk := resp_toks (w_cur w) (w_off w) m in
      let s1 := set_obs s (app_last (obs s) tk) in
      let s2 := set_prod s1 (produced s ++ tk) (bump (w_cur w) m (units s)) in
      Some (set_cnt s2 (cnt_add (cnt s)), goto WWsTotR, [LR AOutbufs])
  | WWsTotR => Some (s, goto (WWsTotW (total s)), [LR ATotal])
  | WWsTotW tmp => Some (set_total s (tmp + Z.of_nat (wsize w))%Z, goto WWsChk, [LW ATotal])
  | WWsChk => Some (s, goto (if Z.leb (p_sb P) (total s) then WWsFl fl0 else WWsRel), [LR ATotal])
  | WWsFl f =>
      match fl_step s f e with
      | Some (s', FCont f', l) => Some (s', goto (WWsFl f'), l)
      | Some (s', FDone true, l) => Some (s', goto WWsChk2, l)
      | Some (s', FDone false, l) => Some (s', goto WWsTrig, l)
      | Some (s', FExc, l) => Some (s', goto WWsExcW, l)
      | None => None
      end
  | WWsExcW => Some (set_will_close s true, goto WWsTrig, [LW AWillClose])
  | WWsChk2 => Some (s, goto (if Z.leb (p_sb P) (total s) then WWsTrig else WWsRel), [LR ATotal])
  | WWsTrig => Some (s, goto WWsRel, [LTrig])
  | WWsRel => Some (set_olock s None, wk_next_write w (S (w_idx w)) (w_off w + wsize w), [LRel Ob])
  (* close branch *)
  | WCbAcq => if free (rlock s) then Some (set_rlock s (Some t), goto WCbCwf, [LAcq Rq]) else None
  | WCbCwf => Some (set_closing (set_cwf s true) true, goto WCbReq, [LW ACwf])
  | WCbReq => Some (s, goto WCbClr, [LR ARequests])
  | WCbClr => Some (set_requests s [], goto WCbRel, [LW ARequests])
  | WCbRel => Some (set_rlock s None, goto WTlConn, [LRel Rq])
  (* keep branch *)
  | WKbLen =>
      let s' := set_cnt s (match cnt s with CZero => CZero | _ => CHw end) in
      if Nat.ltb 1 (length (requests s)) then Some (s, goto WKbHw, [LR ARequests])
      else Some (s', goto WKbAcq, [LR ARequests])
  | WKbHw => Some (set_cnt s (match cnt s with CZero => CZero | _ => CHw end), goto WKbAcq, [LR ATotal])
  | WKbAcq => if free (rlock s) then Some (set_rlock s (Some t), goto WKbPop, [LAcq Rq]) else None
  | WKbPop => Some (set_popped (set_requests s (tl (requests s))) (popped s ++ firstn 1 (requests s)), goto WKbConn, [LR ARequests])
  | WKbConn => Some (s, goto (if connected s then WKbReq else WKbConn2), [LR AConnected])
  | WKbReq => Some (s, goto (match requests s with [] => WKbConn2 | _ => WKbAt AtAcq end), [LR ARequests])
  | WKbAt a =>
      match at_step t s a with
      | Some (s', Some a', l) => Some (s', goto (WKbAt a'), l)
      | Some (s', None, l) => Some (s', goto WKbRel, l)
      | None => None
      end
  | WKbConn2 =>
      if connected s then
        match pst s with
        | Some (_, true, true) =>
            if sent_continue s then Some (s, goto WKbRel, [LR AConnected])
            else Some (set_wsc (sc_enter s) true, goto (WKbSc ScAcq), [LR AConnected])
        | _ => Some (s, goto WKbRel, [LR AConnected])
        end
      else Some (s, goto WKbRel, [LR AConnected])
  | WKbSc c =>
      match sc_step t s c e with
      | Some (s', SCont c', l) => Some (s', goto (WKbSc c'), l)
      | Some (s', SDone, l) => Some (s', goto WKbRel, l)
      | None => None
      end
  | WKbRel => Some (set_rlock s None, goto WTlConn, [LRel Rq])
  (* tail *)
  | WTlConn => Some (s, goto (if connected s then WTlTrig else WAcqD), [LR AConnected])
  | WTlTrig => Some (s, goto WAcqD, [LTrig])
  end.

Definition step (st : state) (c : choice) : option (state * list label) :=
  match c with
  | CIo e =>
      match io_step (sh st) (io st) e with
      | Some (s', i', l) => Some ({| sh := s'; io := i'; wk := wk st |}, l)
      | None => None
      end
  | CWk me e =>
      if Nat.ltb me (p_nw P) then
        match wk_step me (sh st) (wk st me) e with
        | Some (s', w', l) => Some ({| sh := s'; io := io st; wk := upd (wk st) me w' |}, l)
        | None => None
        end
      else None
  end.

End Steps.

(* ------------------------------------------------------------------- init *)

Definition sh0 : shared := {|
  requests := []; pst := None; sent_continue := false; will_close := false; cwf := false; connected := true;
  total := 0%Z; obs := [[]]; cnt := CZero; rlock := None; olock := None; dlock := None;
  queue := 0; qwait := []; qnotified := []; nxt := 0;
  arrivals := []; starts := []; execs := []; wire := []; produced := []; discarded := []; units := [];
  infl := 0; wsc := false; closing := false; popped := []; cut := 0 |}.
Definition io0 : iost := {| ipc := IoRd1; i_r := false; i_w := false; i_ws := false; i_items := []; i_cur := 0; i_comp := false |}.
Definition wk0 : wkst := {| wpc := WAcqD; w_cur := 0; w_idx := 0; w_off := 0; w_close := false |}.
Definition init : state := {| sh := sh0; io := io0; wk := fun _ => wk0 |}.

Definition exec1 (P : params) (st : state) (c : choice) : state :=
  match step P st c with Some (st', _) => st' | None => st end.
Definition run (P : params) (sched : list choice) : state := fold_left (exec1 P) sched init.

(* which steps the attribute tracer of the harness cannot see *)
Definition fl_invisible (f : flst) : bool := match fpc f with FlGet | FlSkip => true | _ => false end.
Definition sc_invisible (c : scpc) : bool := match c with ScFl f => fl_invisible f | _ => false end.
Definition io_invisible (i : iost) : bool :=
  match ipc i with
  | IoRcItem => true
  | IoRcSc c => sc_invisible c
  | IoHwFlU f | IoHwFlL f => fl_invisible f
  | _ => false
  end.
Definition wk_invisible (w : wkst) : bool :=
  match wpc w with
  | WWsFl f => fl_invisible f
  | WKbSc c => sc_invisible c
  | _ => false
  end.

(* the pending output as the client will see it *)
Definition pending (s : shared) : list tok := skipn (infl s) (concat (obs s)).

(* ------------------------------------------- executable forms of the C04 predicates
   (evaluated by the extracted runner on the states the real traces map to, and
   proved equivalent to the Prop statements in Proof/ChanPipeSpec.v) *)

Definition tok_eqb (a b : tok) : bool :=
  match a, b with
  | TResp i k, TResp j l => (Nat.eqb i j && Nat.eqb k l)%bool
  | TCont i k, TCont j l => (Nat.eqb i j && Nat.eqb k l)%bool
  | _, _ => false
  end.
Fixpoint toks_eqb (a b : list tok) : bool :=
  match a, b with
  | [], [] => true
  | x :: a', y :: b' => (tok_eqb x y && toks_eqb a' b')%bool
  | _, _ => false
  end.
Fixpoint nats_eqb (a b : list nat) : bool :=
  match a, b with
  | [], [] => true
  | x :: a', y :: b' => (Nat.eqb x y && nats_eqb a' b')%bool
  | _, _ => false
  end.
Fixpoint prefixb (a b : list nat) : bool :=
  match a, b with
  | [], _ => true
  | x :: a', y :: b' => (Nat.eqb x y && prefixb a' b')%bool
  | _ :: _, [] => false
  end.
Fixpoint nodupb (l : list nat) : bool :=
  match l with [] => true | x :: r => (negb (existsb (Nat.eqb x) r) && nodupb r)%bool end.

Definition resp_ids (us : list unit_) : list nat :=
  flat_map (fun u => match u with UResp id _ => [id] | UCont _ => [] end) us.

(* the workers that own the connection: between taking the channel off the
   dispatcher queue and handing it over (add_task for the next request / the
   pop that empties the queue / requests := []) *)
Definition wk_owner (pc : wkpc) : bool :=
  match pc with
  | WAcqD | WWait | WParked => false
  | WKbAt AtNotify | WKbAt AtRel | WKbRel | WCbRel | WTlConn | WTlTrig => false
  | _ => true
  end.
Fixpoint owners (n : nat) (f : nat -> wkst) : nat :=
  match n with 0 => 0 | S m => (if wk_owner (wpc (f m)) then 1 else 0) + owners m f end.

(* C04_wire: transport (nothing duplicated, lost, reordered between the buffers and
   the wire) and production (what was buffered is whole units in order) *)
Definition kept (s : shared) : list tok :=
  firstn (cut s) (produced s) ++ skipn (cut s + length (discarded s)) (produced s).
Definition transport_ok (s : shared) : bool :=
  (toks_eqb (wire s ++ pending s) (kept s) &&
   toks_eqb (discarded s) (firstn (length (discarded s)) (skipn (cut s) (produced s))))%bool.
Definition production_ok (P : params) (s : shared) : bool :=
  (toks_eqb (produced s) (flat_map (utoks P) (units s)) && nats_eqb (resp_ids (units s)) (execs s))%bool.
Definition wire_ok (P : params) (st : state) : bool := (transport_ok (sh st) && production_ok P (sh st))%bool.

(* C04_once *)
Definition once_ok (st : state) : bool :=
  let s := sh st in
  (nodupb (arrivals s) && prefixb (starts s) (arrivals s) && prefixb (execs s) (starts s))%bool.

(* C04_one_at_a_time *)
Definition one_ok (P : params) (st : state) : bool := Nat.leb (owners (p_nw P) (wk st)) 1.

(* C04_one_entry.  The I/O thread hands the connection over in two steps
   (requests.append, then add_task for the first request): in between the
   request is queued on the channel and not yet in the dispatcher. *)
Definition io_handing (i : iost) : bool :=
  match ipc i with IoRcLen | IoRcAt AtAcq => true | _ => false end.
Definition io_in_add_task (i : iost) : bool :=
  match ipc i with IoRcLen | IoRcAt _ => true | _ => false end.
Definition nonempty (l : list nat) : bool := match l with [] => false | _ => true end.

Definition entry_ok (P : params) (st : state) : bool :=
  let s := sh st in
  let o := owners (p_nw P) (wk st) in
  (Nat.leb (queue s + o) 1
   && implb (Nat.eqb (queue s) 1) (nonempty (requests s))
   && implb (connected s && nonempty (requests s) && Nat.eqb o 0 && negb (io_handing (io st))) (Nat.eqb (queue s) 1))%bool.

(* every worker parked and not notified *)
Fixpoint all_parked (n : nat) (st : state) : bool :=
  match n with
  | 0 => true
  | S m => ((match wpc (wk st m) with WParked => true | _ => false end)
            && negb (existsb (Nat.eqb m) (qnotified (sh st))) && all_parked m st)%bool
  end.
(* exactly once: when no worker can move any more, the I/O thread is not in the
   middle of submitting, and the connection is open and not closing, every
   request that arrived has been executed *)
Definition quiescent_ok (P : params) (st : state) : bool :=
  let s := sh st in
  implb (all_parked (p_nw P) st && negb (io_in_add_task (io st)) && connected s && negb (closing s))
        (negb (nonempty (requests s)) && nats_eqb (execs s) (arrivals s))%bool.
