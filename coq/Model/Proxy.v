(* Executable model of waitress/proxy_headers.py (proxy_headers_middleware,
   parse_proxy_headers, strip_brackets, clear_untrusted_headers), of
   utilities.undquote, and of the install condition in
   server.BaseWSGIServer.__init__.  A line-by-line transliteration: same
   blocks, same order of tests, same exceptions.  No proofs here.

   environ : association list  key -> value  (both latin-1 decoded text)
   results : Ok x | Malformed header   (MalformedProxyHeader -> 400 response)
                  | Exn e              (an exception escapes the middleware -> 500) *)
From Coq Require Import String.
From Coq Require Import List NArith ZArith Bool.
From WV Require Import Lib.PyBytes Lib.PyStrProxy Lib.Regex Gen.GenRegex.
Import ListNotations.
Local Open Scope N_scope.

Inductive exn := IndexError | KeyError | ValueError.

Inductive result (A : Type) :=
| Ok (a : A)
| Malformed (header : str)
| Exn (e : exn).
Arguments Ok {A} a.
Arguments Malformed {A} header.
Arguments Exn {A} e.

Definition bind {A B} (r : result A) (f : A -> result B) : result B :=
  match r with
  | Ok a => f a
  | Malformed h => Malformed h
  | Exn e => Exn e
  end.

(* try: body  except Exception: raise MalformedProxyHeader(header, ...) *)
Definition catch_all {A} (header : str) (r : result A) : result A :=
  match r with
  | Ok a => Ok a
  | Malformed h => Malformed h          (* MalformedProxyHeader is an Exception too; never raised inside a try here *)
  | Exn _ => Malformed header
  end.

Definition environ := dict str.

(* ---- literals ---------------------------------------------------------- *)
Definition k_remote_addr : str := Eval vm_compute in s2l "REMOTE_ADDR".
Definition k_remote_host : str := Eval vm_compute in s2l "REMOTE_HOST".
Definition k_remote_port : str := Eval vm_compute in s2l "REMOTE_PORT".
Definition k_server_name : str := Eval vm_compute in s2l "SERVER_NAME".
Definition k_server_port : str := Eval vm_compute in s2l "SERVER_PORT".
Definition k_http_host : str := Eval vm_compute in s2l "HTTP_HOST".
Definition k_url_scheme : str := Eval vm_compute in s2l "wsgi.url_scheme".

Definition k_xff : str := Eval vm_compute in s2l "HTTP_X_FORWARDED_FOR".
Definition k_xfh : str := Eval vm_compute in s2l "HTTP_X_FORWARDED_HOST".
Definition k_xfproto : str := Eval vm_compute in s2l "HTTP_X_FORWARDED_PROTO".
Definition k_xfport : str := Eval vm_compute in s2l "HTTP_X_FORWARDED_PORT".
Definition k_xfby : str := Eval vm_compute in s2l "HTTP_X_FORWARDED_BY".
Definition k_fwd : str := Eval vm_compute in s2l "HTTP_FORWARDED".

(* members of trusted_proxy_headers *)
Definition n_xff : str := Eval vm_compute in s2l "x-forwarded-for".
Definition n_xfh : str := Eval vm_compute in s2l "x-forwarded-host".
Definition n_xfproto : str := Eval vm_compute in s2l "x-forwarded-proto".
Definition n_xfport : str := Eval vm_compute in s2l "x-forwarded-port".
Definition n_xfby : str := Eval vm_compute in s2l "x-forwarded-by".
Definition n_fwd : str := Eval vm_compute in s2l "forwarded".

(* header names reported by MalformedProxyHeader *)
Definition h_xff : str := Eval vm_compute in s2l "X-Forwarded-For".
Definition h_xfh : str := Eval vm_compute in s2l "X-Forwarded-Host".
Definition h_xfproto : str := Eval vm_compute in s2l "X-Forwarded-Proto".
Definition h_xfport : str := Eval vm_compute in s2l "X-Forwarded-Port".
Definition h_fwd : str := Eval vm_compute in s2l "Forwarded".
Definition h_fwd_proto : str := Eval vm_compute in s2l "Forwarded Proto=".
Definition h_fwd_host : str := Eval vm_compute in s2l "Forwarded Host=".

Definition s_star : str := Eval vm_compute in s2l "*".
Definition s_http : str := Eval vm_compute in s2l "http".
Definition s_https : str := Eval vm_compute in s2l "https".
Definition s_80 : str := Eval vm_compute in s2l "80".
Definition s_443 : str := Eval vm_compute in s2l "443".
Definition s_by : str := Eval vm_compute in s2l "by".
Definition s_for : str := Eval vm_compute in s2l "for".
Definition s_host : str := Eval vm_compute in s2l "host".
Definition s_proto : str := Eval vm_compute in s2l "proto".

Definition c_dquote : N := 34.
Definition c_comma : N := 44.
Definition c_dot : N := 46.
Definition c_colon : N := 58.
Definition c_semi : N := 59.
Definition c_eq : N := 61.
Definition c_lbr : N := 91.
Definition c_rbr : N := 93.

(* ---- utilities.undquote ------------------------------------------------ *)

(* QUOTED_PAIR_RE.sub(r"\1", value): scanning from the left, every
   non-overlapping match of the two-character pattern is replaced by its
   second character (group 1).  The pattern term is the generated one. *)
Fixpoint unescape (s : str) : str :=
  match s with
  | [] => []
  | x :: t =>
    match t with
    | c :: s' => if matches p_QUOTED_PAIR_RE [x; c] then c :: unescape s' else x :: unescape t
    | [] => [x]
    end
  end.

Definition undquote (value : str) : result str :=
  if startswith value [c_dquote] && endswith value [c_dquote] then
    (* matches = QUOTED_STRING_RE.match(value); matches and matches.end() == len(value) *)
    if matches gate_quoted_string value then Ok (unescape (mid value))
    else Exn ValueError
  else if negb (startswith value [c_dquote]) && negb (endswith value [c_dquote]) then Ok value
  else Exn ValueError.

(* ---- strip_brackets ---------------------------------------------------- *)
Definition strip_brackets (addr : str) : result str :=
  match first_opt addr with
  | None => Exn IndexError                                   (* addr[0] *)
  | Some a0 =>
    if a0 =? c_lbr then
      match last_opt addr with
      | None => Exn IndexError                               (* addr[-1] *)
      | Some al => if al =? c_rbr then Ok (mid addr) else Ok addr
      end
    else Ok addr
  end.

(* ---- the set untrusted_headers (subsets of PROXY_HEADERS) --------------- *)
Record uset := { u_for : bool; u_host : bool; u_proto : bool; u_port : bool; u_by : bool; u_fwd : bool }.
Definition u_all : uset := {| u_for := true; u_host := true; u_proto := true; u_port := true; u_by := true; u_fwd := true |}.
Definition u_all_but_fwd : uset := {| u_for := true; u_host := true; u_proto := true; u_port := true; u_by := true; u_fwd := false |}.

(* set.remove(x): KeyError when x is not a member *)
Definition rm_for (u : uset) : result uset :=
  if u_for u then Ok {| u_for := false; u_host := u_host u; u_proto := u_proto u; u_port := u_port u; u_by := u_by u; u_fwd := u_fwd u |} else Exn KeyError.
Definition rm_host (u : uset) : result uset :=
  if u_host u then Ok {| u_for := u_for u; u_host := false; u_proto := u_proto u; u_port := u_port u; u_by := u_by u; u_fwd := u_fwd u |} else Exn KeyError.
Definition rm_proto (u : uset) : result uset :=
  if u_proto u then Ok {| u_for := u_for u; u_host := u_host u; u_proto := false; u_port := u_port u; u_by := u_by u; u_fwd := u_fwd u |} else Exn KeyError.
Definition rm_port (u : uset) : result uset :=
  if u_port u then Ok {| u_for := u_for u; u_host := u_host u; u_proto := u_proto u; u_port := false; u_by := u_by u; u_fwd := u_fwd u |} else Exn KeyError.
Definition rm_by (u : uset) : result uset :=
  if u_by u then Ok {| u_for := u_for u; u_host := u_host u; u_proto := u_proto u; u_port := u_port u; u_by := false; u_fwd := u_fwd u |} else Exn KeyError.

(* ---- trusted_proxy_headers: a set of str -------------------------------- *)
Definition has (tph : list str) (name : str) : bool := existsb (beqb name) tph.

(* ---- local variables of parse_proxy_headers ---------------------------- *)
Record pst := {
  env : environ;
  client : option str;      (* client_addr: None or a str *)
  fhost : str;              (* forwarded_host *)
  fproto : str;             (* forwarded_proto *)
  fport : str;              (* forwarded_port *)
  fwd : option str;         (* forwarded: "" initially, then environ.get("HTTP_FORWARDED", None) *)
  unt : uset                (* untrusted_headers *)
}.

Definition opt_truthy (o : option str) : bool := match o with Some s => truthy s | None => false end.

Fixpoint mapM {A B} (f : A -> result B) (l : list A) : result (list B) :=
  match l with
  | [] => Ok []
  | x :: l' => bind (f x) (fun y => bind (mapM f l') (fun ys => Ok (y :: ys)))
  end.

(* body of the loop over raw_forwarded_for *)
Definition xff_hop (forward_hop : str) : result str :=
  let forward_hop := strip forward_hop in
  bind (undquote forward_hop) (fun forward_hop =>
  if negb (has_char c_dot forward_hop) && has_char c_colon forward_hop then
    match last_opt forward_hop with
    | None => Exn IndexError
    | Some l => if negb (l =? c_rbr) then Ok ([c_lbr] ++ forward_hop ++ [c_rbr]) else Ok forward_hop
    end
  else Ok forward_hop).

(* forwarded_for[0] / forwarded_host_multiple[0] *)
Definition index0 (l : list str) : result str :=
  match l with [] => Exn IndexError | x :: _ => Ok x end.

(* if "x-forwarded-for" in trusted_proxy_headers and "HTTP_X_FORWARDED_FOR" in environ: *)
Definition blk_xff (k : Z) (tph : list str) (s : pst) : result pst :=
  if has tph n_xff then
    match lookup k_xff (env s) with
    | Some value =>
      catch_all h_xff (
        let raw_forwarded_for := split value [c_comma] in
        bind (mapM xff_hop raw_forwarded_for) (fun forwarded_for =>
        let forwarded_for := py_lastk forwarded_for k in
        bind (index0 forwarded_for) (fun client_addr =>
        bind (rm_for (unt s)) (fun u =>
        Ok {| env := set k_xff (strip (join [c_comma] (py_lastk raw_forwarded_for k))) (env s);
              client := Some client_addr;
              fhost := fhost s; fproto := fproto s; fport := fport s; fwd := fwd s; unt := u |}))))
    | None => Ok s
    end
  else Ok s.

Definition xfh_hop (forward_host : str) : result str :=
  undquote (strip forward_host).

Definition blk_xfh (k : Z) (tph : list str) (s : pst) : result pst :=
  if has tph n_xfh then
    match lookup k_xfh (env s) with
    | Some value =>
      catch_all h_xfh (
        let raw_forwarded_host := split value [c_comma] in
        bind (mapM xfh_hop raw_forwarded_host) (fun multiple =>
        let multiple := py_lastk multiple k in
        bind (index0 multiple) (fun forwarded_host =>
        bind (rm_host (unt s)) (fun u =>
        Ok {| env := set k_xfh (strip (join [c_comma] (py_lastk raw_forwarded_host k))) (env s);
              client := client s;
              fhost := forwarded_host; fproto := fproto s; fport := fport s; fwd := fwd s; unt := u |}))))
    | None => Ok s
    end
  else Ok s.

(* the single-valued headers: undquote(environ.get(key, "")); "," in v -> ValueError;
   the except handler evaluates environ[key] (KeyError when the header is absent) *)
Definition single_value (key : str) (e : environ) : result str :=
  bind (undquote (match lookup key e with Some v => v | None => [] end)) (fun v =>
  if has_char c_comma v then Exn ValueError else Ok v).

Definition handler_single {A} (key header : str) (e : environ) (r : result A) : result A :=
  match r with
  | Exn _ => match lookup key e with Some _ => Malformed header | None => Exn KeyError end
  | _ => r
  end.

Definition blk_proto (tph : list str) (s : pst) : result pst :=
  if has tph n_xfproto then
    handler_single k_xfproto h_xfproto (env s) (
      bind (single_value k_xfproto (env s)) (fun forwarded_proto =>
      bind (rm_proto (unt s)) (fun u =>
      Ok {| env := env s; client := client s; fhost := fhost s; fproto := forwarded_proto;
            fport := fport s; fwd := fwd s; unt := u |})))
  else Ok s.

Definition blk_port (tph : list str) (s : pst) : result pst :=
  if has tph n_xfport then
    handler_single k_xfport h_xfport (env s) (
      bind (single_value k_xfport (env s)) (fun forwarded_port =>
      bind (rm_port (unt s)) (fun u =>
      Ok {| env := env s; client := client s; fhost := fhost s; fproto := fproto s;
            fport := forwarded_port; fwd := fwd s; unt := u |})))
  else Ok s.

Definition blk_by (tph : list str) (s : pst) : result pst :=
  if has tph n_xfby then
    bind (rm_by (unt s)) (fun u =>
    Ok {| env := env s; client := client s; fhost := fhost s; fproto := fproto s;
          fport := fport s; fwd := fwd s; unt := u |})
  else Ok s.

(* if "forwarded" in trusted_proxy_headers:
       forwarded = environ.get("HTTP_FORWARDED", None)
       untrusted_headers = PROXY_HEADERS - {"FORWARDED"}                      *)
Definition blk_fwd_get (tph : list str) (s : pst) : pst :=
  if has tph n_fwd then
    {| env := env s; client := client s; fhost := fhost s; fproto := fproto s; fport := fport s;
       fwd := lookup k_fwd (env s); unt := u_all_but_fwd |}
  else s.

(* Forwarded = namedtuple("Forwarded", ["by", "for_", "host", "proto"]) *)
Record forwarded_t := { f_by : str; f_for : str; f_host : str; f_proto : str }.

(* one iteration of  for pair in forwarded_element.split(";") *)
Definition fwd_pair (acc : forwarded_t) (pair : str) : result forwarded_t :=
  let pair := lower_latin1 pair in
  if negb (truthy pair) then Ok acc
  else
    let '(token, equals, value) := partition pair [c_eq] in
    if negb (beqb equals [c_eq]) then Exn ValueError
    else if negb (beqb (strip token) token) then Exn ValueError
    else if negb (beqb (strip value) value) then Exn ValueError
    else if beqb token s_by then
      bind (undquote value) (fun v => Ok {| f_by := v; f_for := f_for acc; f_host := f_host acc; f_proto := f_proto acc |})
    else if beqb token s_for then
      bind (undquote value) (fun v => Ok {| f_by := f_by acc; f_for := v; f_host := f_host acc; f_proto := f_proto acc |})
    else if beqb token s_host then
      bind (undquote value) (fun v => Ok {| f_by := f_by acc; f_for := f_for acc; f_host := v; f_proto := f_proto acc |})
    else if beqb token s_proto then
      bind (undquote value) (fun v => Ok {| f_by := f_by acc; f_for := f_for acc; f_host := f_host acc; f_proto := v |})
    else Ok acc.   (* logger.warning("Unknown Forwarded token") *)

Fixpoint foldM {A B} (f : A -> B -> result A) (a : A) (l : list B) : result A :=
  match l with
  | [] => Ok a
  | x :: l' => bind (f a x) (fun a' => foldM f a' l')
  end.

Definition fwd_empty : forwarded_t := {| f_by := []; f_for := []; f_host := []; f_proto := [] |}.

(* body of  for forwarded_element in raw_forwarded *)
Definition fwd_element (forwarded_element : str) : result forwarded_t :=
  let forwarded_element := strip forwarded_element in
  foldM fwd_pair fwd_empty (split forwarded_element [c_semi]).

Definition str_or (a b : str) : str := if truthy a then a else b.

(* for proxy in proxies[::-1]: x = proxy.x or x *)
Definition fwd_fill (acc : option str * str * str) (proxy : forwarded_t) : option str * str * str :=
  let '(client_addr, forwarded_host, forwarded_proto) := acc in
  ((if truthy (f_for proxy) then Some (f_for proxy) else client_addr),
   str_or (f_host proxy) forwarded_host,
   str_or (f_proto proxy) forwarded_proto).

(* if forwarded: ... *)
Definition blk_forwarded (k : Z) (s : pst) : result pst :=
  match fwd s with
  | Some (c :: forwarded') =>
    let forwarded := c :: forwarded' in
    let raw_forwarded := split forwarded [c_comma] in
    bind (match mapM fwd_element raw_forwarded with
          | Exn _ => match lookup k_fwd (env s) with Some _ => Malformed h_fwd | None => Exn KeyError end
          | r => r
          end) (fun proxies_all =>
    (* the loop variables keep the values of the last element parsed
       (the loop body ran at least once: split never returns an empty list) *)
    let lastp := last proxies_all fwd_empty in
    let proxies := py_lastk proxies_all k in
    let e' := set k_fwd (strip (join [c_comma] (py_lastk raw_forwarded k))) (env s) in
    let '(client_addr, forwarded_host, forwarded_proto) :=
        fold_left fwd_fill (rev proxies) (client s, f_host lastp, f_proto lastp) in
    Ok {| env := e'; client := client_addr; fhost := forwarded_host; fproto := forwarded_proto;
          fport := []; fwd := fwd s; unt := unt s |})
  | _ => Ok s
  end.

(* if forwarded_proto: ... *)
Definition stage_proto (s : pst) : result pst :=
  if truthy (fproto s) then
    let forwarded_proto := lower_latin1 (fproto s) in
    if negb (beqb forwarded_proto s_http || beqb forwarded_proto s_https) then
      Malformed (if opt_truthy (fwd s) then h_fwd_proto else h_xfproto)
    else
      let e' := set k_url_scheme forwarded_proto (env s) in
      let forwarded_port :=
        if negb (truthy (fport s)) then
          let p1 := if beqb forwarded_proto s_http then s_80 else fport s in
          if beqb forwarded_proto s_https then s_443 else p1
        else fport s in
      Ok {| env := e'; client := client s; fhost := fhost s; fproto := forwarded_proto;
            fport := forwarded_port; fwd := fwd s; unt := unt s |}
  else Ok s.

(* "{}:{}".format(forwarded_host, forwarded_port) *)
Definition host_colon_port (h p : str) : str := h ++ [c_colon] ++ p.

(* if forwarded_host: ... *)
Definition stage_host (s : pst) : result pst :=
  let forwarded_host := fhost s in
  if truthy forwarded_host then
    match last_opt forwarded_host with
    | None => Exn IndexError
    | Some l =>
      if has_char c_colon forwarded_host && negb (l =? c_rbr) then
        match rsplit1 forwarded_host [c_colon] with
        | [host; port] =>
          let host := strip host in
          (* if not host: raise MalformedProxyHeader("Forwarded Host=" if forwarded else "X-Forwarded-Host", ...) *)
          if negb (truthy host) then Malformed (if opt_truthy (fwd s) then h_fwd_host else h_xfh) else
          let forwarded_port := if negb (beqb (fport s) port) then port else fport s in
          let e1 := set k_server_name host (env s) in
          let e2 := set k_http_host forwarded_host e1 in
          Ok {| env := e2; client := client s; fhost := forwarded_host; fproto := fproto s;
                fport := forwarded_port; fwd := fwd s; unt := unt s |}
        | _ => Exn ValueError     (* unpacking; unreachable, ":" is in the string *)
        end
      else
        (* if not forwarded_host.strip(): raise MalformedProxyHeader(...) *)
        if negb (truthy (strip forwarded_host)) then Malformed (if opt_truthy (fwd s) then h_fwd_host else h_xfh) else
        let e1 := set k_server_name forwarded_host (env s) in
        let e2 := set k_http_host forwarded_host e1 in
        let forwarded_port := fport s in
        let with_port := set k_http_host (host_colon_port forwarded_host forwarded_port) e2 in
        bind
          (if truthy forwarded_port then
             if negb (beqb forwarded_port s_443 || beqb forwarded_port s_80) then Ok with_port
             else if beqb forwarded_port s_80 then
               (* forwarded_port == "80" and environ["wsgi.url_scheme"] != "http" *)
               match lookup k_url_scheme e2 with
               | None => Exn KeyError
               | Some sch =>
                 if negb (beqb sch s_http) then Ok with_port
                 else
                   (* elif forwarded_port == "443" and ... : false, the port is "80" *)
                   Ok e2
               end
             else
               (* forwarded_port == "443" *)
               match lookup k_url_scheme e2 with
               | None => Exn KeyError
               | Some sch => if negb (beqb sch s_https) then Ok with_port else Ok e2
               end
           else Ok e2)
          (fun e3 =>
          Ok {| env := e3; client := client s; fhost := forwarded_host; fproto := fproto s;
                fport := forwarded_port; fwd := fwd s; unt := unt s |})
    end
  else Ok s.

(* if forwarded_port: environ["SERVER_PORT"] = str(forwarded_port) *)
Definition stage_port (s : pst) : pst :=
  if truthy (fport s) then
    {| env := set k_server_port (fport s) (env s); client := client s; fhost := fhost s;
       fproto := fproto s; fport := fport s; fwd := fwd s; unt := unt s |}
  else s.

(* if client_addr: ... *)
Definition stage_client (s : pst) : result pst :=
  match client s with
  | Some (c0 :: c') =>
    let client_addr := c0 :: c' in
    match last_opt client_addr with
    | None => Exn IndexError
    | Some l =>
      bind
        (if has_char c_colon client_addr && negb (l =? c_rbr) then
           match rsplit1 client_addr [c_colon] with
           | [addr; port] =>
             (* if not addr.strip(): raise MalformedProxyHeader("Forwarded" if forwarded else "X-Forwarded-For", ...) *)
             if negb (truthy (strip addr)) then Malformed (if opt_truthy (fwd s) then h_fwd else h_xff) else
             bind (strip_brackets (strip addr)) (fun a =>
             Ok (set k_remote_port (strip port) (set k_remote_addr a (env s))))
           | _ => Exn ValueError
           end
         else
           if negb (truthy (strip client_addr)) then Malformed (if opt_truthy (fwd s) then h_fwd else h_xff) else
           bind (strip_brackets (strip client_addr)) (fun a =>
           Ok (set k_remote_addr a (env s))))
        (fun e1 =>
         match lookup k_remote_addr e1 with
         | None => Exn KeyError
         | Some ra =>
           Ok {| env := set k_remote_host ra e1; client := client s; fhost := fhost s;
                 fproto := fproto s; fport := fport s; fwd := fwd s; unt := unt s |}
         end)
    end
  | _ => Ok s
  end.

Definition init_pst (e : environ) : pst :=
  {| env := e; client := None; fhost := []; fproto := []; fport := []; fwd := Some []; unt := u_all |}.

(* header parsing and hop selection (everything up to "if forwarded_proto:") *)
Definition parse_select (e : environ) (k : Z) (tph : list str) : result pst :=
  bind (blk_xff k tph (init_pst e)) (fun s =>
  bind (blk_xfh k tph s) (fun s =>
  bind (blk_proto tph s) (fun s =>
  bind (blk_port tph s) (fun s =>
  bind (blk_by tph s) (fun s =>
  blk_forwarded k (blk_fwd_get tph s)))))).

(* the rest: writing the selected values into the environ *)
Definition parse_apply (s : pst) : result pst :=
  bind (stage_proto s) (fun s =>
  bind (stage_host s) (fun s =>
  stage_client (stage_port s))).

Definition parse_proxy_headers (e : environ) (k : Z) (tph : option (list str)) : result (environ * uset) :=
  let tph := match tph with None => [] | Some t => t end in
  bind (parse_select e k tph) (fun s =>
  bind (parse_apply s) (fun s =>
  Ok (env s, unt s))).

(* environ.pop("HTTP_" + header, False) for header in untrusted_headers *)
Definition clear_untrusted_headers (e : environ) (u : uset) : environ :=
  let e := if u_for u then pop k_xff e else e in
  let e := if u_host u then pop k_xfh e else e in
  let e := if u_proto u then pop k_xfproto e else e in
  let e := if u_port u then pop k_xfport e else e in
  let e := if u_by u then pop k_xfby e else e in
  if u_fwd u then pop k_fwd e else e.

Record config := {
  trusted_proxy : option str;
  trusted_proxy_count : Z;
  trusted_proxy_headers : option (list str);
  clear_untrusted : bool
}.

Definition opt_str_eqb (a b : option str) : bool :=
  match a, b with
  | Some x, Some y => beqb x y
  | None, None => true
  | _, _ => false
  end.

(* translate_proxy_headers(environ, start_response); Ok e: the application is
   called with environ e *)
Definition middleware (c : config) (e : environ) : result environ :=
  match lookup k_remote_addr e with
  | None => Exn KeyError
  | Some remote_peer =>
    bind
      (if opt_str_eqb (trusted_proxy c) (Some s_star) || opt_str_eqb (Some remote_peer) (trusted_proxy c) then
         parse_proxy_headers e (trusted_proxy_count c) (trusted_proxy_headers c)
       else Ok (e, u_all))
      (fun '(e', untrusted_headers) =>
       Ok (if clear_untrusted c then clear_untrusted_headers e' untrusted_headers else e'))
  end.

(* server.py: if adj.trusted_proxy or adj.clear_untrusted_proxy_headers: wrap *)
Definition installed (c : config) : bool :=
  opt_truthy (trusted_proxy c) || clear_untrusted c.

Definition serve (c : config) (e : environ) : result environ :=
  if installed c then middleware c e else Ok e.
