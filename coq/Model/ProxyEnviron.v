(* The composition the server runs for one request, from the bytes on:

     HTTPRequestParser.received (Model/Parser.v)
       -> WSGITask.get_environment (Model/Environ.v)
       -> server.application = proxy_headers_middleware(app) when installed (Model/Proxy.v)

   The two component models use different dictionaries: get_environment builds
   an [edict] whose values carry a tag (str, tuple, bool, file object ...), the
   middleware model works on the str-valued entries only (it never reads or
   writes any other entry).  [str_view] is the bridge: the str-valued entries
   of the task's environ, in dict order.  Definitions only; everything is
   executable (Extract/ExtC15e2e.v). *)
From Coq Require Import List NArith ZArith Bool.
From WV Require Import Lib.PyBytes Lib.PyStrProxy Model.Receiver Model.Parser Model.Environ Model.Proxy
  Spec.Pep3333.
Import ListNotations.
Local Open Scope N_scope.

(* the entries of the environ that are str, as the middleware model sees them *)
Fixpoint str_view (e : edict) : Proxy.environ :=
  match e with
  | [] => []
  | (k, VStr s) :: e' => (k, s) :: str_view e'
  | _ :: e' => str_view e'
  end.

(* the environ the task hands to server.application *)
Definition environ_of (ctx : Environ.config) (p : parser) : Proxy.environ :=
  str_view (get_environment ctx p).

(* task.execute: app_iter = self.channel.server.application(environ, start_response) *)
Definition serve_request (cfg : Proxy.config) (ctx : Environ.config) (p : parser) : result Proxy.environ :=
  serve cfg (environ_of ctx p).

(* ---- reading the head of a request off the bytes offered ----------------- *)

(* what received() hands to parse_header once the first CRLF CRLF has arrived:
   the bytes up to and including it, leading CRLF pairs and then leading
   SP / HTAB / VT / FF / CR removed *)
Definition head_block (s : bytes) : option bytes :=
  match find_double_newline s with
  | Some i => Some (lstrip_by is_reqline_ws (strip_leading_crlf (length s) (firstn i s)))
  | None => None
  end.

(* parse_header's first steps: the request line and the header lines
   (get_header_lines: folded lines joined, empty lines dropped) *)
Definition head_parts (s : bytes) : option (bytes * list bytes) :=
  match head_block s with
  | Some hp =>
    match find hp CRLF with
    | Some index =>
      match get_header_lines (skipn (index + 2) hp) with
      | inr lines => Some (rstrip_by is_reqline_ws (firstn index hp), lines)
      | inl _ => None
      end
    | None => None
    end
  | None => None
  end.

(* ---- which header line lands on which environ key ------------------------ *)
(* the text before the first colon of a header line *)
Fixpoint line_name (l : bytes) : bytes :=
  match l with
  | [] => []
  | x :: l' => if x =? 58 then [] else x :: line_name l'
  end.
Fixpoint line_rest (l : bytes) : bytes :=
  match l with
  | [] => []
  | x :: l' => if x =? 58 then l' else line_rest l'
  end.

(* parser.py:232-238 + task.py:576-581: a line whose name contains "_" is
   skipped; otherwise the key is the upper-cased name with "-" replaced by
   "_", prefixed with HTTP_ unless it is CONTENT_LENGTH / CONTENT_TYPE *)
Definition maps_to (name ek : bytes) : bool :=
  negb (has_underscore name) && beqb (cgi_key name) ek.

Definition key_lines (ek : bytes) (lines : list bytes) : list bytes :=
  filter (fun l => maps_to (line_name l) ek) lines.

(* values stripped of SP / HTAB, joined by ", " in arrival order; None when there is no line *)
Definition value_of_lines (ls : list bytes) : option bytes :=
  joined (map (fun l => trim (line_rest l)) ls).

(* the header names an untrusted peer can use to reach one of the six proxy
   keys, and the name of the Host header: compared ASCII case-insensitively,
   spelled with "-" *)
Definition proxy_names : list bytes := [n_xff; n_xfh; n_xfproto; n_xfport; n_xfby; n_fwd].
Definition n_host : bytes := [104;111;115;116].   (* "host" *)

Definition proxy_line (l : bytes) : bool := existsb (beqb (lower_ascii (line_name l))) proxy_names.
Definition host_line (l : bytes) : bool := beqb (lower_ascii (line_name l)) n_host.
Definition underscore_name_line (l : bytes) : bool := has_underscore (line_name l).

(* lines two requests may differ in: the six proxy headers and every line
   whose name contains an underscore (X_Forwarded_For and the like) *)
Definition ignorable (l : bytes) : bool := proxy_line l || underscore_name_line l.
Definition kept_lines (lines : list bytes) : list bytes := filter (fun l => negb (ignorable l)) lines.
