(* Model of the connection bookkeeping of waitress (property C18):
     server.py   BaseWSGIServer.readable / maintenance / handle_accept, create_server
                 (several listeners share one socket map, each with its own trigger)
     wasyncore.py  poll(): predicates of all objects first, select, then the read
                 handlers, then the write handlers
     channel.py  HTTPChannel.readable / writable / handle_read / received (reduced to
                 request boundaries) / handle_write / _flush_some / write_soon /
                 service (reduced to its effect on requests, output and flags)
   together with a small fake kernel (backlogs, per-connection receive queue,
   send-buffer room, peer gone / peer reading), the same one the correspondence
   harness (harness/server.py, harness/fake_socket.py) implements.

   The boolean decisions are NOT written here: they are the functions generated
   from the source on every run (Gen/GenPreds.v).

   Shape of the socket map.  The real map is a dict in insertion order:
   [trigger_0; listener_0; trigger_1; listener_1; ...; channels in creation order].
   Listeners and triggers are never removed by the modelled operations, closed
   channels are deleted and new ones appended, so the model keeps the listeners
   and the channels as two lists; [map_fds] gives the dict order (the harness
   compares it with list(map.keys()) after every event).

   No proofs in this file. *)
From Coq Require Import List ZArith Bool.
From WV Require Import Gen.GenPreds.
Import ListNotations.
Local Open Scope Z_scope.

(* adj.* values read by the modelled code, and the fake kernel's SO_SNDBUF *)
Record params := mkParams {
  p_limit : Z;        (* adj.connection_limit *)
  p_timeout : Z;      (* adj.channel_timeout *)
  p_interval : Z;     (* adj.cleanup_interval *)
  p_send_bytes : Z;   (* adj.send_bytes *)
  p_lookahead : Z;    (* adj.channel_request_lookahead *)
  p_sndbuf : Z;       (* room of a fresh connection's send buffer (fake kernel) *)
  p_high_watermark : Z (* adj.outbuf_high_watermark *)
}.

(* what a client write amounts to for HTTPChannel.received: bytes that do not
   complete a request, or bytes that complete one (the flag: the request asks
   for / causes close_on_finish) *)
Inductive tok : Set := TPartial | TComplete (close : bool).

(* server side of a connection in the fake kernel *)
Record sock := mkSock {
  s_fd : Z;
  s_rx : list tok;     (* received, not yet read by the server *)
  s_gone : bool;       (* the client has disconnected *)
  s_reading : bool;    (* the client reads as fast as the server sends *)
  s_room : Z           (* free space in the send buffer once the client has stalled *)
}.

Record chan := mkChan {
  c_sock : sock;
  c_owner : nat;             (* index of the listener whose active_channels holds it *)
  c_requests : list bool;    (* self.requests: queued / executing requests (their close flag) *)
  c_inreq : bool;            (* self.request is not None: a partially received request *)
  c_last : Z;                (* last_activity *)
  c_wc : bool;               (* will_close *)
  c_cwf : bool;              (* close_when_flushed *)
  c_pend : Z                 (* total_outbufs_len *)
}.
(* `connected` is True for every channel in the map (it is cleared only by
   handle_close, which removes the channel), so it is not a field. *)

Record listener := mkListener {
  l_accepting : bool;
  l_overflow : bool;        (* in_connection_overflow *)
  l_ncc : Z;                (* next_channel_cleanup *)
  l_backlog : list sock     (* connections the kernel has completed, not yet accepted *)
}.

Record state := mkState {
  st_clock : Z;
  st_listeners : list listener;
  st_chans : list chan;
  st_nextfd : Z
}.

Inductive event : Set :=
| EConnect (l : nat)                     (* a client connects to listener l *)
| ESend (fd : Z) (t : tok)               (* the client sends a partial / a complete request *)
| EAppFinish (fd : Z) (writes : list N)  (* the application finishes requests[0]; sizes passed to write_soon *)
| EReads (fd : Z) (n : N)                (* a stalled client reads n bytes *)
| EStalls (fd : Z)                       (* the client stops reading *)
| EDisconnect (fd : Z)                   (* the client disconnects *)
| EAdvance (d : N)                       (* the clock advances *)
| EPoll.                                 (* one turn of wasyncore.poll *)

Definition c_fd (c : chan) : Z := s_fd (c_sock c).
Definition len_requests (c : chan) : Z := Z.of_nat (length (c_requests c)).

(* len(self._map) *)
Definition map_len_of (ls : list listener) (cs : list chan) : Z :=
  2 * Z.of_nat (length ls) + Z.of_nat (length cs).
Definition map_len (s : state) : Z := map_len_of (st_listeners s) (st_chans s).

(* keys of the map, in dict order; triggers and listeners are named by index *)
Inductive key : Set := KTrigger (i : nat) | KListener (i : nat) | KChan (fd : Z).
Fixpoint listener_keys (i : nat) (ls : list listener) : list key :=
  match ls with [] => [] | _ :: r => KTrigger i :: KListener i :: listener_keys (S i) r end.
Definition map_fds (s : state) : list key :=
  listener_keys 0 (st_listeners s) ++ map (fun c => KChan (c_fd c)) (st_chans s).

(* ---------------------------------------------------------------- fake kernel *)

Definition is_nil {A} (l : list A) : bool := match l with [] => true | _ => false end.

(* select(): read-ready = data queued or EOF; write-ready = room, or an error to report *)
Definition sel_readable (k : sock) : bool := negb (is_nil (s_rx k)) || s_gone k.
Definition sel_writable (k : sock) : bool := s_gone k || s_reading k || (0 <? s_room k).

Definition set_rx (k : sock) (rx : list tok) := mkSock (s_fd k) rx (s_gone k) (s_reading k) (s_room k).
Definition set_gone (k : sock) := mkSock (s_fd k) (s_rx k) true (s_reading k) (s_room k).
Definition set_reading (k : sock) (b : bool) := mkSock (s_fd k) (s_rx k) (s_gone k) b (s_room k).
Definition set_room (k : sock) (r : Z) := mkSock (s_fd k) (s_rx k) (s_gone k) (s_reading k) r.

(* ---------------------------------------------------------------- channel *)

Definition set_sock (c : chan) (k : sock) :=
  mkChan k (c_owner c) (c_requests c) (c_inreq c) (c_last c) (c_wc c) (c_cwf c) (c_pend c).
Definition set_requests (c : chan) (r : list bool) :=
  mkChan (c_sock c) (c_owner c) r (c_inreq c) (c_last c) (c_wc c) (c_cwf c) (c_pend c).
Definition set_inreq (c : chan) (b : bool) :=
  mkChan (c_sock c) (c_owner c) (c_requests c) b (c_last c) (c_wc c) (c_cwf c) (c_pend c).
Definition set_last (c : chan) (t : Z) :=
  mkChan (c_sock c) (c_owner c) (c_requests c) (c_inreq c) t (c_wc c) (c_cwf c) (c_pend c).
Definition set_wc (c : chan) (b : bool) :=
  mkChan (c_sock c) (c_owner c) (c_requests c) (c_inreq c) (c_last c) b (c_cwf c) (c_pend c).
Definition set_cwf (c : chan) (b : bool) :=
  mkChan (c_sock c) (c_owner c) (c_requests c) (c_inreq c) (c_last c) (c_wc c) b (c_pend c).
Definition set_pend (c : chan) (n : Z) :=
  mkChan (c_sock c) (c_owner c) (c_requests c) (c_inreq c) (c_last c) (c_wc c) (c_cwf c) n.

(* HTTPChannel.__init__ as called from handle_accept *)
Definition new_chan (now : Z) (owner : nat) (k : sock) : chan :=
  mkChan k owner [] false now false false 0.

Definition chan_is_r (p : params) (c : chan) : bool :=
  gen_chan_readable (c_wc c) (c_cwf c) (len_requests c) (p_lookahead p) (c_pend c).
Definition chan_is_w (c : chan) : bool :=
  gen_chan_writable (c_pend c) (c_wc c) (c_cwf c).

(* _flush_some: send until the buffers are empty or send() takes nothing.
   None = the channel was closed (send() hit a disconnected peer, do_close).
   The loop sends min(pending, room) in total (everything when the peer reads);
   last_activity is updated iff something was sent. *)
Definition flush_some (do_close : bool) (now : Z) (c : chan) : option chan :=
  let k := c_sock c in
  if c_pend c <=? 0 then Some c
  else if s_gone k then (if do_close then None else Some c)
  else
    let n := if s_reading k then c_pend c else Z.min (c_pend c) (Z.max 0 (s_room k)) in
    let k' := if s_reading k then k else set_room k (s_room k - n) in
    let c1 := set_pend (set_sock c k') (c_pend c - n) in
    Some (if 0 <? n then set_last c1 now else c1).

(* handle_write.  The outbuf lock is free whenever the I/O thread runs a poll
   turn in this model (EAppFinish is atomic), so _flush_some_if_lockable flushes. *)
Definition handle_write (p : params) (now : Z) (c : chan) : option chan :=
  let flushed :=
    match gen_hw_flush (len_requests c) (c_pend c) (p_send_bytes p) (p_high_watermark p) with
    | FlushSome => flush_some true now c
    | FlushIfLockable => flush_some true now c
    | FlushNone => Some c
    end in
  match flushed with
  | None => None   (* closed inside send(); the tail runs on the closed channel (handle_close is idempotent) *)
  | Some c1 =>
    let '(cwf', wc', closed) := gen_hw_after (c_cwf c1) (c_wc c1) (c_pend c1) in
    if closed then None else Some (set_wc (set_cwf c1 cwf') wc')
  end.

(* received(data): nothing is parsed once the channel is about to close *)
Definition received_tok (c : chan) (t : tok) : chan :=
  match t with
  | TPartial => set_inreq c true
  | TComplete cl => set_inreq (set_requests c (c_requests c ++ [cl])) false
  end.
Definition received (c : chan) (data : list tok) : chan :=
  if c_wc c || c_cwf c then c else fold_left received_tok data c.

(* handle_read: recv() of everything queued (the harness keeps the queue below
   recv_bytes).  An empty queue means recv() returned b"" (EOF: handle_close
   inside recv) or raised EWOULDBLOCK (handle_close in handle_read). *)
Definition handle_read (p : params) (now : Z) (c : chan) : option chan :=
  match s_rx (c_sock c) with
  | [] => None
  | data => Some (received (set_last (set_sock c (set_rx (c_sock c) [])) now) data)
  end.

(* write_soon(data) from the task (outputs stay below outbuf_high_watermark) *)
Definition write_soon (p : params) (now : Z) (c : chan) (n : N) : chan :=
  if (Z.of_N n <=? 0) then c else
  let c1 := set_pend c (c_pend c + Z.of_N n) in
  if c_pend c1 >=? p_send_bytes p then
    match flush_some false now c1 with Some c2 => c2 | None => c1 end
  else c1.

(* service(): run requests[0] to completion *)
Definition service (p : params) (now : Z) (c : chan) (writes : list N) : chan :=
  match c_requests c with
  | [] => c
  | cl :: rest =>
    let c1 := fold_left (write_soon p now) writes c in
    let c2 := if cl then set_requests (set_cwf c1 true) [] else set_requests c1 rest in
    set_last c2 now
  end.

(* ---------------------------------------------------------------- server *)

(* maintenance(now) of listener idx: its active_channels are the channels it accepted *)
Definition maintenance (p : params) (now : Z) (idx : nat) (cs : list chan) : list chan :=
  let cutoff := gen_maint_cutoff now (p_timeout p) in
  map (fun c => if Nat.eqb (c_owner c) idx && gen_maint_test (len_requests c) (c_last c) cutoff
                then set_wc c true else c) cs.

(* poll(), first loop, the listeners: readable() of each in map order *)
Fixpoint listeners_readable (p : params) (now mlen : Z) (idx : nat) (ls : list listener) (cs : list chan)
  : list (listener * bool) * list chan :=
  match ls with
  | [] => ([], cs)
  | l :: ls' =>
    let '(ncc', maint, ovf', res) :=
      gen_srv_readable now (l_ncc l) (p_interval p) (l_accepting l) (l_overflow l) mlen (p_limit p) in
    let cs1 := if maint then maintenance p now idx cs else cs in
    let l1 := mkListener (l_accepting l) ovf' ncc' (l_backlog l) in
    let '(rest, cs2) := listeners_readable p now mlen (S idx) ls' cs1 in
    ((l1, res) :: rest, cs2)
  end.

(* read events of the listeners: in r (readable(), writable() = False), reported
   by select when the backlog is not empty, dispatched to handle_accept when accepting *)
Fixpoint accept_phase (now : Z) (idx : nat) (lrs : list (listener * bool)) : list listener * list chan :=
  match lrs with
  | [] => ([], [])
  | (l, res) :: rest =>
    let '(ls', news) := accept_phase now (S idx) rest in
    if gen_poll_r res false (l_accepting l) && negb (is_nil (l_backlog l)) && l_accepting l then
      match l_backlog l with
      | k :: bl => (mkListener (l_accepting l) (l_overflow l) (l_ncc l) bl :: ls', new_chan now idx k :: news)
      | [] => (l :: ls', news)
      end
    else (l :: ls', news)
  end.

(* poll(), first loop, a channel: membership in r and w, then what select reports *)
Definition chan_sel (p : params) (c : chan) : bool * bool :=
  let is_r := chan_is_r p c in
  let is_w := chan_is_w c in
  (gen_poll_r is_r is_w false && sel_readable (c_sock c),
   gen_poll_w is_r is_w false && sel_writable (c_sock c)).

Definition dispatch_reads (p : params) (now : Z) (xs : list (chan * bool * bool)) : list (chan * bool) :=
  flat_map (fun x : chan * bool * bool => match x with (c, r, w) =>
     if r then match handle_read p now c with Some c' => [(c', w)] | None => [] end else [(c, w)] end) xs.
Definition dispatch_writes (p : params) (now : Z) (xs : list (chan * bool)) : list chan :=
  flat_map (fun x : chan * bool => match x with (c, w) =>
     if w then match handle_write p now c with Some c' => [c'] | None => [] end else [c] end) xs.

(* one turn of wasyncore.poll(timeout, map) *)
Definition poll (p : params) (s : state) : state :=
  let now := st_clock s in
  let '(lrs, cs1) := listeners_readable p now (map_len s) 0 (st_listeners s) (st_chans s) in
  let flagged := map (fun c => let '(r, w) := chan_sel p c in (c, r, w)) cs1 in
  let '(ls', news) := accept_phase now 0 lrs in
  let cs2 := dispatch_writes p now (dispatch_reads p now flagged) in
  mkState now ls' (cs2 ++ news) (st_nextfd s).

(* ---------------------------------------------------------------- events *)

Definition upd_sock (fd : Z) (f : sock -> sock) (s : state) : state :=
  mkState (st_clock s)
    (map (fun l => mkListener (l_accepting l) (l_overflow l) (l_ncc l)
                     (map (fun k => if s_fd k =? fd then f k else k) (l_backlog l))) (st_listeners s))
    (map (fun c => if c_fd c =? fd then set_sock c (f (c_sock c)) else c) (st_chans s))
    (st_nextfd s).

Definition upd_chan (fd : Z) (f : chan -> chan) (s : state) : state :=
  mkState (st_clock s) (st_listeners s)
    (map (fun c => if c_fd c =? fd then f c else c) (st_chans s)) (st_nextfd s).

Fixpoint add_backlog (i : nat) (k : sock) (ls : list listener) : option (list listener) :=
  match ls with
  | [] => None
  | l :: r =>
    match i with
    | O => Some (mkListener (l_accepting l) (l_overflow l) (l_ncc l) (l_backlog l ++ [k]) :: r)
    | S j => match add_backlog j k r with Some r' => Some (l :: r') | None => None end
    end
  end.

Definition step (p : params) (s : state) (e : event) : state :=
  match e with
  | EConnect i =>
    match add_backlog i (mkSock (st_nextfd s) [] false true (p_sndbuf p)) (st_listeners s) with
    | Some ls => mkState (st_clock s) ls (st_chans s) (st_nextfd s + 1)
    | None => s
    end
  | ESend fd t => upd_sock fd (fun k => if s_gone k then k else set_rx k (s_rx k ++ [t])) s
  | EAppFinish fd ws => upd_chan fd (fun c => service p (st_clock s) c ws) s
  | EReads fd n => upd_sock fd (fun k => if s_reading k then k else set_room k (s_room k + Z.of_N n)) s
  | EStalls fd => upd_sock fd (fun k => set_reading k false) s
  | EDisconnect fd => upd_sock fd set_gone s
  | EAdvance d => mkState (st_clock s + Z.of_N d) (st_listeners s) (st_chans s) (st_nextfd s)
  | EPoll => poll p s
  end.

Definition run (p : params) (s : state) (es : list event) : state := fold_left (step p) es s.

(* create_server with nl listening sockets, all started (accept_connections) *)
Definition init (nl : nat) (t0 fd0 : Z) : state :=
  mkState t0 (repeat (mkListener true false 0 []) nl) [] fd0.
