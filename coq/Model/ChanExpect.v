(* Model/ChanExpect.v -- narrow interleaving model of the "Expect: 100-continue"
   protocol of waitress.channel.HTTPChannel (property C19).

   WHAT IS REPRESENTED (channel.py of the pinned tree)

   I/O thread, HTTPChannel.received(data) with data <> b"":
     CIOEnter      `with self.requests_lock:` (acquire; enabled iff the lock is
                   free) + `if self.will_close or self.close_when_flushed:
                   return False` (then the lock is released in the same step:
                   nothing was touched)
     CIOParse ev m one turn of `while data:` up to the call of send_continue:
                   `if self.request is None: self.request = parser_class(adj)`,
                   `n = self.request.received(data)` (the abstract parser step
                   [astep] with the environment's event [ev]),
                   the four-way test `expect_continue and headers_finished and
                   not self.requests and not self.sent_continue`;
                   if it holds: first statement of send_continue
                   (`self.request.expect_continue = False`) and the thread goes
                   to [IOSend m]; otherwise the rest of the turn [io_complete]:
                   `if self.request.completed: self.sent_continue = False;
                   if not self.request.empty: self.requests.append(..);
                   if len(self.requests) == 1: self.server.add_task(self);
                   self.request = None`, then `if n >= len(data): break` --
                   [m] (more) says whether bytes are left; when none are left
                   the lock is released in the same step.
     CIOSend       the rest of send_continue: `with self.outbuf_lock:
                   outbufs[-1].append(b"HTTP/1.1 100 Continue\r\n\r\n"); counters;
                   self.sent_continue = True; self._flush_some()`; then the rest of
                   the turn [io_complete] as above (a request that was complete at
                   the end of its header block is queued now).
   Workers (pool threads), HTTPChannel.service():
     CTake         the dispatcher hands the channel to a worker (one pending
                   add_task is consumed; the worker enters service())
     CWBegin i     `request = self.requests[0]`
     CWWrite i     one write_soon(data) of the task of that request: bytes of
                   its FINAL response are appended to the output buffers
     CWEnd i c     task.service() is over; c = task.close_on_finish (also the case in
                   which the task is not executed at all: since fix 64d926d
                   `if self.connected and not self.will_close:` ... else
                   close_on_finish = True -- zero CWWrite steps, then CWEnd i true)
     CWClose i     close branch: `with self.requests_lock: close_when_flushed =
                   True; ...; self.requests = []`
     CWKeep i      keep branch: `with self.requests_lock: self.requests.pop(0);
                   if self.connected and self.requests: add_task
                   elif self.connected and self.request is not None and
                   self.request.expect_continue and self.request.headers_finished
                   and not self.sent_continue:` first statement of send_continue;
                   the worker goes to [WSend] STILL HOLDING requests_lock;
                   in every other case the lock is released in the same step
     CWSend i      the rest of send_continue on the worker (as CIOSend; since fix
                   da3bf3a the worker calls send_continue(do_close=False): its flush
                   never tears the connection down -- flushing is not part of this
                   model either way), then the release of requests_lock.  What follows in service()
                   (`if self.connected: pull_trigger()`, last_activity) touches
                   nothing of this model: the worker leaves the model here.
   Environment:
     CDisconnect   the I/O thread sets `connected = False` (EOF in handle_read,
                   handle_close): only while it is not inside received()
     CWillClose    somebody sets will_close (handle_write, maintenance,
                   _flush_exception on either thread): any time

   GRANULARITY.  Every read and write of `request`, `sent_continue`, of the
   parser flags of `self.request` and every WRITE of `requests` and
   `close_when_flushed` that the two methods make is inside `with
   self.requests_lock` (harness/chanexpect.py re-checks this on every run by an
   ast audit of received / send_continue / service); the appends to the output
   buffers are inside `with self.outbuf_lock`.  A stretch of code inside one
   critical section of requests_lock that makes no other labelled operation is
   one step.  The only labelled operations made while requests_lock is held
   are add_task (the dispatcher's own lock; the new queue entry is visible to
   the pool at once: [queued] is incremented in the same step and CTake may
   fire while the I/O thread still holds requests_lock) and the acquire of
   outbuf_lock inside send_continue: that is why send_continue is split in two
   steps with the pcs [IOSend]/[WSend] at which the thread holds requests_lock
   and waits for outbuf_lock.  The critical section of outbuf_lock in
   send_continue (append, counters, sent_continue, _flush_some) and in
   write_soon is ONE step: while a thread is inside it no other thread can append
   (flushing -- since fix 8bcf05e always under outbuf_lock -- removes
   bytes from the front and never reorders appends), so the ORDER OF APPENDS,
   which is all this model records ([outlog]), is the order of these steps.
   Unlocked reads of `requests` (service(): requests[0], len(requests) > 1;
   readable(), handle_write) do not write; requests[0] is read by the worker
   while only the I/O thread can append at the END of a non-empty list.
   `connected` is read by the worker under requests_lock but written by the I/O
   thread without it: CDisconnect is its own step.

   ABSTRACTED, and why that is sound for C19.
   * A request is the parser OBJECT: its five flags that the channel consults
     (completed, expect_continue, headers_finished, body_rcv is not None,
     empty) plus ghost fields.  HTTPRequestParser.received is replaced by the
     nondeterministic [astep]: Proof/ChanExpectSeq.v proves that every call of
     the transliterated parser (Model/Parser.v, tied to the code by K-parse) is
     matched by some event ([abs_sim]), and that an event that sets the flag
     ([Some true]) only comes from an HTTP/1.1 head whose Expect field is
     "100-continue".  More behaviours than the real parser has = sound for
     the safety theorems proved here.
   * Bytes: the output is the list of append events, [TInterim id w] (the 25
     interim bytes for object id, w = sent by a worker) and [TFinal id] (one
     write_soon of the final response of id).  Contiguity of what is appended
     and the wire order are C04/C17's.
   * readable()/handle_read/the poll loop: the I/O thread may call received at
     any time with any data (superset of what the loop does).
   * Any number of pool workers: [active] lists the workers that are inside
     service() of THIS channel; that there is at most one is proved, not assumed.
   * HTTPChannel.cancel() (server shutdown) and a failing `self.requests[0]` /
     `pop(0)` (IndexError: the worker dies in handler_thread's catch-all) are
     represented by the worker leaving the model.
   * The flush inside send_continue is `self._flush_exception(self._flush_some,
     do_close=do_close)` (fix 48f7fa0): a send error there sets will_close (the
     environment step CWillClose) and no exception leaves send_continue any more,
     so the steps CIOSend / CWSend always run to their end as modelled.
   * close_when_flushed is never reset in this model (handle_write resets it
     when it turns it into will_close and closes: the channel is gone then).

   THE CODE THIS MODEL WAS WRITTEN AGAINST, in the cosmetic normal form of
   harness/chanexpect.py (ast.unparse: comments, docstrings, layout gone;
   annotations dropped; function-local names renamed v1, v2, ... in order of first
   occurrence; everything that touches self.*, a lock, a call, a test, a constant
   or the control flow kept exactly).  The shape audit recomputes it from the
   source on every run and compares it line by line with this block -- any
   non-cosmetic edit of these methods breaks the tie until the model is re-examined:
   SIGNATURE-BEGIN
   def received(self, data):
       if not data:
           return False
       with self.requests_lock:
           if self.will_close or self.close_when_flushed:
               return False
           while data:
               if self.request is None:
                   self.request = self.parser_class(self.adj)
               v1 = self.request.received(data)
               if self.request.expect_continue and self.request.headers_finished and (not self.requests) and (not self.sent_continue):
                   self.send_continue()
               if self.request.completed:
                   self.sent_continue = False
                   if not self.request.empty:
                       self.requests.append(self.request)
                       if len(self.requests) == 1:
                           self.server.add_task(self)
                   self.request = None
               if v1 >= len(data):
                   break
               data = data[v1:]
       return True
   def send_continue(self, do_close=True):
       self.request.expect_continue = False
       v1 = b'HTTP/1.1 100 Continue\r\n\r\n'
       v2 = len(v1)
       with self.outbuf_lock:
           self.outbufs[-1].append(v1)
           self.current_outbuf_count += v2
           self.total_outbufs_len += v2
           self.sent_continue = True
           self._flush_exception(self._flush_some, do_close=do_close)
   def service(self):
       v1 = self.requests[0]
       ...
       if v2.close_on_finish:
           with self.requests_lock:
               self.close_when_flushed = True
               for v1 in self.requests:
                   v1.close()
               self.requests = []
       else:
           if len(self.requests) > 1:
               self._flush_outbufs_below_high_watermark()
           if self.current_outbuf_count > 0:
               self.current_outbuf_count = self.adj.outbuf_high_watermark
           v1.close()
           with self.requests_lock:
               self.requests.pop(0)
               if self.connected and self.requests:
                   self.server.add_task(self)
               elif self.connected and self.request is not None and self.request.expect_continue and self.request.headers_finished and (not self.sent_continue):
                   self.send_continue(do_close=False)
       if self.connected:
           self.server.pull_trigger()
       self.last_activity = time.time()
   parser.py HTTPRequestParser / parse_header / if v1 == '1.1': v2 = v3.get('EXPECT', '').lower()
   parser.py HTTPRequestParser / parse_header / if v1 == '1.1': self.expect_continue = v2 == '100-continue'
   SIGNATURE-END

   GHOST (never read by a guard): [rid] creation index of the parser object,
   [g_asked] some head parsed into the object set expect_continue, [g_heads]
   number of header blocks parsed into the object, [askers] ids that ever asked.

   HISTORY.  Until fix e3537e2 send_continue ended with `self.request.completed =
   False` (findings F5/F6: a request complete or refused at the end of its header
   block was answered 100 Continue and never queued); the model had a ghost class
   for it.  The statement is gone from the code and from the model; the theorems
   are stated for all requests. *)
From Coq Require Import List Arith Bool.
From RecordUpdate Require Import RecordUpdate.
Import ListNotations.

(* ---- the parser object, abstractly ------------------------------------ *)

Record areq := mkReq {
  rid : nat;
  a_completed : bool;
  a_expect : bool;
  a_hf : bool;
  a_body : bool;          (* body_rcv is not None *)
  a_empty : bool;
  g_asked : bool;
  g_heads : nat
}.

#[export] Instance eta_areq : Settable _ := settable! mkReq
  <rid; a_completed; a_expect; a_hf; a_body; a_empty; g_asked; g_heads>.

Definition fresh_req (i : nat) : areq := mkReq i false false false false false false 0.

(* what one call of HTTPRequestParser.received did *)
Inductive pev :=
| EvNone                                        (* completed parser (returns 0) / header block still incomplete *)
| EvHead431 (se : option bool) (body : bool)     (* header too large: parse_header(fake head), error, completed *)
| EvHeadEmpty                                   (* only blank lines before CRLFCRLF: empty, completed *)
| EvHead (se : option bool) (body compl : bool) (* header block finished and parsed (possibly with an error) *)
| EvBody (compl : bool).                        (* body bytes consumed *)

(* se = Some b : parse_header reached `self.expect_continue = (expect == "100-continue")` with value b *)
Definition set_expect (se : option bool) (q : areq) : areq :=
  match se with
  | None => q
  | Some b => q <| a_expect := b |> <| g_asked := g_asked q || b |>
  end.

Definition astep (q : areq) (ev : pev) : option areq :=
  if a_completed q then
    match ev with EvNone => Some q | _ => None end
  else if a_body q then
    match ev with
    | EvBody compl => Some (q <| a_completed := compl |>)
    | _ => None
    end
  else
    match ev with
    | EvNone => Some q
    | EvHead431 se body => Some (set_expect se q <| a_body := body |> <| a_completed := true |>)
    | EvHeadEmpty => Some (q <| a_empty := true |> <| a_completed := true |> <| a_hf := true |>)
    | EvHead se body compl =>
      if body || compl
      then Some (set_expect se q <| a_body := body |> <| a_completed := compl |> <| a_hf := true |>
                   <| g_heads := S (g_heads q) |>)
      else None
    | EvBody _ => None
    end.

(* ---- the channel ----------------------------------------------------- *)

Inductive tok :=
| TInterim (id : nat) (by_worker : bool)
| TFinal (id : nat).

Inductive iopc :=
| IOIdle
| IOLoop                 (* inside received(), holds requests_lock, at the top of `while data` *)
| IOSend (more : bool).  (* inside send_continue, holds requests_lock, before `with self.outbuf_lock` *)

Inductive wpc :=
| WStart                 (* entered service() *)
| WTask (id : nat)       (* inside task.service() of request id *)
| WClose                 (* close branch, before `with self.requests_lock` *)
| WKeep                  (* keep branch, before `with self.requests_lock` *)
| WSend.                 (* inside send_continue, holds requests_lock *)

Record state := mkState {
  request : option areq;
  requests : list areq;
  sent_continue : bool;
  will_close : bool;
  close_when_flushed : bool;
  connected : bool;
  rlock : bool;                (* requests_lock is held (by the thread whose pc says so) *)
  io : iopc;
  active : list wpc;           (* workers inside service() of this channel *)
  queued : nat;                (* add_task calls not yet taken by a worker *)
  outlog : list tok;           (* appends to the output buffers, in order *)
  next_id : nat;
  askers : list nat
}.

#[export] Instance eta_state : Settable _ := settable! mkState
  <request; requests; sent_continue; will_close; close_when_flushed; connected; rlock; io;
   active; queued; outlog; next_id; askers>.

Definition init : state :=
  mkState None [] false false false true false IOIdle [] 0 [] 0 [].

Inductive choice :=
| CIOEnter
| CIOParse (ev : pev) (more : bool)
| CIOSend
| CTake
| CWBegin (i : nat)
| CWWrite (i : nat)
| CWEnd (i : nat) (close : bool)
| CWClose (i : nat)
| CWKeep (i : nat)
| CWSend (i : nat)
| CDisconnect
| CWillClose.

Inductive label :=
| LRefused                      (* received() returned False: data dropped *)
| LNew (id : nat)               (* parser object created *)
| LInterim (id : nat) (by_worker : bool)
| LQueue (id : nat)             (* requests.append *)
| LEmpty (id : nat)             (* completed empty request dropped *)
| LAddTask
| LServe (id : nat)             (* service() picked requests[0] *)
| LFinal (id : nat)
| LPop (id : nat)
| LCloseDecision.

Definition is_nil {A} (l : list A) : bool := match l with [] => true | _ => false end.

Fixpoint set_nth {A} (i : nat) (x : A) (l : list A) : list A :=
  match l, i with
  | [], _ => []
  | _ :: r, 0 => x :: r
  | y :: r, S j => y :: set_nth j x r
  end.

Fixpoint del_nth {A} (i : nat) (l : list A) : list A :=
  match l, i with
  | [], _ => []
  | _ :: r, 0 => r
  | y :: r, S j => y :: del_nth j r
  end.

(* the four-way test of received() / the elif of service() (without `connected`) *)
Definition wants_continue (s : state) : bool :=
  match request s with
  | Some q => a_expect q && a_hf q && negb (sent_continue s)
  | None => false
  end.

(* rest of a turn of `while data` after the send_continue test *)
Definition io_complete (s : state) (more : bool) : state * list label :=
  let '(s, l) :=
    match request s with
    | Some q =>
      if a_completed q then
        let s := s <| sent_continue := false |> in
        let '(s, l) :=
          if negb (a_empty q) then
            let s := s <| requests := requests s ++ [q] |> in
            if (length (requests s) =? 1)
            then (s <| queued := S (queued s) |>, [LQueue (rid q); LAddTask])
            else (s, [LQueue (rid q)])
          else (s, [LEmpty (rid q)]) in
        (s <| request := None |>, l)
      else (s, [])
    | None => (s, [])
    end in
  if more then (s <| io := IOLoop |>, l)
  else (s <| io := IOIdle |> <| rlock := false |>, l).

(* the part of send_continue after its first statement *)
Definition do_send (s : state) (by_worker : bool) : state * list label :=
  match request s with
  | Some q =>
    (s <| outlog := outlog s ++ [TInterim (rid q) by_worker] |> <| sent_continue := true |>,
     [LInterim (rid q) by_worker])
  | None => (s, [])     (* AttributeError on None: unreachable *)
  end.

Definition step (s : state) (c : choice) : option (state * list label) :=
  match c with
  | CIOEnter =>
    match io s with
    | IOIdle =>
      if rlock s then None
      else if will_close s || close_when_flushed s then Some (s, [LRefused])
      else Some (s <| rlock := true |> <| io := IOLoop |>, [])
    | _ => None
    end
  | CIOParse ev more =>
    match io s with
    | IOLoop =>
      let '(q0, fresh) := match request s with
                          | Some q => (q, false)
                          | None => (fresh_req (next_id s), true)
                          end in
      match astep q0 ev with
      | None => None
      | Some q1 =>
        let s := s <| request := Some q1 |> in
        let s := if fresh then s <| next_id := S (next_id s) |> else s in
        let s := if g_asked q1 then s <| askers := rid q1 :: askers s |> else s in
        let lnew := if fresh then [LNew (rid q1)] else [] in
        if wants_continue s && is_nil (requests s)
        then Some (s <| request := Some (q1 <| a_expect := false |>) |> <| io := IOSend more |>, lnew)
        else let '(s', l) := io_complete s more in Some (s', lnew ++ l)
      end
    | _ => None
    end
  | CIOSend =>
    match io s with
    | IOSend more =>
      let '(s1, l1) := do_send s false in
      let '(s2, l2) := io_complete s1 more in
      Some (s2, l1 ++ l2)
    | _ => None
    end
  | CTake =>
    match queued s with
    | 0 => None
    | S k => Some (s <| queued := k |> <| active := active s ++ [WStart] |>, [])
    end
  | CWBegin i =>
    match nth_error (active s) i with
    | Some WStart =>
      match requests s with
      | r :: _ => Some (s <| active := set_nth i (WTask (rid r)) (active s) |>, [LServe (rid r)])
      | [] => Some (s <| active := del_nth i (active s) |>, [])
      end
    | _ => None
    end
  | CWWrite i =>
    match nth_error (active s) i with
    | Some (WTask id) => Some (s <| outlog := outlog s ++ [TFinal id] |>, [LFinal id])
    | _ => None
    end
  | CWEnd i close =>
    match nth_error (active s) i with
    | Some (WTask id) =>
      Some (s <| active := set_nth i (if close then WClose else WKeep) (active s) |>, [])
    | _ => None
    end
  | CWClose i =>
    match nth_error (active s) i with
    | Some WClose =>
      if rlock s then None
      else Some (s <| close_when_flushed := true |> <| requests := [] |>
                   <| active := del_nth i (active s) |>, [LCloseDecision])
    | _ => None
    end
  | CWKeep i =>
    match nth_error (active s) i with
    | Some WKeep =>
      if rlock s then None
      else
        match requests s with
        | [] => Some (s <| active := del_nth i (active s) |>, [])
        | r :: rest =>
          let s := s <| requests := rest |> in
          if connected s && negb (is_nil rest)
          then Some (s <| queued := S (queued s) |> <| active := del_nth i (active s) |>,
                     [LPop (rid r); LAddTask])
          else if connected s && wants_continue s
          then match request s with
               | Some q =>
                 Some (s <| request := Some (q <| a_expect := false |>) |> <| rlock := true |>
                         <| active := set_nth i WSend (active s) |>, [LPop (rid r)])
               | None => None   (* excluded by wants_continue *)
               end
          else Some (s <| active := del_nth i (active s) |>, [LPop (rid r)])
        end
    | _ => None
    end
  | CWSend i =>
    match nth_error (active s) i with
    | Some WSend =>
      let '(s1, l1) := do_send s true in
      Some (s1 <| rlock := false |> <| active := del_nth i (active s1) |>, l1)
    | _ => None
    end
  | CDisconnect =>
    match io s with
    | IOIdle => Some (s <| connected := false |>, [])
    | _ => None
    end
  | CWillClose => Some (s <| will_close := true |>, [])
  end.

(* ---- executions ------------------------------------------------------- *)

Definition exec1 (sl : state * list label) (c : choice) : state * list label :=
  match step (fst sl) c with
  | Some (s', l) => (s', snd sl ++ l)
  | None => sl
  end.

Definition run_tr (sched : list choice) : state * list label := fold_left exec1 sched (init, []).
Definition run (sched : list choice) : state := fst (run_tr sched).
