(* Executable model of waitress.adjustments (casts, Adjustments.__init__,
   Adjustments.parse_args) and of the way runner.run feeds parse_args' result
   back into Adjustments.  A transliteration of the Python; the boolean
   decision formulas, the tables and the option-name maps are NOT written here:
   they come from Gen/GenAdjust.v, regenerated from the source on every run.
   No proofs in this file. *)
From Coq Require Import List NArith ZArith Bool.
From WV Require Import Lib.PyBytes Gen.GenAdjust.
Import ListNotations.
Local Open Scope N_scope.

Definition str := list N.

Inductive pyexn :=
  | ValueError | TypeError | AttributeError | KeyError
  | GetoptError | AppResolutionError
  | OutOfFuel      (* never produced: see Proof/AdjustCli.v getopt_fuel_enough *)
  | Unmodelled.    (* str() / iteration of a value the model does not represent *)
Inductive outcome (A : Type) := Ok (a : A) | Exn (e : pyexn).
Arguments Ok {A} a.
Arguments Exn {A} e.

(* ---- values handed to Adjustments(kw as keywords) and the resulting attribute values ---- *)

Inductive sfam := SfInet | SfInet6 | SfUnix | SfOther.
Inductive styp := StStream | StOther.
(* (isinstance(x, socket.socket), x.family, x.type) *)
Definition sock := (bool * sfam * styp)%type.

Inductive value :=
  | VNone | VBool (b : bool) | VInt (z : Z) | VStr (s : str) | VList (l : list str)
  | VSocks (l : list sock)
  | VApp (name : str) (call : bool).   (* result of resolve_wsgi_app(name, call) *)

(* (is_ipv6, host, port) : one entry of the final adj.listen *)
Definition addr := (bool * str * N)%type.

Inductive setting :=
  | SNone | SBool (b : bool) | SInt (z : Z) | SStr (s : str) | SList (l : list str)
  | SSet (l : list str)        (* a set: order irrelevant, no duplicates *)
  | SSocks (l : list sock)
  | SAddrs (l : list addr).

(* ---- names ---- *)
Definition k_host : str := [104;111;115;116].
Definition k_port : str := [112;111;114;116].
Definition k_listen : str := [108;105;115;116;101;110].
Definition k_ipv4 : str := [105;112;118;52].
Definition k_ipv6 : str := [105;112;118;54].
Definition k_trusted_proxy : str := [116;114;117;115;116;101;100;95;112;114;111;120;121].
Definition k_trusted_proxy_count : str := k_trusted_proxy ++ [95;99;111;117;110;116].
Definition k_trusted_proxy_headers : str := k_trusted_proxy ++ [95;104;101;97;100;101;114;115].
Definition k_sockets : str := [115;111;99;107;101;116;115].
Definition k_help : str := [104;101;108;112].
Definition k_call : str := [99;97;108;108].
Definition k_app : str := [97;112;112].

(* ---- dict (insertion ordered, assignment to an existing key keeps its place) ---- *)
Section Dict.
  Context {V : Type}.
  Fixpoint dict_get (k : str) (d : list (str * V)) : option V :=
    match d with
    | [] => None
    | (k', v) :: d' => if beqb k k' then Some v else dict_get k d'
    end.
  Fixpoint dict_set (k : str) (v : V) (d : list (str * V)) : list (str * V) :=
    match d with
    | [] => [(k, v)]
    | (k', v') :: d' => if beqb k k' then (k', v) :: d' else (k', v') :: dict_set k v d'
    end.
  Fixpoint dict_del (k : str) (d : list (str * V)) : list (str * V) :=
    match d with
    | [] => []
    | (k', v') :: d' => if beqb k k' then d' else (k', v') :: dict_del k d'
    end.
End Dict.

(* ---- str(v), bool(v) ---- *)
Definition z_to_dec (z : Z) : str :=
  match z with
  | Zneg p => 45 :: to_dec (Npos p)
  | _ => to_dec (Z.to_N z)
  end.

Definition py_str (v : value) : outcome str :=
  match v with
  | VNone => Ok [78;111;110;101]                 (* None *)
  | VBool true => Ok [84;114;117;101]            (* True *)
  | VBool false => Ok [70;97;108;115;101]        (* False *)
  | VInt z => Ok (z_to_dec z)
  | VStr s => Ok s
  | _ => Exn Unmodelled
  end.

Definition py_truth (v : value) : bool :=
  match v with
  | VNone => false
  | VBool b => b
  | VInt z => negb (Z.eqb z 0)
  | VStr s => match s with [] => false | _ => true end
  | VList l => match l with [] => false | _ => true end
  | VSocks l => match l with [] => false | _ => true end
  | VApp _ _ => true
  end.

(* ---- asbool ---- *)
Definition asbool (v : value) : outcome bool :=
  match v with
  | VNone => Ok false
  | VBool b => Ok b
  | _ => match py_str v with
         | Exn e => Exn e
         | Ok s => Ok (memstr (lower_latin1 (strip_by is_str_ws s)) truthy)
         end
  end.

(* ---- int(s), int(s, 8) ---- *)
(* what int() skips around the number: ASCII isspace, and every non-ASCII
   code point that str.isspace() accepts (they are mapped to ' ' first) *)
Definition is_int_ws (x : N) : bool :=
  ((9 <=? x) && (x <=? 13)) || (x =? 32) || ((128 <=? x) && is_str_ws x).

(* digits in [base] with single underscores between digits -> (value, number of digits) *)
Fixpoint digits_go (base : N) (s : str) (acc cnt : N) (prev_digit : bool) : option (N * N) :=
  match s with
  | [] => if prev_digit then Some (acc, cnt) else None
  | x :: s' =>
    if x =? 95 then (if prev_digit then digits_go base s' acc cnt false else None)
    else if (48 <=? x) && (x <? 48 + base) then digits_go base s' (base * acc + (x - 48)) (cnt + 1) true
    else None
  end.

Definition max_str_digits : N := 4300.

Definition parse_int (octal : bool) (s : str) : option Z :=
  let s1 := strip_by is_int_ws s in
  let '(neg, s2) := match s1 with
                    | 45 :: r => (true, r)
                    | 43 :: r => (false, r)
                    | _ => (false, s1)
                    end in
  let r :=
    if octal then
      match s2 with
      | 48 :: 111 :: r | 48 :: 79 :: r =>      (* 0o / 0O, an underscore may follow *)
        match digits_go 8 r 0 0 true with
        | Some (v, c) => if c =? 0 then None else Some v
        | None => None
        end
      | _ => match digits_go 8 s2 0 0 false with Some (v, _) => Some v | None => None end
      end
    else
      match digits_go 10 s2 0 0 false with
      | Some (v, c) => if max_str_digits <? c then None else Some v
      | None => None
      end in
  match r with
  | None => None
  | Some v => Some (if neg then Z.opp (Z.of_N v) else Z.of_N v)
  end.

Definition py_int (v : value) : outcome Z :=
  match v with
  | VInt z => Ok z
  | VBool b => Ok (if b then 1%Z else 0%Z)
  | VStr s => match parse_int false s with Some z => Ok z | None => Exn ValueError end
  | _ => Exn TypeError
  end.

Definition asoctal (v : value) : outcome Z :=
  match v with
  | VStr s => match parse_int true s with Some z => Ok z | None => Exn ValueError end
  | _ => Exn TypeError       (* int() can't convert non-string with explicit base *)
  end.

(* ---- str.splitlines(), aslist_cronly, aslist, asset ---- *)
Definition is_linebreak (x : N) : bool :=
  (x =? 10) || (x =? 11) || (x =? 12) || (x =? 13) || (x =? 28) || (x =? 29) || (x =? 30)
  || (x =? 133) || (x =? 8232) || (x =? 8233).

(* [after_cr]: the previous character was a CR that ended a line, so an LF
   here belongs to the same line break *)
Fixpoint splitlines_go (s cur : str) (after_cr : bool) : list str :=
  match s with
  | [] => match cur with [] => [] | _ => [rev cur] end
  | x :: s' =>
    if after_cr && (x =? 10) then splitlines_go s' cur false
    else if is_linebreak x then rev cur :: splitlines_go s' [] (x =? 13)
    else splitlines_go s' (x :: cur) false
  end.
Definition splitlines (s : str) : list str := splitlines_go s [] false.

Definition nonempty (s : str) : bool := match s with [] => false | _ => true end.

Definition aslist_cronly_str (s : str) : list str :=
  filter nonempty (map (strip_by is_str_ws) (splitlines s)).

Definition aslist_cronly (v : value) : outcome (list str) :=
  match v with
  | VStr s => Ok (aslist_cronly_str s)
  | VList l => Ok l
  | VSocks _ | VApp _ _ => Exn Unmodelled
  | _ => Exn TypeError          (* list(None), list(5): not iterable *)
  end.

Definition aslist_of_lines (l : list str) : list str := flat_map (split_ws is_str_ws) l.
Definition aslist_str (s : str) : list str := aslist_of_lines (aslist_cronly_str s).

Definition aslist (v : value) : outcome (list str) :=
  match aslist_cronly v with
  | Exn e => Exn e
  | Ok l => Ok (aslist_of_lines l)
  end.

Fixpoint dedup (l : list str) : list str :=
  match l with
  | [] => []
  | x :: l' => if memstr x l' then dedup l' else x :: dedup l'
  end.

Definition asset (v : value) : outcome (list str) :=
  match aslist v with Exn e => Exn e | Ok l => Ok (dedup l) end.

(* ---- slash_fixed_str, str_iftruthy, as_socket_list ---- *)
Definition is_slash (x : N) : bool := x =? 47.

Definition slash_fixed_str (v : value) : outcome str :=
  match v with
  | VStr s =>
    let s := strip_by is_str_ws s in
    match s with
    | [] => Ok s
    | _ => Ok (47 :: rstrip_by is_slash (lstrip_by is_slash s))
    end
  | _ => Exn AttributeError      (* no .strip() *)
  end.

Definition str_iftruthy (v : value) : outcome setting :=
  if py_truth v then match py_str v with Ok s => Ok (SStr s) | Exn e => Exn e end
  else Ok SNone.

Definition as_socket_list (v : value) : outcome (list sock) :=
  match v with
  | VSocks l => Ok (filter (fun s => fst (fst s)) l)
  | VList _ | VStr _ => Ok []        (* iterable, no element is a socket *)
  | VApp _ _ => Exn Unmodelled
  | _ => Exn TypeError
  end.

Definition lift {A B} (f : A -> B) (o : outcome A) : outcome B :=
  match o with Ok a => Ok (f a) | Exn e => Exn e end.

Definition cast_value (c : cast) (v : value) : outcome setting :=
  match c with
  | CStr => lift SStr (py_str v)
  | CInt => lift SInt (py_int v)
  | CBool => lift SBool (asbool v)
  | CList => lift SList (aslist v)
  | CStrIfTruthy => str_iftruthy v
  | CSet => lift SSet (asset v)
  | CSlash => lift SStr (slash_fixed_str v)
  | COctal => lift SInt (asoctal v)
  | CSockets => lift SSocks (as_socket_list v)
  end.

(* ---- Adjustments.__init__ ---- *)
Definition castof (name : str) : option cast := dict_get name params.

Definition kwargs := list (str * value).
Definition attrs := list (str * setting).

(* for k, v in kw.items(): ... setattr(self, k, self._param_map[k](v)) *)
Fixpoint assign_loop (kw : kwargs) (acc : attrs) : outcome attrs :=
  match kw with
  | [] => Ok acc
  | (k, v) :: rest =>
    match castof k with
    | None => if assign_loop_standard then Exn ValueError else Exn KeyError
    | Some c =>
      match cast_value c v with
      | Exn e => Exn e
      | Ok s => assign_loop rest (dict_set k s acc)
      end
    end
  end.

(* what the process sees of its platform *)
Record env := { has_ipv6 : bool; has_af_unix : bool }.

(* The stand-in for socket.getaddrinfo used by the correspondence harness
   (harness/adjust.py fake_getaddrinfo): numeric ports 0..65535 only; host None
   (the wildcard) yields 0.0.0.0 and ::, any other host yields itself, IPv6 iff
   it contains a colon; entries outside the requested family are dropped and an
   empty answer is an error. *)
Definition all_digits (s : str) : bool := forallb is_digit s.
Definition gai (host : option str) (port : str) (fam : family) : option (list addr) :=
  if nonempty port && all_digits port && (Nat.leb (length port) 5) && (dec_value port <=? 65535) then
    let p := dec_value port in
    let cands := match host with
                 | None => [(false, [48;46;48;46;48;46;48]); (true, [58;58])]
                 | Some h => [(memb 58 h, h)]
                 end in
    let keep (c : bool * str) := match fam with
                                 | FamUnspec => true
                                 | FamInet => negb (fst c)
                                 | FamInet6 => fst c
                                 end in
    match filter keep cands with
    | [] => None
    | out => Some (map (fun c => (fst c, snd c, p)) out)
    end
  else None.

Definition hp_eqb (a b : str * N) : bool := beqb (fst a) (fst b) && (snd a =? snd b).

(* for s in getaddrinfo(...): de-duplicate on (host without %zone, port) unless port == 0 *)
Fixpoint gai_loop (res : list addr) (wanted : list addr) (hp : list (str * N)) : list addr * list (str * N) :=
  match res with
  | [] => (wanted, hp)
  | (v6, h, p) :: res' =>
    let key := (hd [] (split1 h [37]), p) in
    if (p =? 0) || negb (existsb (hp_eqb key) hp)
    then gai_loop res' (wanted ++ [(v6, h, p)]) (hp ++ [key])
    else gai_loop res' wanted hp
  end.

Definition is_lbracket (x : N) : bool := x =? 91.
Definition is_rbracket (x : N) : bool := x =? 93.

(* for i in self.listen: ... *)
Fixpoint listen_loop (items : list str) (portstr : str) (fam : family)
         (wanted : list addr) (hp : list (str * N)) : outcome (list addr) :=
  match items with
  | [] => Ok wanted
  | i :: items' =>
    let '(host, port) :=
      if memb 58 i then
        match rsplit1 i [58] with
        | [h; p] => if memb 93 p then (i, portstr) else (h, p)
        | _ => (i, portstr)
        end
      else (i, portstr) in
    let host := if memb 91 host && memb 93 host
                then rstrip_by is_rbracket (strip_by is_lbracket host) else host in
    let host := if beqb host [42] then None else Some host in
    match gai host port fam with
    | None => Exn ValueError
    | Some res => let '(w, h) := gai_loop res wanted hp in listen_loop items' portstr fam w h
    end
  end.

Definition get_bool (k : str) (a : attrs) (d : bool) : bool :=
  match dict_get k a with Some (SBool b) => b | _ => d end.

Definition sock_flags (e : env) (s : sock) : bool * bool * bool * bool * bool :=
  let '(_, f, t) := s in
  ((match f with SfInet => true | _ => false end,
    match f with SfInet6 => true | _ => false end,
    match f with SfUnix => true | _ => false end,
    match t with StStream => true | _ => false end), has_af_unix e).

Definition sock_is (g : bool -> bool -> bool -> bool -> bool -> bool) (e : env) (s : sock) : bool :=
  let '(a, b, c, d, h) := sock_flags e s in g a b c d h.

(* Adjustments.check_sockets *)
Definition check_sockets (e : env) (l : list sock) : bool :=
  socks_refused (existsb (sock_is sock_unix e) l) (existsb (sock_is sock_inet e) l)
                (existsb (sock_is sock_unsup e) l).

Definition nonempty_l {A} (l : list A) : bool := match l with [] => false | _ => true end.

Definition lowered_headers (l : list str) : list str := dedup (map lower_latin1 l).

(* trusted_proxy_count as assigned by the cast loop (int() always yields an int) *)
Definition attr_count (a : attrs) : option Z :=
  match dict_get k_trusted_proxy_count a with Some (SInt z) => Some z | _ => None end.

(* the seven atoms the generated proxy formulas read *)
Definition proxy_atoms (a : attrs) : bool * bool * bool * bool * bool * bool * bool :=
  let tp_none := match dict_get k_trusted_proxy a with
                 | None => defaults_proxy_and_sockets_empty
                 | Some SNone => true
                 | Some _ => false
                 end in
  let tpc_none := match attr_count a with None => true | Some _ => false end in
  let count_below := match attr_count a with Some z => Z.ltb z proxy_min_count | None => false end in
  let hdrs := match dict_get k_trusted_proxy_headers a with Some (SSet l) => l | _ => [] end in
  let low := lowered_headers hdrs in
  (tp_none, tpc_none, count_below, nonempty_l hdrs,
   existsb (fun h => negb (memstr h known_proxy_headers)) low,
   memstr proxy_forwarded_name low,
   existsb (fun h => negb (beqb h proxy_forwarded_name)) low).

Definition construct (e : env) (kw : kwargs) : outcome attrs :=
  let present := fun n => memstr n (map fst kw) in
  if excl present then Exn ValueError else
  match assign_loop kw [] with
  | Exn x => Exn x
  | Ok a =>
    let host_marker := match dict_get k_host a with None => true | Some _ => false end in
    let port_marker := match dict_get k_port a with None => true | Some _ => false end in
    let host := match dict_get k_host a with Some (SStr h) => h | _ => default_host end in
    let portstr := match dict_get k_port a with Some (SInt p) => z_to_dec p | _ => to_dec default_port end in
    let listen :=
      if hostport_override host_marker port_marker then [host ++ [58] ++ portstr]
      else match dict_get k_listen a with
           | Some (SList l) => l
           | _ => [default_host ++ [58] ++ to_dec default_port]
           end in
    let ipv4 := get_bool k_ipv4 a default_ipv4 in
    let ipv6 := get_bool k_ipv6 a default_ipv6 in
    if families_refused ipv4 ipv6 (has_ipv6 e) then Exn ValueError else
    let fam := families_value ipv4 ipv6 (has_ipv6 e) in
    match listen_loop listen portstr fam [] [] with
    | Exn x => Exn x
    | Ok wanted =>
      let '(tp_none, tpc_none, cb, hn, hu, hf, ho) := proxy_atoms a in
      if proxy_refused tp_none tpc_none cb hn hu hf ho then Exn ValueError else
      let a := if proxy_count_defaulted tp_none tpc_none cb hn hu hf ho
               then dict_set k_trusted_proxy_count (SInt (Z.of_N proxy_default_count)) a else a in
      let hdrs := match dict_get k_trusted_proxy_headers a with Some (SSet l) => l | _ => [] end in
      let a := if proxy_headers_defaulted tp_none tpc_none cb hn hu hf ho
               then dict_set k_trusted_proxy_headers (SSet proxy_default_headers) a
               else if hn then dict_set k_trusted_proxy_headers (SSet (lowered_headers hdrs)) a
               else a in
      let a := dict_set k_listen (SAddrs wanted) a in
      let socks := match dict_get k_sockets a with Some (SSocks l) => l | _ => [] end in
      if check_sockets e socks then Exn ValueError else Ok a
    end
  end.

(* ---- getopt.getopt(argv, "", long_opts) : CPython 3.12 Lib/getopt.py ---- *)
Definition long_has_args (opt : str) (longopts : list str) : outcome (bool * str) :=
  let poss := filter (fun o => startswith o opt) longopts in
  match poss with
  | [] => Exn GetoptError
  | _ =>
    if memstr opt poss then Ok (false, opt)
    else if memstr (opt ++ [61]) poss then Ok (true, opt)
    else match poss with
         | [u] => if endswith u [61] then Ok (true, removelast u) else Ok (false, u)
         | _ => Exn GetoptError
         end
  end.

Definition dashdash : str := [45;45].

Definition do_longs (opt0 : str) (longopts : list str) (args : list str)
  : outcome ((str * str) * list str) :=
  let '(opt, optarg) := match find opt0 [61] with
                        | None => (opt0, None)
                        | Some i => (firstn i opt0, Some (skipn (S i) opt0))
                        end in
  match long_has_args opt longopts with
  | Exn e => Exn e
  | Ok (has_arg, opt') =>
    if has_arg then
      match optarg with
      | Some a => Ok ((dashdash ++ opt', a), args)
      | None => match args with
                | [] => Exn GetoptError
                | a :: args' => Ok ((dashdash ++ opt', a), args')
                end
      end
    else match optarg with
         | Some _ => Exn GetoptError
         | None => Ok ((dashdash ++ opt', []), args)
         end
  end.

Fixpoint getopt_go (fuel : nat) (args : list str) (longopts : list str) (opts : list (str * str))
  : outcome (list (str * str) * list str) :=
  match fuel with
  | O => Exn OutOfFuel
  | S f =>
    match args with
    | [] => Ok (rev opts, [])
    | a :: rest =>
      if startswith a [45] && negb (beqb a [45]) then
        if beqb a dashdash then Ok (rev opts, rest)
        else if startswith a dashdash then
          match do_longs (skipn 2 a) longopts rest with
          | Exn e => Exn e
          | Ok (o, args') => getopt_go f args' longopts (o :: opts)
          end
        else Exn GetoptError      (* do_shorts with shortopts "": nothing is recognised *)
      else Ok (rev opts, args)
    end
  end.
Definition getopt (args : list str) (longopts : list str) :=
  getopt_go (S (length args)) args longopts [].

(* ---- Adjustments.parse_args ---- *)
Definition initial_kw : kwargs :=
  map (fun p => (fst p, match snd p with IFalse => VBool false | INone => VNone end)) cli_initial_kw.

Fixpoint pa_loop (opts : list (str * str)) (kw : kwargs) (app : option str)
  : outcome (kwargs * option str) :=
  match opts with
  | [] => Ok (kw, app)
  | (opt, value) :: rest =>
    let param := cli_unmangle opt in
    match cli_classify castof param with
    | None => Exn KeyError
    | Some (ActAccum sep dflt) =>
      match (match dict_get param kw with
             | None => Ok dflt
             | Some v => py_str v
             end) with
      | Exn e => Exn e
      | Ok old => pa_loop rest (dict_set param (VStr (old ++ sep ++ value)) kw) app
      end
    | Some (ActStripPrefix n v) => pa_loop rest (dict_set (skipn n param) (VStr v) kw) app
    | Some ActSetTrue => pa_loop rest (dict_set param (VBool true) kw) app
    | Some ActApp => pa_loop rest kw (Some value)
    | Some (ActConst v) => pa_loop rest (dict_set param (VStr v) kw) app
    | Some ActValue => pa_loop rest (dict_set param (VStr value) kw) app
    end
  end.

Definition kw_flag (k : str) (kw : kwargs) : bool :=
  match dict_get k kw with Some v => py_truth v | None => false end.

Definition parse_args (argv : list str) : outcome kwargs :=
  match getopt argv cli_long_opts with
  | Exn e => Exn e
  | Ok (opts, args) =>
    match pa_loop opts initial_kw None with
    | Exn e => Exn e
    | Ok (kw, app) =>
      if negb (kw_flag k_help kw) then
        let '(app, args) := match app, args with
                            | None, a :: r => (Some a, r)
                            | _, _ => (app, args)
                            end in
        match app with
        | None => Exn AppResolutionError          (* Specify an application *)
        | Some a =>
          match args with
          | _ :: _ => Exn AppResolutionError      (* Provide only one WSGI app *)
          | [] => Ok (dict_del k_call (dict_set k_app (VApp a (kw_flag k_call kw)) kw))
          end
        end
      else Ok (dict_del k_call kw)
    end
  end.

(* runner.run: help -> print and stop (None); otherwise del kw["help"], kw["app"]
   and serve(app, **kw), i.e. Adjustments(kw as keywords) *)
Definition cli_construct (e : env) (argv : list str) : outcome (option attrs) :=
  match parse_args argv with
  | Exn x => Exn x
  | Ok kw =>
    if kw_flag k_help kw then Ok None
    else lift Some (construct e (dict_del k_app (dict_del k_help kw)))
  end.
