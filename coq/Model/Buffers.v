(* Model of /repo/src/waitress/buffers.py (executable; no proofs here).

   A transliteration of FileBasedBuffer, BytesIOBasedBuffer, TempfileBasedBuffer,
   ReadOnlyFileBasedBuffer and OverflowableBuffer, restricted to the methods the
   server issues (channel.py, receiver.py, parser.py, task.py):
     __len__, append, get(numbytes, skip), skip(numbytes, allow_prune), getfile,
     close, ReadOnlyFileBasedBuffer.prepare(size).
   prune() is outside property C17 and is not modelled.

   A file object (io.BytesIO or tempfile.TemporaryFile("w+b")) is a record
   (content, pos, closed) with the real seek / tell / read / write semantics.
   Python ints are Z; byte strings are [list N]; lengths and file offsets are nat.
   STRBUF_LIMIT and the overflow threshold are parameters (N) of every function
   that reads them.  Exceptions are values; the Python mutates objects in place,
   so the functions of OverflowableBuffer return the state reached *and* the
   outcome (a raise after _create_buffer() leaves the migrated state behind).

   Domain: skip(numbytes) with numbytes >= 0 (the channel passes the positive
   return value of send); ReadOnlyFileBasedBuffer.get with numbytes >= -1 on a
   seekable file. *)
From Coq Require Import List NArith ZArith Bool.
From WV Require Import Lib.PyBytes.
Import ListNotations.
Local Open Scope Z_scope.

Inductive exn :=
| ValueErrorSkip      (* ValueError("Can't skip %d bytes in buffer of %d bytes") *)
| ValueErrorClosed    (* ValueError("I/O operation on closed file") *)
| OSFault.            (* an exception raised by the operating system / allocator inside a file
                         operation (OSError EMFILE / ENOSPC / EACCES, MemoryError): see [fault] *)

Inductive outcome (A : Type) := Ok (a : A) | Exn (e : exn).
Arguments Ok {A} a.
Arguments Exn {A} e.

Definition lenZ (s : bytes) : Z := Z.of_nat (length s).

(* ---------------------------------------------------------------- files --- *)

Record file := mkfile { f_content : bytes; f_pos : nat; f_closed : bool }.

Definition newfile : file := mkfile [] 0 false.            (* BytesIO() / TemporaryFile("w+b") *)
Definition f_tell (f : file) : nat := f_pos f.
Definition f_seek_set (f : file) (p : nat) : file := mkfile (f_content f) p (f_closed f).   (* seek(p) *)
Definition f_seek_end (f : file) : file := f_seek_set f (length (f_content f)).             (* seek(0, 2) *)
Definition f_seek_cur (f : file) (n : nat) : file := f_seek_set f (f_pos f + n).            (* seek(n, 1), n >= 0 *)

(* read(n), n >= 0: at most n bytes from pos, pos advances by what was read;
   at or beyond the end nothing is read and pos stays *)
Definition f_read_n (f : file) (n : nat) : bytes * file :=
  let r := firstn n (skipn (f_pos f) (f_content f)) in
  (r, f_seek_set f (f_pos f + length r)).
(* read() *)
Definition f_read_all (f : file) : bytes * file :=
  let r := skipn (f_pos f) (f_content f) in
  (r, f_seek_set f (f_pos f + length r)).
(* read(n) for a Python int: negative means read() *)
Definition f_read (f : file) (n : Z) : bytes * file :=
  if n <? 0 then f_read_all f else f_read_n f (Z.to_nat n).

(* write(s) at pos: overwrites, then extends; a gap beyond the end is zero filled *)
Definition f_write (f : file) (s : bytes) : file :=
  let c := f_content f in
  let p := f_pos f in
  mkfile (firstn p c ++ repeat 0%N (p - length c) ++ s ++ skipn (p + length s) c)
         (p + length s) (f_closed f).

Definition f_close (f : file) : file := mkfile (f_content f) (f_pos f) true.

(* ------------------------------------------------------ FileBasedBuffer --- *)

Inductive kind := KBio | KTmp | KRo.   (* BytesIOBasedBuffer | TempfileBasedBuffer | ReadOnlyFileBasedBuffer *)

Record fbuf := mkfbuf { fb_kind : kind; fb_file : file; fb_remain : Z }.

(* Operating-system faults at a representation change.  The operations of
   OverflowableBuffer take a [fault] that says what the environment does while
   the operation constructs and fills a new file based buffer:
     FNone         nothing fails (the ordinary semantics; [step] is [step_f FNone]);
     FCtor k       creating the file object of a buffer of kind k raises
                   (KTmp: TemporaryFile() with EMFILE / ENOSPC / EACCES; KBio: BytesIO()
                   with MemoryError) -- self.newfile() / BytesIO() is evaluated before
                   anything else happens in the constructor;
     FCopyWrite    the first file.write(data) of the copy loop raises (ENOSPC while
                   spilling to disk);
     FCreateWrite  the file.write of _create_buffer's buf.append(self.strbuf) raises;
     FAppendWrite  the file.write of OverflowableBuffer.append's buf.append(s) raises.
   The model copies in one chunk, so FCopyWrite stands for the real code whenever
   the source holds at most COPY_BYTES bytes.  The compensating actions of the
   code (the seek back in a finally block, close() in an except block) do not fail. *)
Inductive fault := FNone | FCtor (k : kind) | FCopyWrite | FCreateWrite | FAppendWrite.

Definition kind_eqb (a b : kind) : bool :=
  match a, b with KBio, KBio | KTmp, KTmp | KRo, KRo => true | _, _ => false end.

Definition ctor_fails (flt : fault) (k : kind) : bool :=
  match flt with FCtor k' => kind_eqb k' k | _ => false end.

(* the constructor either returns the new buffer or raises, and then the source
   buffer (which the Python mutates in place) is what it has become *)
Inductive init_result := InitOk (nb : fbuf) | InitExn (e : exn) (old : option fbuf).

(* FileBasedBuffer.__init__(file, from_buffer) with file = self.newfile()
   (BytesIOBasedBuffer(from_buffer) / TempfileBasedBuffer(from_buffer));
   the COPY_BYTES loop copies the whole source file *)
Definition fb_init (flt : fault) (k : kind) (from_buffer : option fbuf) : init_result :=
  if ctor_fails flt k then InitExn OSFault from_buffer   (* self.newfile() / BytesIO() raises *)
  else
  let file := newfile in
  match from_buffer with
  | None => InitOk (mkfbuf k file 0)                   (* class attribute remain = 0 *)
  | Some ob =>
    let from_file := fb_file ob in                     (* from_buffer.getfile() *)
    if f_closed from_file then InitExn ValueErrorClosed from_buffer else
    let read_pos := f_tell from_file in
    let from_file := f_seek_set from_file 0 in
    let '(data, from_file) := f_read_all from_file in  (* try: while True: read(COPY_BYTES) ... write *)
    match flt, data with
    | FCopyWrite, _ :: _ =>                            (* file.write(data) raises *)
      let from_file := f_seek_set from_file read_pos in  (* finally: from_file.seek(read_pos) *)
      InitExn OSFault (Some (mkfbuf (fb_kind ob) from_file (fb_remain ob)))
    | _, _ =>
      let file := f_write file data in
      let from_file := f_seek_set from_file read_pos in  (* finally: from_file.seek(read_pos) *)
      let remain := Z.of_nat (f_tell file) - Z.of_nat read_pos in
      let file := f_seek_set file read_pos in
      InitOk (mkfbuf k file remain)
    end
  end.

Definition fb_len (b : fbuf) : Z := fb_remain b.

(* [write_fails]: file.write(s) raises (see [fault]); the finally block seeks back *)
Definition fb_append (write_fails : bool) (b : fbuf) (s : bytes) : outcome fbuf :=
  let file := fb_file b in
  if f_closed file then Exn ValueErrorClosed else
  let read_pos := f_tell file in
  let file := f_seek_end file in
  if write_fails then                                  (* try: file.write(s) raises *)
    let file := f_seek_set file read_pos in            (* finally: file.seek(read_pos) *)
    Exn OSFault                                        (* the buffer object is as it was *)
  else
  let file := f_write file s in
  let file := f_seek_set file read_pos in              (* finally: file.seek(read_pos) *)
  Ok (mkfbuf (fb_kind b) file (fb_remain b + lenZ s)).

Definition is_create_write (flt : fault) : bool := match flt with FCreateWrite => true | _ => false end.
Definition is_append_write (flt : fault) : bool := match flt with FAppendWrite => true | _ => false end.

Definition fb_get (b : fbuf) (numbytes : Z) (skip : bool) : outcome (fbuf * bytes) :=
  let file := fb_file b in
  if f_closed file then Exn ValueErrorClosed else
  let read_pos := f_tell file in                       (* only used when not skip *)
  let '(res, file) := if numbytes <? 0 then f_read_all file else f_read_n file (Z.to_nat numbytes) in
  if skip then Ok (mkfbuf (fb_kind b) file (fb_remain b - lenZ res), res)
  else Ok (mkfbuf (fb_kind b) (f_seek_set file read_pos) (fb_remain b), res).

Definition fb_skip (b : fbuf) (numbytes : N) : outcome fbuf :=
  if fb_remain b <? Z.of_N numbytes then Exn ValueErrorSkip else
  let file := fb_file b in
  if f_closed file then Exn ValueErrorClosed else
  Ok (mkfbuf (fb_kind b) (f_seek_cur file (N.to_nat numbytes)) (fb_remain b - Z.of_N numbytes)).

Definition fb_getfile (b : fbuf) : file := fb_file b.

Definition fb_close (b : fbuf) : fbuf := mkfbuf (fb_kind b) (f_close (fb_file b)) 0.

(* ---------------------------------------------- ReadOnlyFileBasedBuffer --- *)

Definition ro_init (f : file) : fbuf := mkfbuf KRo f 0.

(* prepare(size) on a seekable file; returns self.remain *)
Definition ro_prepare (b : fbuf) (size : option Z) : outcome (fbuf * Z) :=
  let file := fb_file b in
  if f_closed file then Exn ValueErrorClosed else       (* file.seekable() raises *)
  let start_pos := f_tell file in
  let file := f_seek_end file in
  let end_pos := f_tell file in
  let file := f_seek_set file start_pos in
  let fsize := Z.of_nat end_pos - Z.of_nat start_pos in
  let remain := match size with None => fsize | Some sz => Z.min fsize sz end in
  Ok (mkfbuf (fb_kind b) file remain, remain).

Definition ro_get (b : fbuf) (numbytes : Z) (skip : bool) : outcome (fbuf * bytes) :=
  let numbytes := if (numbytes =? -1) || (numbytes >? fb_remain b) then fb_remain b else numbytes in
  let file := fb_file b in
  if f_closed file then Exn ValueErrorClosed else
  let read_pos := f_tell file in
  let '(res, file) := f_read file numbytes in
  if skip then Ok (mkfbuf (fb_kind b) file (fb_remain b - lenZ res), res)
  else Ok (mkfbuf (fb_kind b) (f_seek_set file read_pos) (fb_remain b), res).

(* skip, __len__, close are inherited: fb_skip, fb_len, fb_close *)

(* --------------------------------------------------- OverflowableBuffer --- *)

Record obuf := mkobuf { ob_buf : option fbuf; ob_strbuf : bytes; ob_overflowed : bool }.

Definition o_new : obuf := mkobuf None [] false.

Definition o_len (o : obuf) : Z :=
  match ob_buf o with
  | Some buf => fb_len buf
  | None => lenZ (ob_strbuf o)
  end.

(* oldbuf.close() happens on an object that is dropped; it is not part of the
   state.  When the constructor raises, self.buf has not been assigned: it is
   still the old buffer (as the failed constructor left it). *)
Definition o_set_small_buffer (flt : fault) (o : obuf) : obuf * outcome fbuf :=
  let oldbuf := ob_buf o in
  match fb_init flt KBio oldbuf with
  | InitExn e old => (mkobuf old (ob_strbuf o) (ob_overflowed o), Exn e)
  | InitOk nb => (mkobuf (Some nb) (ob_strbuf o) false, Ok nb)
  end.

Definition o_set_large_buffer (flt : fault) (o : obuf) : obuf * outcome fbuf :=
  let oldbuf := ob_buf o in
  match fb_init flt KTmp oldbuf with
  | InitExn e old => (mkobuf old (ob_strbuf o) (ob_overflowed o), Exn e)
  | InitOk nb => (mkobuf (Some nb) (ob_strbuf o) true, Ok nb)
  end.

Definition o_create_buffer (flt : fault) (overflow : N) (o : obuf) : obuf * outcome fbuf :=
  let strbuf := ob_strbuf o in
  let '(o1, r) := if lenZ strbuf >=? Z.of_N overflow
                  then o_set_large_buffer flt o else o_set_small_buffer flt o in
  match r with
  | Exn e => (o1, Exn e)
  | Ok buf =>
    match strbuf with
    | [] => (o1, Ok buf)
    | _ :: _ =>
      match fb_append (is_create_write flt) buf (ob_strbuf o1) with
      | Exn e =>
        (* except BaseException: self.buf = None; self.overflowed = False; buf.close(); raise *)
        (mkobuf None (ob_strbuf o1) false, Exn e)
      | Ok buf' => (mkobuf (Some buf') [] (ob_overflowed o1), Ok buf')
      end
    end
  end.

(* the part of append() after "buf" is known: buf.append(s) and the overflow test *)
Definition o_append_tail (flt : fault) (overflow : N) (s : bytes) (o1 : obuf) (buf : fbuf) : obuf * outcome unit :=
  match fb_append (is_append_write flt) buf s with
  | Exn e => (o1, Exn e)
  | Ok buf' =>
    let o2 := mkobuf (Some buf') (ob_strbuf o1) (ob_overflowed o1) in
    let sz := fb_len buf' in
    if negb (ob_overflowed o2) then
      if sz >=? Z.of_N overflow then
        match o_set_large_buffer flt o2 with
        | (o3, Exn e) => (o3, Exn e)
        | (o3, Ok _) => (o3, Ok tt)
        end
      else (o2, Ok tt)
    else (o2, Ok tt)
  end.

(* append() on plain bytes may construct two buffers (_create_buffer, then the
   overflow test): FCtor k hits the first construction of kind k, FCopyWrite the
   first construction that copies, which is the second one. *)
Definition o_append (flt : fault) (limit overflow : N) (o : obuf) (s : bytes) : obuf * outcome unit :=
  match ob_buf o with
  | None =>
    let strbuf := ob_strbuf o in
    if lenZ strbuf + lenZ s <? Z.of_N limit then
      (mkobuf None (strbuf ++ s) (ob_overflowed o), Ok tt)
    else
      match o_create_buffer flt overflow o with
      | (o1, Exn e) => (o1, Exn e)
      | (o1, Ok buf) => o_append_tail flt overflow s o1 buf
      end
  | Some buf => o_append_tail flt overflow s o buf
  end.

(* return buf.get(numbytes, skip) *)
Definition o_get_tail (numbytes : Z) (skip : bool) (o1 : obuf) (buf : fbuf) : obuf * outcome bytes :=
  match fb_get buf numbytes skip with
  | Exn e => (o1, Exn e)
  | Ok (buf', res) => (mkobuf (Some buf') (ob_strbuf o1) (ob_overflowed o1), Ok res)
  end.

Definition o_get (flt : fault) (overflow : N) (o : obuf) (numbytes : Z) (skip : bool) : obuf * outcome bytes :=
  match ob_buf o with
  | None =>
    let strbuf := ob_strbuf o in
    if negb skip then (o, Ok strbuf)
    else
      match o_create_buffer flt overflow o with
      | (o1, Exn e) => (o1, Exn e)
      | (o1, Ok buf) => o_get_tail numbytes skip o1 buf
      end
  | Some buf => o_get_tail numbytes skip o buf
  end.

(* buf.skip(numbytes, allow_prune) *)
Definition o_skip_tail (numbytes : N) (o1 : obuf) (buf : fbuf) : obuf * outcome unit :=
  match fb_skip buf numbytes with
  | Exn e => (o1, Exn e)
  | Ok buf' => (mkobuf (Some buf') (ob_strbuf o1) (ob_overflowed o1), Ok tt)
  end.

Definition o_skip (flt : fault) (overflow : N) (o : obuf) (numbytes : N) (allow_prune : bool) : obuf * outcome unit :=
  match ob_buf o with
  | None =>
    if allow_prune && (Z.of_N numbytes =? lenZ (ob_strbuf o)) then
      (mkobuf None [] (ob_overflowed o), Ok tt)
    else
      match o_create_buffer flt overflow o with
      | (o1, Exn e) => (o1, Exn e)
      | (o1, Ok buf) => o_skip_tail numbytes o1 buf
      end
  | Some buf => o_skip_tail numbytes o buf
  end.

Definition o_getfile (flt : fault) (overflow : N) (o : obuf) : obuf * outcome file :=
  match ob_buf o with
  | None =>
    match o_create_buffer flt overflow o with
    | (o1, Exn e) => (o1, Exn e)
    | (o1, Ok buf) => (o1, Ok (fb_getfile buf))
    end
  | Some buf => (o, Ok (fb_getfile buf))
  end.

Definition o_close (o : obuf) : obuf :=
  match ob_buf o with
  | Some buf => mkobuf (Some (fb_close buf)) (ob_strbuf o) (ob_overflowed o)
  | None => o
  end.

(* -------------------------------- the operations the server issues, as data *)

Inductive op :=
| OAppend (s : bytes)
| OGet (numbytes : Z) (skip : bool)
| OSkip (numbytes : N) (allow_prune : bool)
| OLen
| OGetFile
| OClose.

Inductive out :=
| RUnit
| RBytes (b : bytes)
| RLen (n : Z)
| RFile (f : file)
| RExn (e : exn).

Definition lift {A} (f : A -> out) (r : outcome A) : out :=
  match r with Ok a => f a | Exn e => RExn e end.

(* one operation; [flt] is what the environment does while the operation
   constructs a new file based buffer, should it construct one *)
Definition step_f (flt : fault) (limit overflow : N) (o : obuf) (p : op) : obuf * out :=
  match p with
  | OAppend s => let '(o', r) := o_append flt limit overflow o s in (o', lift (fun _ => RUnit) r)
  | OGet n sk => let '(o', r) := o_get flt overflow o n sk in (o', lift RBytes r)
  | OSkip n ap => let '(o', r) := o_skip flt overflow o n ap in (o', lift (fun _ => RUnit) r)
  | OLen => (o, RLen (o_len o))
  | OGetFile => let '(o', r) := o_getfile flt overflow o in (o', lift RFile r)
  | OClose => (o_close o, RUnit)
  end.

(* the ordinary semantics: nothing fails *)
Definition step (limit overflow : N) (o : obuf) (p : op) : obuf * out := step_f FNone limit overflow o p.

(* a history: the state reached and the outputs, in order *)
Fixpoint run (limit overflow : N) (o : obuf) (ops : list op) : obuf * list out :=
  match ops with
  | [] => (o, [])
  | p :: ops' =>
    let '(o1, r) := step limit overflow o p in
    let '(o2, rs) := run limit overflow o1 ops' in
    (o2, r :: rs)
  end.

(* the state reached, as a fold over the history *)
Definition exec (limit overflow : N) (o : obuf) (ops : list op) : obuf :=
  fold_left (fun o p => fst (step limit overflow o p)) ops o.

(* operations on a ReadOnlyFileBasedBuffer after prepare() *)
Inductive ro_op :=
| ROGet (numbytes : Z) (skip : bool)
| ROSkip (numbytes : N)
| ROLen.

Definition ro_step (b : fbuf) (p : ro_op) : fbuf * out :=
  match p with
  | ROGet n sk =>
    match ro_get b n sk with
    | Ok (b', res) => (b', RBytes res)
    | Exn e => (b, RExn e)
    end
  | ROSkip n =>
    match fb_skip b n with
    | Ok b' => (b', RUnit)
    | Exn e => (b, RExn e)
    end
  | ROLen => (b, RLen (fb_len b))
  end.

Definition ro_exec (b : fbuf) (ops : list ro_op) : fbuf :=
  fold_left (fun b p => fst (ro_step b p)) ops b.

(* representation tag, for the correspondence and for the statements *)
Inductive rep := Str (s : bytes) | Bio (f : file) (remain : Z) | Tmp (f : file) (remain : Z).

Definition rep_of (o : obuf) : rep :=
  match ob_buf o with
  | None => Str (ob_strbuf o)
  | Some b => match fb_kind b with
              | KTmp => Tmp (fb_file b) (fb_remain b)
              | _ => Bio (fb_file b) (fb_remain b)
              end
  end.
