(* waitress/parser.py: HTTPRequestParser, transliterated. *)
From Coq Require Import List NArith ZArith Bool.
From RecordUpdate Require Import RecordUpdate.
From WV Require Import Lib.PyBytes Lib.Regex Gen.GenRegex Model.Receiver Model.UrlSplit.
Import ListNotations.
Local Open Scope N_scope.

Record adj := {
  max_request_header_size : N;
  max_request_body_size : N;
  adj_url_scheme : bytes
}.

Inductive body_rcv :=
| BFixed (f : fixed_rcv)
| BChunked (c : chunked_rcv).

(* headers: Python dict with str keys, insertion ordered *)
Definition hdict := list (bytes * bytes).

Fixpoint hget (h : hdict) (k : bytes) : option bytes :=
  match h with
  | [] => None
  | (k', v) :: h' => if beqb k k' then Some v else hget h' k
  end.
Definition hget_default (h : hdict) (k d : bytes) : bytes :=
  match hget h k with Some v => v | None => d end.
Fixpoint hset (h : hdict) (k v : bytes) : hdict :=       (* h[k] = v *)
  match h with
  | [] => [(k, v)]
  | (k', v') :: h' => if beqb k k' then (k', v) :: h' else (k', v') :: hset h' k v
  end.
Fixpoint hpop (h : hdict) (k : bytes) : hdict :=
  match h with
  | [] => []
  | (k', v') :: h' => if beqb k k' then h' else (k', v') :: hpop h' k
  end.

Record parser := {
  completed : bool;
  empty : bool;
  expect_continue : bool;
  headers_finished : bool;
  header_plus : bytes;
  chunked : bool;
  content_length : N;
  header_bytes_received : N;
  body_bytes_received : Z;
  body : option body_rcv;
  version : bytes;
  error : option perr;
  connection_close : bool;
  headers : hdict;
  first_line : bytes;
  command : bytes;
  request_uri : bytes;
  p_scheme : bytes;
  p_netloc : bytes;
  path : bytes;
  query : bytes;
  fragment : bytes;
  url_scheme : bytes
}.

#[export] Instance eta_parser : Settable _ := settable! Build_parser
  <completed; empty; expect_continue; headers_finished; header_plus; chunked; content_length;
   header_bytes_received; body_bytes_received; body; version; error; connection_close; headers;
   first_line; command; request_uri; p_scheme; p_netloc; path; query; fragment; url_scheme>.

Definition parser_init : parser := {|
  completed := false; empty := false; expect_continue := false; headers_finished := false;
  header_plus := []; chunked := false; content_length := 0; header_bytes_received := 0;
  body_bytes_received := 0%Z; body := None; version := [49; 46; 48] (* "1.0" *);
  error := None; connection_close := false; headers := [];
  first_line := []; command := []; request_uri := []; p_scheme := []; p_netloc := [];
  path := []; query := []; fragment := []; url_scheme := [] |}.

(* string constants (latin-1 text as code points) *)
Definition s_HOST := [72;79;83;84].
Definition s_CONTENT_LENGTH := [67;79;78;84;69;78;84;95;76;69;78;71;84;72].
Definition s_CONTENT_TYPE := [67;79;78;84;69;78;84;95;84;89;80;69].
Definition s_CONNECTION := [67;79;78;78;69;67;84;73;79;78].
Definition s_TRANSFER_ENCODING := [84;82;65;78;83;70;69;82;95;69;78;67;79;68;73;78;71].
Definition s_EXPECT := [69;88;80;69;67;84].
Definition s_keep_alive := [107;101;101;112;45;97;108;105;118;101].
Definition s_close := [99;108;111;115;101].
Definition s_chunked := [99;104;117;110;107;101;100].
Definition s_100_continue := [49;48;48;45;99;111;110;116;105;110;117;101].
Definition s_1_0 := [49;46;48].
Definition s_1_1 := [49;46;49].
Definition s_0 := [48].
Definition fake_head_431 : bytes :=   (* b"GET / HTTP/1.0\r\n" *)
  [71;69;84;32;47;32;72;84;84;80;47;49;46;48;13;10].

Definition is_singleton (k : bytes) : bool :=
  beqb k s_HOST || beqb k s_CONTENT_LENGTH || beqb k s_CONTENT_TYPE.

Definition has_cr_or_lf (s : bytes) : bool := memb 13 s || memb 10 s.

(* b" \t\x0b\x0c\r": the whitespace ignored around the request line (no LF) *)
Definition is_reqline_ws (x : N) : bool :=
  (x =? 32) || (x =? 9) || (x =? 11) || (x =? 12) || (x =? 13).

(* while header_plus.startswith(b"\r\n"): header_plus = header_plus[2:] *)
Fixpoint strip_leading_crlf (fuel : nat) (s : bytes) : bytes :=
  match fuel with
  | O => s
  | S f => match s with
           | 13 :: 10 :: s' => strip_leading_crlf f s'
           | _ => s
           end
  end.

(* get_header_lines *)
Fixpoint header_lines_go (lines : list bytes) (r : list bytes) : perr + list bytes :=
  (* r is kept reversed *)
  match lines with
  | [] => inr (rev r)
  | line :: rest =>
    match line with
    | [] => header_lines_go rest r
    | c :: _ =>
      if has_cr_or_lf line then inl EBareCRLFHeader
      else if (c =? 32) || (c =? 9) then
        match r with
        | [] => inl EMalformedHeaderLine
        | last :: r' => header_lines_go rest ((last ++ line) :: r')
        end
      else header_lines_go rest (line :: r)
    end
  end.
Definition get_header_lines (header : bytes) : perr + list bytes :=
  header_lines_go (split header CRLF) [].

(* one header line into the dict *)
Definition header_key (name : bytes) : bytes := replace_byte 45 95 (upper_ascii name).

Definition add_header_line (h : hdict) (line : bytes) : perr + hdict :=
  if negb (matches gate_header_field line) then inl EInvalidHeader
  else
    let '(name, _, rest) := partition line [58] in
    let value := strip_by is_sp_htab rest in
    if memb 95 name then inr h
    else
      let key1 := header_key name in
      match hget h key1 with
      | Some old =>
        if is_singleton key1 then inl EDuplicateHeader
        else inr (hset h key1 (old ++ [44; 32] ++ value))
      | None => inr (hset h key1 value)
      end.

(* on error the dict keeps the fields added before the offending line, as the
   real code mutates self.headers in place *)
Fixpoint add_header_lines (h : hdict) (lines : list bytes) : (perr * hdict) + hdict :=
  match lines with
  | [] => inr h
  | l :: rest =>
    match add_header_line h l with
    | inl e => inl (e, h)
    | inr h' => add_header_lines h' rest
    end
  end.

(* crack_first_line: None = ParsingError (malformed method); Some ("","","") = no match *)
Definition crack_first_line (line : bytes) : option (bytes * bytes * bytes) :=
  if negb (matches gate_request_line line) then Some ([], [], [])
  else
    let parts := split line [32] in
    match parts with
    | [m; u] => if beqb m (upper_ascii m) then Some (m, u, []) else None
    | [m; u; v] => if beqb m (upper_ascii m) then Some (m, u, skipn 5 v) else None
    | _ => Some ([], [], [])      (* unreachable when the gate is the request-line grammar *)
    end.

Definition te_encodings (te : bytes) : list bytes :=
  map (fun e => lower_latin1 (strip_by is_sp_htab e))
      (filter (fun e => negb (beqb (strip_by is_sp_htab e) [])) (split te [44])).

Definition int_max_str_digits : N := 4300.

(* how parse_header ends *)
Inductive ph_status :=
| PSOk
| PSError (e : perr)      (* ParsingError / TransferEncodingNotImplemented, caught by received() *)
| PSEscapes               (* any other exception: it leaves received() *)
| PSUnmodelled.

(* parse_header(header_plus): the parser attributes are updated in the order
   the Python assigns them, so that an error leaves exactly the attributes
   assigned so far *)
Definition parse_header (a : adj) (p : parser) (hp : bytes) : parser * ph_status :=
  match find hp CRLF with
  | None => (p, PSError EHeaderInvalid)
  | Some index =>
    let fl := rstrip_by is_reqline_ws (firstn index hp) in
    let header := skipn (index + 2) hp in
    if has_cr_or_lf fl then (p, PSError EBareCRLFFirstLine)
    else
    let p := p <| first_line := fl |> in
    match get_header_lines header with
    | inl e => (p, PSError e)
    | inr lines =>
      match add_header_lines (headers p) lines with
      | inl (e, h) => (p <| headers := h |>, PSError e)
      | inr h1 =>
        let p := p <| headers := h1 |> in
        match crack_first_line fl with
        | None => (p, PSError EMalformedMethod)
        | Some (cmd, uri, ver) =>
          if beqb cmd [] && beqb uri [] && beqb ver [] then (p, PSError EStartLineInvalid)
          else
          let p := p <| request_uri := uri |> <| command := cmd |> <| version := ver |> in
          match split_uri uri with
          | SBadURI => (p, PSError EBadURI)
          | SEscapes => (p, PSEscapes)
          | SUnmodelled => (p, PSUnmodelled)
          | SOk sc nl pa qu fr =>
            let p := p <| p_scheme := sc |> <| p_netloc := nl |> <| path := pa |>
                       <| query := qu |> <| fragment := fr |> <| url_scheme := adj_url_scheme a |> in
            let connection := hget_default h1 s_CONNECTION [] in
            let p := if beqb ver s_1_0 && negb (beqb (lower_latin1 connection) s_keep_alive)
                     then p <| connection_close := true |> else p in
            (* RFC 9112 6.1: Transfer-Encoding on a request that is not HTTP/1.1 *)
            let p := if negb (beqb ver s_1_1)
                        && (match hget h1 s_TRANSFER_ENCODING with Some _ => true | None => false end)
                     then p <| connection_close := true |> else p in
            (* version 1.1 *)
            let r11 : parser * option perr :=
              if beqb ver s_1_1 then
                let te := hget_default h1 s_TRANSFER_ENCODING [] in
                let p := p <| headers := hpop h1 s_TRANSFER_ENCODING |> in
                let encs := te_encodings te in
                if negb (forallb (fun e => beqb e s_chunked) encs) then (p, Some ETENotSupported)
                else
                  let r : parser * option perr :=
                    match encs with
                    | [] => (p, None)
                    | _ =>
                      if negb (length encs =? 1)%nat then (p, Some ETEMultipleChunked)
                      else
                        let p := p <| chunked := true |> <| body := Some (BChunked chunked_init) |> in
                        let cl := hget (headers p) s_CONTENT_LENGTH in
                        let p := p <| headers := hpop (headers p) s_CONTENT_LENGTH |> in
                        (match cl with Some _ => p <| connection_close := true |> | None => p end, None)
                    end in
                  match r with
                  | (p, Some e) => (p, Some e)
                  | (p, None) =>
                    let expect := lower_latin1 (hget_default (headers p) s_EXPECT []) in
                    let p := p <| expect_continue := beqb expect s_100_continue |> in
                    let p := if existsb (fun t => beqb (strip_by is_sp_htab t) s_close)
                                        (split (lower_latin1 connection) [44])
                             then p <| connection_close := true |> else p in
                    (p, None)
                  end
              else (p, None) in
            match r11 with
            | (p, Some e) => (p, PSError e)
            | (p, None) =>
              if chunked p then (p, PSOk)
              else
                let cl := hget_default (headers p) s_CONTENT_LENGTH s_0 in
                if negb (matches gate_content_length cl) then (p, PSError EContentLengthInvalid)
                else if int_max_str_digits <? lenN cl then (p, PSError EContentLengthInvalid)
                else
                  let n := dec_value cl in
                  let p := p <| content_length := n |> in
                  (if 0 <? n then p <| body := Some (BFixed (fixed_init n)) |> else p, PSOk)
            end
          end
        end
      end
    end
  end.

(* result of received(): new state and number of bytes consumed.
   ROutOfFuel / REscapes / RUnmodelled are explicit. *)
Inductive rcv_res :=
| ROk (p : parser) (consumed : Z)
| REscapes
| ROutOfFuel
| RUnmodelled.

Definition body_len (b : body_rcv) : N :=
  match b with BFixed f => lenN (f_buf f) | BChunked c => lenN (c_buf c) end.
Definition body_bytes (b : body_rcv) : bytes :=
  match b with BFixed f => f_buf f | BChunked c => c_buf c end.

Definition received (a : adj) (p : parser) (data : bytes) : rcv_res :=
  if completed p then ROk p 0%Z
  else
  let datalen := lenN data in
  match body p with
  | None =>
    (* In header *)
    let max_header := max_request_header_size a in
    let s := header_plus p ++ data in
    let index := find_double_newline s in
    let '(hbr, consumed) :=
      match index with
      | Some i => (N.of_nat i, (Z.of_N datalen - (Z.of_nat (length s) - Z.of_nat i))%Z)
      | None => (header_bytes_received p + datalen, Z.of_N datalen)
      end in
    let p := p <| header_bytes_received := hbr |> in
    if max_header <=? hbr then
      (* self.parse_header(b"GET / HTTP/1.0\r\n"); self.error = 431; self.completed = True *)
      match parse_header a p fake_head_431 with
      | (p1, PSOk) => ROk (p1 <| error := Some EHeaderTooLarge |> <| completed := true |>) consumed
      | (_, PSError _) => REscapes     (* ParsingError escaping received(); excluded in Proof/Parser *)
      | (_, PSEscapes) => REscapes
      | (_, PSUnmodelled) => RUnmodelled
      end
    else
    match index with
    | Some i =>
      let hp := lstrip_by is_reqline_ws (strip_leading_crlf (length s) (firstn i s)) in
      match hp with
      | [] => ROk (p <| empty := true |> <| completed := true |> <| headers_finished := true |>) consumed
      | _ =>
        match parse_header a p hp with
        | (_, PSEscapes) => REscapes
        | (_, PSUnmodelled) => RUnmodelled
        | (p1, PSError e) =>
          ROk (p1 <| error := Some e |> <| completed := true |> <| headers_finished := true |>) consumed
        | (p1, PSOk) =>
          let p2 := match body p1 with
                    | None => p1 <| completed := true |>
                    | Some _ => p1
                    end in
          let p3 := if (0 <? content_length p2) && (max_request_body_size a <=? content_length p2)
                    then p2 <| error := Some EBodyTooLarge |> <| completed := true |> else p2 in
          ROk (p3 <| headers_finished := true |>) consumed
        end
      end
    | None => ROk (p <| header_plus := s |>) (Z.of_N datalen)
    end
  | Some br =>
    (* In body *)
    let step : option (body_rcv * Z * option perr * bool) :=
      match br with
      | BFixed f => let '(f', n) := fixed_received f data in
                    Some (BFixed f', n, None, f_completed f')
      | BChunked c => match chunked_received c data with
                      | Some (c', n) => Some (BChunked c', n, c_error c', c_completed c')
                      | None => None
                      end
      end in
    match step with
    | None => ROutOfFuel
    | Some (br', consumed, brerr, brdone) =>
      let bbr := (body_bytes_received p + consumed)%Z in
      let p1 := p <| body := Some br' |> <| body_bytes_received := bbr |> in
      let max_body := max_request_body_size a in
      if (Z.of_N max_body <=? bbr)%Z
      then ROk (p1 <| error := Some EBodyTooLarge |> <| completed := true |>) consumed
      else match brerr with
      | Some e => ROk (p1 <| error := Some e |> <| completed := true |>) consumed
      | None =>
        if brdone then
          let p2 := p1 <| completed := true |> in
          ROk (if chunked p2
               then p2 <| headers := hset (headers p2) s_CONTENT_LENGTH (to_dec (body_len br')) |>
               else p2) consumed
        else ROk p1 consumed
      end
    end
  end.
